"""C19 — string utilities compute exactly their documented function with bounded writes."""
import itertools, os
import vlib
from checks import c19_more
from vlib import Check, Stream, hexs

WS = b" \t\r\n"
FILL = 0xAA
MODEL_MAX_BLOCK = 1 << 22     # largest malloc block the list-based Lean model is asked to build
SIG = [0x20, 0x09, 0x0d, 0x0a, ord('a'), ord('B'), 0xE9, ord(':'), ord('"')]   # the significant bytes


def unhex(w):
    return b"" if w == "-" else bytes.fromhex(w)


def cstr(b):
    i = b.find(b"\0")
    return b if i < 0 else b[:i]


# ------------------------------------------------------------------ reference definitions
# (independent of the Lean model: written with Python's own string primitives where one exists)

def ref_trim(s):
    return s.strip(WS)


def ref_trimh(s):
    return s.lstrip(WS)


def ref_trimt(s):
    return s.rstrip(WS)


def ref_upper(s):
    return bytes(c - 32 if 0x61 <= c <= 0x7a else c for c in s)


def ref_lower(s):
    return bytes(c + 32 if 0x41 <= c <= 0x5a else c for c in s)


def ref_unchar(s, h, t):
    if len(s) >= 2 and s[0] == h and s[-1] == t:
        return s[1:-1]
    return None


def ref_replace_s(s, tok, word):
    assert tok
    return s.replace(tok, word)          # leftmost, non-overlapping: Python's definition


def ref_replace_t(s, toks, word):
    return b"".join(word if c in toks else bytes([c]) for c in s)


def ref_split(s, delims):
    """every field in order, empty ones included; an empty field after the last delimiter
    (and the only field of the empty string) is not returned"""
    fields, cur = [], bytearray()
    for c in s:
        if c in delims:
            fields.append(bytes(cur)); cur = bytearray()
        else:
            cur.append(c)
    fields.append(bytes(cur))
    if fields[-1] == b"":
        fields.pop()
    return fields


def ref_gets(size, rest):
    """rest = non-empty remaining text; returns (line, bytes consumed)"""
    pre = rest[:size - 1]
    k = pre.find(b"\n")
    if k >= 0:
        return pre[:k].replace(b"\r", b""), k + 1
    return pre.replace(b"\r", b""), len(pre)


def ref_dupb(s, start, end):
    i = s.find(start)
    if i < 0:
        return None
    i += len(start)
    j = s.find(end, i)
    if j < 0:
        return None
    return s[i:j]


def strings_upto(alpha, n):
    for k in range(n + 1):
        for t in itertools.product(alpha, repeat=k):
            yield bytes(t)


class TheCheck(Check):
    prop = "C19"
    module = "str"
    harness = "str"
    wraps = ("malloc",)
    rule = ("calls of the qstring.c routines on exactly sized malloc blocks (ASan+UBSan), the whole block "
            "compared byte for byte with the Lean raw-buffer model and the returned string with the Python "
            "reference; distinct_nontrivial = distinct (operation, arguments) lines with a non-empty string")
    assumptions = ["hand model of qstring.c validated on the explored inputs only",
                   "x86-64 gcc: char is signed, 8 bits; size_t is 64 bits",
                   "strstr/strncmp/strcpy/strncpy/memmove are modelled by their C-standard definitions",
                   "malloc does not fail (allocation failure is property C15)",
                   "the models and oracles have no ambient errno: the harness plants errno (cycling through 0, ENOMEM, "
                   "ERANGE, EINTR, ENOENT, EINVAL, EAGAIN, ENOBUFS with the operation counter) immediately before every "
                   "library call and the results must not depend on it",
                   "qstrreplace: search token non-empty; mode r: the caller's block has room for the result "
                   "and its terminator (documented precondition)",
                   "qstrgets, qstrcpy, qstrncpy: size >= 1 is the size of the destination block; "
                   "qstrncpy: nbytes does not exceed the bytes readable at src",
                   "snprintf/vsnprintf (%u, %d, %s), atoi of 1-3 digits, strchr, strdup, strcat and the <ctype.h> "
                   "classes of the C locale are modelled by their C-standard definitions; glibc tolerates the "
                   "plain (signed) char qstrtest passes to the test function",
                   "qstr_is_ip4addr: leading zeros in a part are tolerated (as the code always did); "
                   "qstr_is_email: the documentation names no grammar, the reference is the declarative "
                   "description isEmail in Str/SpecMore.lean; the Python oracle judges only the clear cases of both",
                   "qstrcatf: the caller's block has room for the appended text and its terminator; "
                   "qstrdupf/qstrcatf are exercised with the formats %s, %d and %s=%s",
                   "qstrunique: only length and alphabet of the result (time, pid and rand() are not modelled); "
                   "qstr_conv_encoding (iconv) is not covered"]
    exhaustive_note = True

    def regenerate(self):
        # K-gen: the retry loop of DYNAMIC_VSPRINTF (start size, growth, fit test, loop body)
        from translator import fmtmacro
        out = os.path.join(vlib.LEAN, "QlibcModel/Generated/FmtMacro.lean")
        text = fmtmacro.render(fmtmacro.extract(vlib.REPO))
        if not os.path.exists(out) or open(out).read() != text:
            open(out, "w").write(text)
        return [out]

    def nontrivial_key(self, op, line):
        w = op.split()
        return op if any(x not in ("-",) for x in w[1:2]) else "trivial"

    # ------------------------------------------------------------------ streams
    def streams(self):
        rng = self.rng
        quick = self.tier == "quick"
        sts = []
        corpus = os.path.join(vlib.ROOT, "corpus", "C19")
        self.big_ops = []
        for f in sorted(os.listdir(corpus)) if os.path.isdir(corpus) else []:
            ops = [l.strip() for l in open(os.path.join(corpus, f)) if l.strip()]
            # operations whose malloc block is beyond what the list-based model can hold are run
            # against the implementation and the oracle only (see extra)
            self.big_ops += [(f, o) for o in ops if self.model_block(o) > MODEL_MAX_BLOCK]
            ops = [o for o in ops if self.model_block(o) <= MODEL_MAX_BLOCK]
            if ops:
                sts.append(Stream("corpus:" + f, ops))
        # the same size class in token mode (strlen(src) * strlen(word) = 2^32 + 2^16)
        self.big_ops.append(("generated", "repl %s %s %s %s %d" % (
            hexs(b"tn"), hexs(b"a" * 65535 + b"b"), hexs(b"b"), hexs(b"c" * 65537), 65537)))

        # 1. exhaustive: all strings of length <= 5 over the 9 significant bytes (66 430 strings)
        allsig = list(strings_upto(SIG, 5 if quick else 6))
        for op in ("trim", "trimh", "trimt"):
            sts.append(Stream("exh5:" + op, ["%s %s" % (op, hexs(s)) for s in allsig],
                              note="all strings len<=%d over 9 bytes" % (5 if quick else 6)))
        # case conversion / reversal do not look at blanks: length <= 4 over the 9 bytes + the
        # boundaries of the letter ranges and their signed-char aliases
        edge = [0x40, 0x41, 0x5a, 0x5b, 0x60, 0x61, 0x7a, 0x7b, 0xc1, 0xda, 0xe1, 0xfa, 0x01, 0x7f, 0x80, 0xff]
        sig4 = list(strings_upto(SIG, 4))
        for op in ("rev", "upper", "lower"):
            ops = ["%s %s" % (op, hexs(s)) for s in sig4]
            ops += ["%s %s" % (op, hexs(s)) for s in strings_upto(edge, 2)]
            ops += ["%s %02x" % (op, c) for c in range(1, 256)]
            sts.append(Stream("exh4:" + op, ops))
        # unchar: strings <= 4 over the bytes, head/tail drawn from quote, 'a', ':'
        un = []
        for s in sig4:
            for h, t in ((0x22, 0x22), (ord('a'), ord('B')), (0x22, ord(':'))):
                un.append("unchar %s %02x %02x" % (hexs(s), h, t))
        sts.append(Stream("exh4:unchar", un))

        # 2. bounded copies: all strings <= 3 over the 9 bytes (820) x all sizes 0..n+2
        s3 = list(strings_upto(SIG, 3))
        cp, ncp = [], []
        for s in s3:
            for size in range(0, len(s) + 3):
                cp.append("cpy %d %s" % (size, hexs(s)))
        for s in strings_upto([ord('a'), ord('B'), 0xE9], 4):
            for size in range(0, len(s) + 3):
                for nb in range(0, len(s) + 2):          # nb = len(s)+1 copies the terminator too
                    ncp.append("ncpy %d %s %d" % (size, hexs(s), nb))
        sts.append(Stream("copy:cpy", cp, note="sizes 0..n+2"))
        sts.append(Stream("copy:ncpy", ncp, note="sizes 0..n+2, nbytes 0..n+1"))

        # 3. line reader: strings <= 5 over {CR, LF, a, B} x sizes 1..n+2 x every offset
        ge, li = [], []
        for s in strings_upto([0x0d, 0x0a, ord('a'), ord('B')], 5):
            for size in range(1, len(s) + 3):
                for off in range(0, len(s) + 1):
                    ge.append("gets %d %s %d" % (size, hexs(s), off))
                li.append("lines %d %s" % (size, hexs(s)))
        sts.append(Stream("gets:single", ge))
        sts.append(Stream("gets:lines", li))

        # 4. tokenizer: strings <= 5 over {a, B, ':', ',', blank} x delimiter sets
        tk = []
        for s in strings_upto([ord('a'), ord('B'), ord(':'), ord(','), 0x20, 0xE9], 5 if not quick else 4):
            for d in (b":", b":,", b",: ", b"", b"a"):
                tk.append("tok %s %s" % (hexs(s), hexs(d)))
                if len(s) <= 3:
                    tk.append("tokenizer %s %s" % (hexs(s), hexs(d)))
        sts.append(Stream("tok:exhaustive", tk))

        # 5. replace: all (source, token, word), |source| <= 5, |token| 1..3, |word| 0..3 over {a, b}
        ab = [ord('a'), ord('b')]
        srcs = list(strings_upto(ab, 5 if quick else 7))
        toks = [t for t in strings_upto(ab, 3) if t]
        words = list(strings_upto(ab, 3))
        for mode in ("sn", "sr", "tn", "tr"):
            ops = []
            for s in srcs:
                for t in toks:
                    for w_ in words:
                        out = ref_replace_s(s, t, w_) if mode[0] == "s" else ref_replace_t(s, t, w_)
                        # mode r needs room for the result: the tightest legal block
                        cap = max(len(s), len(out)) + 1 if mode[1] == "r" else len(s) + 1
                        ops.append("repl %s %s %s %s %d" % (hexs(mode.encode()), hexs(s), hexs(t), hexs(w_), cap))
            sts.append(Stream("repl-exh:" + mode, ops, note="%d x 14 x 15 triples" % len(srcs)))
        # token mode with an empty token list is inside the property (nothing is listed)
        misc = []
        for s in strings_upto(ab, 3):
            for w_ in (b"", b"x", b"xy"):
                misc.append("repl %s %s - %s %d" % (hexs(b"tn"), hexs(s), hexs(w_), len(s) + 1))
                misc.append("repl %s %s - %s %d" % (hexs(b"tr"), hexs(s), hexs(w_), len(s) + 1))
        # unknown modes return NULL (and must not leak)
        for m in (b"", b"s", b"snn", b"xn", b"Sn", b"sx", b"tx", b"nn"):
            misc.append("repl %s %s %s %s %d" % (hexs(m), hexs(b"abab"), hexs(b"ab"), hexs(b"c"), 5))
        sts.append(Stream("repl-misc", misc))

        # 6. dup_between
        db = []
        for s in strings_upto([ord('a'), ord('['), ord(']')], 5):
            for st, en in ((b"[", b"]"), (b"a", b"a"), (b"[[", b"]"), (b"", b"]"), (b"[", b""), (b"a[", b"]a")):
                db.append("dupb %s %s %s" % (hexs(s), hexs(st), hexs(en)))
        sts.append(Stream("dupb:exhaustive", db))

        # 7. random longer inputs
        n = 1500 if quick else 20000
        rs = []

        def rstr(lo, hi, alpha=None):
            ln = rng.randrange(lo, hi)
            if alpha is None:
                return bytes(rng.randrange(1, 256) for _ in range(ln))
            return bytes(rng.choice(alpha) for _ in range(ln))
        for i in range(n):
            k = rng.randrange(12)
            big = 400 if i % 25 else 3000
            if k == 0:
                s = rstr(0, 8, WS) + rstr(0, big, SIG) + rstr(0, 8, WS)
                rs.append("%s %s" % (rng.choice(["trim", "trimh", "trimt"]), hexs(s)))
            elif k == 1:
                rs.append("%s %s" % (rng.choice(["rev", "upper", "lower"]), hexs(rstr(0, big))))
            elif k == 2:
                s = rstr(0, 60, SIG)
                h, t = rng.choice(SIG), rng.choice(SIG)
                if rng.random() < 0.6 and len(s) >= 1:
                    s = bytes([h]) + s + bytes([t])
                rs.append("unchar %s %02x %02x" % (hexs(s), h, t))
            elif k == 3:
                s = rstr(0, 120)
                size = rng.choice([rng.randrange(0, 4), len(s), len(s) + 1, len(s) + 2, rng.randrange(0, 140)])
                rs.append("cpy %d %s" % (size, hexs(s)))
            elif k == 4:
                s = rstr(0, 120)
                nb = rng.randrange(0, len(s) + 2)
                size = rng.choice([rng.randrange(0, 4), nb, nb + 1, nb + 2, len(s) + 1, rng.randrange(0, 140)])
                rs.append("ncpy %d %s %d" % (size, hexs(s), nb))
            elif k == 5:
                s = rstr(0, 200, [0x0d, 0x0a] + [ord('a')] * 6 + [0xE9, 0x20])
                size = rng.choice([rng.randrange(1, 6), rng.randrange(1, 40), 300])
                if rng.random() < 0.5:
                    rs.append("gets %d %s %d" % (size, hexs(s), rng.randrange(0, len(s) + 1)))
                elif size >= 2:
                    rs.append("lines %d %s" % (size, hexs(s)))
            elif k == 6:
                d = rstr(0, 4, b":,; |")
                s = rstr(0, 200, list(b":,; |") + [ord('a'), ord('B'), 0xE9] * 3)
                rs.append("%s %s %s" % (rng.choice(["tok", "tok", "tokenizer"]), hexs(s), hexs(d)))
            elif k in (7, 8, 9):
                alpha = rng.choice([b"ab", b"abc", b"a", bytes(SIG)])
                s = rstr(0, rng.choice([12, 60, 200]), alpha)
                tok = rstr(1, 5, alpha)
                if rng.random() < 0.3 and len(s) >= 3:
                    a = rng.randrange(len(s)); tok = s[a:a + rng.randrange(1, 6)] or tok
                word = rstr(0, 8, alpha + b"_")
                mode = rng.choice(["sn", "sr", "tn", "tr"])
                out = ref_replace_s(s, tok, word) if mode[0] == "s" else ref_replace_t(s, tok, word)
                cap = len(s) + 1
                if mode[1] == "r":
                    cap = max(len(s), len(out)) + 1 + rng.choice([0, 0, 1, 7])
                rs.append("repl %s %s %s %s %d" % (hexs(mode.encode()), hexs(s), hexs(tok), hexs(word), cap))
            else:
                alpha = b"ab[]"
                s = rstr(0, 80, alpha)
                rs.append("dupb %s %s %s" % (hexs(s), hexs(rstr(0, 3, alpha)), hexs(rstr(0, 3, alpha))))
        sts.append(Stream("random", rs))
        # 7b. lengths N-1, N, N+1 around every integer constant of the CURRENT qstring.c (after
        #     preprocessing: PATH_MAX, buffer sizes, thresholds of fast paths): source length, result length
        #     and worst-case result length of a replacement each meet the boundary, in all four modes;
        #     copies of such lengths into blocks of such sizes (seed C19-m9)
        bo = []
        nums = [n for n in vlib.source_numbers(["src/utilities/qstring.c"]) if 16 <= n <= (20000 if quick else 1 << 20)]
        for n in nums:
            for L in (n - 1, n, n + 1):
                h = L // 2
                for mode in ("sr", "sn"):
                    bo.append("repl %s %s %s %s %d" % (hexs(mode.encode()), hexs(b"a" * L), hexs(b"//"), hexs(b"/"), L + 1))
                    bo.append("repl %s %s %s %s %d" % (hexs(mode.encode()), hexs(b"a" * (L - 2) + b"//"), hexs(b"//"), hexs(b"/"), L + 1))
                    bo.append("repl %s %s %s %s %d" % (hexs(mode.encode()), hexs(b"ab" * h), hexs(b"ab"), hexs(b"c"), 2 * h + 1))
                    bo.append("repl %s %s %s %s %d" % (hexs(mode.encode()), hexs(b"c" * h), hexs(b"c"), hexs(b"ab"), 2 * h + 1))
                for mode in ("tr", "tn"):
                    bo.append("repl %s %s %s %s %d" % (hexs(mode.encode()), hexs(b"b" * h), hexs(b"b"), hexs(b"cd"), 2 * h + 1))
                    bo.append("repl %s %s %s %s %d" % (hexs(mode.encode()), hexs(b"a" * L), hexs(b"b"), hexs(b"c"), L + 1))
                    bo.append("repl %s %s %s %s %d" % (hexs(mode.encode()), hexs(b"ab" * h), hexs(b"b"), hexs(b""), 2 * h + 1))
                bo.append("cpy %d %s" % (L, hexs(b"x" * n)))
                bo.append("cpy %d %s" % (n + 1, hexs(b"x" * L)))
        self.big_ops += [("boundary", o) for o in bo if self.model_block(o) > MODEL_MAX_BLOCK]
        bo = [o for o in bo if self.model_block(o) <= MODEL_MAX_BLOCK]
        sts.append(Stream("source-boundaries", bo, note="constants of the current source: %s" % nums))
        # 8. comma number, IPv4 / e-mail tests, qstrtest, qstrdupf / qstrcatf, qstrunique
        sts += c19_more.streams(self)
        from checks import mtpure
        sts.append(mtpure.stream(self))      # hidden shared state shows only with concurrent callers
        return sts

    @staticmethod
    def model_block(op):
        """size of the block qstrreplace allocates for this operation (0 for other operations)"""
        w = op.split()
        if w[0] != "repl" or len(w) != 6:
            return 0
        mode, s, tok, word = unhex(w[1]), cstr(unhex(w[2])), cstr(unhex(w[3])), cstr(unhex(w[4]))
        if mode[:1] == b"t":
            return len(s) * max(len(word), 1) + 1
        if mode[:1] == b"s" and tok:
            return ((len(s) // len(tok)) * len(word) + len(s) % len(tok) if len(word) > len(tok) else len(s)) + 1
        return 0

    def extra(self, impl_dir):
        """operations too large for the model: implementation (ASan) + the property's oracle only"""
        for name, op in self.big_ops:
            impl, rc, err = vlib.run_proc([self.hbin], op + "\n", timeout=120)
            self.evals += 1
            self.cov["streams"]["big:" + name] = {"ops": 1, "impl_rc": rc, "note": "oracle only (block of %d bytes)" % self.model_block(op)}
            short = op[:60] + "..."
            if rc != 0 or not impl:
                self.violation("crash", self.classify(op, ""), "harness died (rc=%d) on `%s`: %s" % (rc, short, vlib.sanitizer_summary(err)),
                               {"stream": "big:" + name, "ops": [op], "stderr": err[-3000:]})
                continue
            f = impl[0].split()
            if f[0] == "null" and "alloc" in f and f[f.index("alloc") + 1].isdigit() and int(f[f.index("alloc") + 1]) >= 1 << 31:
                continue            # allocation failure of a > 2 GiB request: not this property's subject
            d = self.judge(op, impl[0])
            if d:
                self.violation("property", self.classify(op, d), d[:300], {"stream": "big:" + name, "ops": [op], "impl_line": impl[0][:300]})

    # ------------------------------------------------------------------ the property's oracle
    def judge(self, op, line):
        w = op.split()
        f = line.split()
        kind = w[0]
        if not f:
            return "no result line"
        if f[0] == "badret":
            return "the routine did not return its argument buffer: " + line
        if f[0] == "fault":
            return None            # the harness never prints this; model-only outcome
        try:
            return self._judge(kind, w, f, line)
        except (IndexError, ValueError) as e:
            return "malformed result line %r (%s)" % (line, e)

    def judge_history(self, ops, impl_lines):
        for i, (op, l) in enumerate(zip(ops, impl_lines)):
            d = self.judge(op, l)
            if d and d.startswith("malformed") and i == len(impl_lines) - 1 and len(impl_lines) < len(ops):
                continue               # line cut off by a crash: the crash itself is reported
            if d:
                return i, d
        return None

    def _judge(self, kind, w, f, line):
        if kind == "errno":
            return None
        if kind in c19_more.KINDS:
            return c19_more.judge(kind, w, f, line)
        if kind in ("trim", "trimh", "trimt", "rev", "upper", "lower"):
            x = unhex(w[1])
            s = cstr(x)
            blk = unhex(f[1])
            want = {"trim": ref_trim, "trimh": ref_trimh, "trimt": ref_trimt, "rev": lambda b: b[::-1],
                    "upper": ref_upper, "lower": ref_lower}[kind](s)
            if f[0] != "ok" or len(blk) != len(x) + 1:
                return "bad result " + line
            if cstr(blk) != want:
                return "%s(%r) gives %r, documented result %r" % (kind, s, cstr(blk), want)
            if blk[len(s) + 1:] != (x + b"\0")[len(s) + 1:]:
                return "%s(%r) wrote behind the string's terminator" % (kind, s)
        elif kind == "unchar":
            x = unhex(w[1]); s = cstr(x)
            want = ref_unchar(s, int(w[2], 16), int(w[3], 16))
            blk = unhex(f[1])
            if want is None:
                if f[0] != "null" or blk != x + b"\0":
                    return "unchar(%r) must return NULL and leave the string alone: %s" % (s, line)
            elif f[0] != "ok" or cstr(blk) != want or blk[len(s) + 1:] != (x + b"\0")[len(s) + 1:]:
                return "unchar(%r) gives %s, documented %r" % (s, line, want)
        elif kind == "repl":
            mode, s, tok, word = unhex(w[1]), cstr(unhex(w[2])), cstr(unhex(w[3])), cstr(unhex(w[4]))
            cap = max(int(w[5]), len(unhex(w[2])) + 1)
            srcblk = unhex(f[f.index("src") + 1])
            orig = unhex(w[2]) + b"\0" + bytes([FILL]) * (cap - len(unhex(w[2])) - 1)
            if len(mode) != 2 or mode[0:1] not in (b"s", b"t") or mode[1:2] not in (b"n", b"r"):
                if f[0] != "null" or srcblk != orig:
                    return "unknown mode %r must return NULL and leave the source alone: %s" % (mode, line)
                return None
            if mode[0:1] == b"s" and not tok:
                return None                      # outside the property
            want = ref_replace_s(s, tok, word) if mode[0:1] == b"s" else ref_replace_t(s, tok, word)
            if f[0] != "ok" or unhex(f[1]) != want:
                return "replace %r of %r in %r by %r gives %s, documented %r" % (mode, tok, s, word, line[:80], want)
            if mode[1:2] == b"n":
                if srcblk != orig:
                    return "mode n modified the source block"
            else:
                if len(want) + 1 <= cap and (cstr(srcblk) != want or srcblk[max(len(want), len(s)) + 1:] != orig[max(len(want), len(s)) + 1:]):
                    return "mode r: source block is %r, expected the string %r and nothing changed behind it" % (srcblk, want)
        elif kind in ("cpy", "ncpy"):
            size = int(w[1]); s = cstr(unhex(w[2]))
            blk = unhex(f[1])
            if kind == "ncpy":
                s = (s + b"\0")[:int(w[3])]      # nbytes = |s| + 1 copies the terminator as well
            if size == 0:
                if blk != bytes([FILL]):
                    return "size 0: the destination must not be written"
                return None
            k = min(len(s), size - 1)
            if f[0] != "ok" or len(blk) != size or blk[:k] != s[:k] or blk[k] != 0:
                return "copy of %r into %d bytes gives %r: want %r + NUL" % (s, size, blk, s[:k])
            if blk[k + 1:] != bytes([FILL]) * (size - k - 1):
                return "copy of %r into %d bytes wrote behind the terminator: %r" % (s, size, blk)
        elif kind == "dupb":
            s, st, en = cstr(unhex(w[1])), cstr(unhex(w[2])), cstr(unhex(w[3]))
            want = ref_dupb(s, st, en)
            if want is None:
                if f[0] != "null":
                    return "dup_between(%r,%r,%r) must be NULL: %s" % (s, st, en, line)
            elif f[0] != "ok" or unhex(f[1]) != want + b"\0":
                return "dup_between(%r,%r,%r) gives %s, documented %r" % (s, st, en, line, want)
        elif kind == "gets":
            size = int(w[1]); s = cstr(unhex(w[2])); off = int(w[3])
            blk = unhex(f[1])
            if off >= len(s):
                if f[0] != "null" or blk != bytes([FILL]) * size:
                    return "gets at the end of the text must return NULL and write nothing: " + line
                return None
            ln, used = ref_gets(size, s[off:])
            if f[0] != "ok" or len(blk) != size or cstr(blk) != ln or int(f[2]) != off + used:
                return "gets(size %d) on %r gives %s, documented line %r, new offset %d" % (size, s[off:], line, ln, off + used)
            if blk[len(ln) + 1:] != bytes([FILL]) * (size - len(ln) - 1):
                return "gets wrote behind its terminator: " + line
        elif kind == "lines":
            size = int(w[1]); s = cstr(unhex(w[2]))
            want, off, guard = [], 0, len(unhex(w[2])) + 2
            while off < len(s) and guard > 0:
                ln, used = ref_gets(size, s[off:])
                off += used; guard -= 1
                want.append("%s/%d" % (hexs(ln), off))
            if f[0] != "ok" or f[2:] != want or int(f[1]) != len(want):
                return "reading %r line by line (size %d) gives %s, documented %s" % (s, size, f[2:], want)
        elif kind == "tok":
            s, d = cstr(unhex(w[1])), cstr(unhex(w[2]))
            want = ref_split(s, d)
            n = int(f[1])
            got = [unhex(t.split("/")[0]) for t in f[2:2 + n]]
            if f[0] != "ok" or got != want:
                return "qstrtok over %r with delimiters %r returns %r, documented %r" % (s, d, got, want)
            # stop characters and offsets: the delimiter that ended the field / NUL for the last
            pos = 0
            for i, t in enumerate(f[2:2 + n]):
                _, stop, off = t.split("/")
                end = pos + len(want[i])
                wstop = s[end] if end < len(s) else 0
                woff = end + 1 if end < len(s) else end
                if int(stop, 16) != wstop or int(off) != woff:
                    return "qstrtok field %d of %r: stop %s offset %s, expected %02x %d" % (i, s, stop, off, wstop, woff)
                pos = woff
            blk = unhex(f[f.index("buf") + 1])
            x = unhex(w[1]) + b"\0"
            if len(blk) != len(x) or any(a != b and not (b in d and a == 0 and j < len(s)) for j, (a, b) in enumerate(zip(blk, x))):
                return "qstrtok changed bytes other than delimiters inside the string: %r -> %r" % (x, blk)
        elif kind == "tokenizer":
            s, d = cstr(unhex(w[1])), cstr(unhex(w[2]))
            want = ref_split(s, d)
            got = [unhex(t) if not t.startswith("unterminated") else None for t in f[2:]]
            if f[0] != "ok" or got != want or int(f[1]) != len(want):
                return "qstrtokenizer(%r, %r) gives %r, documented %r" % (s, d, got, want)
        return None

    def shrink(self, st, idx, pred):
        """the harness plants errno from the operation counter: a single-operation replay must run
        under the same value, so it is prefixed with `errno K`"""
        ops = super().shrink(st, idx, pred)
        if not st.history and idx < len(st.ops):
            return ["errno %d" % ((idx + 1) % 8)] + ops
        return ops

    def classify(self, op, detail):
        return "qstring:" + op.split()[0]

"""CLAIMED entry for C18 (from the C18 builder)."""

CLAIMED = {
    "C18": dict(
        text="Lean 4 theorems over the model of qhash.c/md5c.c (64 MD5 step lines, init words, PADDING, FNV offset "
             "bases and shift lists, all MurmurHash3 constants/rotations/tail tables regenerated from the source on "
             "every run): qhashmd5 = RFC 1321 for all inputs (any stack garbage in the context), MD5Update buffering "
             "under every chunking (total length unbounded), qhashmd5_file = RFC 1321 of exactly the requested range "
             "for every short-read schedule, qhashfnv1_32/64 = FNV-1 (shift-add = multiplication by the prime), "
             "qhashmurmur3_32/128 = MurmurHash3 x86_32/x64_128 seed 0; no read outside the nbytes given bytes and "
             "no dependence on the bytes after the buffer (model faults on out-of-bounds reads); specifications "
             "written from the publications and validated against RFC 1321 A.5, SMHasher verification values, FNV "
             "vectors and Python references. Model tied to the code by a differential correspondence run: every "
             "length 1-600 x alignment offsets 0-7 x 5 content classes in exactly sized ASan blocks, chunked "
             "MD5 contexts compared field by field, file ranges with short reads; MD5Update's bit-count "
             "bookkeeping (statements extracted by K-gen, theorem md5_count_update) compared with the C context at "
             "lengths up to 2^32-64 without data; single-call inputs of 2^29-1 .. 2^32-64 bytes (MD5) and up to "
             "2^31-1 bytes (murmur, FNV) checked implementation-vs-oracle in exactly sized buffers.",
        note="trusted: Lean kernel, translator/md5steps.py (gcc -E + regex; macro texts fingerprinted), the hand "
             "transcription of the loops (validated only on explored inputs), gcc/ASan/UBSan; little-endian x86-64; "
             "width preconditions nbytes + 64 <= 2^32 (MD5: unsigned int inputLen) and nbytes < 2^31 "
             "(murmur: int block arithmetic); huge-input oracle for murmur/FNV is checks/hashref.c (from the "
             "publications, cross-checked against the Python references on every run); alignment independence is by the model's type and sampled by the harness.",
        technique="Lean 4 proof (induction over byte lists/chunk lists/fuel, bv_omega for shift-add = multiply, "
                  "decide +kernel over the regenerated step table) + K-gen constants + differential correspondence",
        design="7/C18"),
}

"""C08 — list table is an exact ordered multimap under every option combination."""
import itertools, os, re
import vlib
from vlib import Check, Stream, hexs
from checks.murmur import murmur3_32
from checks.c05 import (py_atoll, unhex, kop, INT64_MIN, INT64_MAX, FULL_COLLISIONS, VS_LENGTHS, VS_SWEEP, vs_value,
                        PREFIX_COLLISIONS, py_debug_line, alias_value)

WS = b" \t\r\n"
ENTRY = re.compile(r"^([0-9a-f]+|-)\(([0-9a-f]{8})\)=([0-9a-f]+|-)$")
ALL_OPTS = ["%d %d %d %d" % t for t in itertools.product((0, 1), repeat=4)]


def lower(b):
    return bytes(c + 32 if 65 <= c <= 90 else c for c in b)


def admissible(name, sep):
    return (len(name) > 0 and sep not in name and not any(c in name for c in b"\r\n\0")
            and name[0] not in WS and name[-1] not in WS and name[0] != 0x23)


def parse_entries(body):
    """`[e1,e2,...]` -> list of (name, data, hash)"""
    assert body[0] == "[" and body[-1] == "]", body
    out = []
    for e in body[1:-1].split(","):
        if not e:
            continue
        mm = ENTRY.match(e)
        out.append((unhex(mm.group(1)), unhex(mm.group(3)), int(mm.group(2), 16)))
    return out


def py_urldecode(v):
    """URL decoding of a well-formed value ('+' = blank, %hh = byte); None when an escape is malformed
    or truncated (the library's result for those is not part of any documented format)"""
    out, i = bytearray(), 0
    while i < len(v):
        c = v[i]
        if c == 0x25:
            h = v[i + 1:i + 3]
            if len(h) != 2 or not re.fullmatch(rb"[0-9a-fA-F]{2}", h):
                return None
            out.append(int(h, 16))
            i += 3
        else:
            out.append(0x20 if c == 0x2b else c)
            i += 1
    return bytes(out)


def py_load(data, sep, dec):
    """independent reading of the documented file format: one `name<sep>value` entry per line, blank
    lines and lines starting with # ignored, name and value trimmed, value URL-decoded on request and
    stored as a C string. Returns [(name, value + NUL)] or None when a value has a malformed escape."""
    out = []
    for line in data.split(b"\0")[0].split(b"\n"):
        line = line.strip(WS)
        if not line or line[:1] == b"#":
            continue
        name, _, val = line.partition(bytes([sep]))
        name, val = name.strip(WS), val.strip(WS)
        if dec:
            val = py_urldecode(val)
            if val is None:
                return None
            val = val.split(b"\0")[0]
        out.append((name, val + b"\0"))
    return out


class Oracle:
    """ideal ordered multimap: a list of (name, value) pairs plus the four options"""
    def __init__(self):
        self.set_opts("0000")
        self.l = []
        self.last = None        # entry returned by the last successful next

    def set_opts(self, s):
        self.u, self.c, self.t, self.f = [ch == "1" for ch in s]

    def eq(self, a, b):
        return lower(a) == lower(b) if self.c else a == b

    def look(self):
        return list(self.l) if self.f else list(reversed(self.l))

    def put(self, k, v):
        if self.u:
            self.l = [e for e in self.l if not self.eq(e[0], k)]
        if self.t:
            self.l.insert(0, (k, v))
        else:
            self.l.append((k, v))

    def step(self, op, line):
        w = op.split()
        if " | " not in line:
            raise ValueError("malformed result line")      # truncated by a dying harness, or garbage
        res, dump = line.split(" | ", 1)
        r = res.split()
        if r and r[0].startswith("allocs="):      # allocation attempts of the call (overlay C11/C15)
            r = r[1:]
            res = " ".join(r)
        kind = w[0]
        if not r or r[0] == "bad-op":
            return "harness rejected the operation"
        if r[0] == "skip" and kind not in ("putalias", "putkeyalias"):
            return None
        if r[0] == "fault":
            return "undefined behaviour predicted: " + res
        d = dump.split()
        if dump.endswith("BACKLINKS-BROKEN"):
            return "after `%s` the prev links / last pointer do not mirror the next links" % op[:60]
        opts, num, ents = d[0], int(d[1]), parse_entries(d[3])
        self.live = int(d[2][5:])       # `live=<n>`: blocks the library holds for the table
        got = [(n, v) for n, v, _ in ents]
        bad = None
        resync = False
        if kind == "new":
            self.l = []
            self.set_opts("".join(w[1:5]))
        elif kind == "end":            # the table is released and replaced by an empty default one
            self.l = []
            self.set_opts("0000")
        elif kind in ("put", "putstr", "putstrf", "putint"):
            k = unhex(w[1])
            v = unhex(w[3]) if kind == "put" else unhex(w[3]) + b"\0" if kind.startswith("putstr") else str(int(w[3])).encode() + b"\0"
            if len(v) == 0:
                if res != "false EINVAL":
                    bad = "put of an empty value reported %s" % res
            else:
                if res != "true":
                    bad = "put reported %s" % res
                self.put(k, v)
        elif kind in ("get", "getstr", "getint"):
            k = unhex(w[1])
            m = [e for e in self.look() if self.eq(e[0], k)]
            if not m:
                want = {"get": "null ENOENT", "getstr": "null ENOENT", "getint": "int 0"}[kind]
                if res != want:
                    bad = "%s of absent key %r returned %s" % (kind, k, res)
            else:
                v = m[0][1]
                if kind == "get":
                    if r[0] != "data" or unhex(r[1]) != v or int(r[2]) != len(v):
                        bad = "get(%r) returned %s; first match in lookup direction is %r" % (k, res, v)
                elif b"\0" in v:
                    if kind == "getstr" and (r[0] != "str" or unhex(r[1]) != v.split(b"\0")[0]):
                        bad = "getstr(%r) returned %s; first match is %r" % (k, res, v)
                    if kind == "getint" and (r[0] != "int" or int(r[1]) != py_atoll(v)):
                        bad = "getint(%r) returned %s; first match is %r" % (k, res, v)
        elif kind == "getmulti":
            k = unhex(w[1])
            m = [e[1] for e in self.look() if self.eq(e[0], k)]
            if not m:
                if res != "null ENOENT 0":
                    bad = "getmulti of absent key %r returned %s" % (k, res)
            elif r[0] != "multi" or int(r[1]) != len(m) or [unhex(x) for x in r[2:]] != m:
                bad = "getmulti(%r) returned %s; matches in lookup order are %r" % (k, res, m)
        elif kind == "rm":
            k = unhex(w[1])
            m = [e for e in self.l if self.eq(e[0], k)]
            if res != "removed %d" % len(m):
                bad = "remove(%r) returned %s; %d entries match" % (k, res, len(m))
            self.l = [e for e in self.l if not self.eq(e[0], k)]
        elif kind == "size":
            if res != "size %d" % len(self.l):
                bad = "size reported %s; the multimap holds %d entries" % (res, len(self.l))
        elif kind == "clear":
            self.l = []
        elif kind == "sort":
            fold = lower if self.c else (lambda x: x)
            self.l = sorted(self.l, key=lambda e: fold(e[0]))      # stable, unsigned byte order
            if self.c:
                # entries whose names are equal ignoring case may not be reordered; that IS the stable sort
                pass
        elif kind in ("putalias", "putkeyalias"):
            # data / name argument pointing into the storage of the first match in lookup direction: the
            # OLD bytes are stored; a UNIQUE table drops that very entry during the call
            k = unhex(w[1])
            m0 = [e for e in self.look() if self.eq(e[0], k)]
            if kind == "putalias":
                nk, val = k, alias_value(m0[0][1] if m0 else None, int(w[3]), int(w[4]), int(w[5]))
            else:
                off = int(w[3])
                nk, val = (m0[0][0][off:], unhex(w[4])) if m0 and off <= len(m0[0][0]) else (None, None)
            if val is None:
                if res != "skip":
                    bad = "harness made a call it should have skipped: %s" % res
            elif len(val) == 0:
                if res != "false EINVAL":
                    bad = "put of an empty value reported %s" % res
            else:
                if res != "true":
                    bad = "put with an argument pointing into the table's own storage reported %s" % res
                self.put(nk, val)
        elif kind == "debug":
            want = b"".join(py_debug_line(k, v) for k, v in self.l)
            if len(r) != 3 or r[:2] != ["debug", "1"] or unhex(r[2]) != want:
                bad = "debug() wrote %r; the entries render as %r" % ((unhex(r[2]) if len(r) == 3 else res)[:120], want[:120])
        elif kind == "hugeval":
            if res != "ok":
                bad = "value of 2^32 + %s bytes: %s" % (w[1], res)
        elif kind == "inv":
            # invalid arguments on the current table. Group 1 (before `/`): documented / coded EINVAL.
            # Group 2: remove(NULL) = 0, removeobj(NULL) = false, getnext(NULL obj) = false (errno is
            # not documented for these), debug(NULL) = false/EIO, save / load on a path that cannot be
            # opened = false / -1. No out-parameter written; the table unchanged (dump compared below).
            # getmulti(NULL name) is documented neither way and not judged here.
            sl = r.index("/") if "/" in r else -1
            g1, g2 = r[1:sl], r[sl + 1:]
            if sl != 15 or any(x != "0:EINVAL" for x in g1):
                bad = ("a call with a NULL argument / zero size did not fail with EINVAL (result:errno per call: put(NULL,v) "
                       "put(k,NULL) put(k,v,0) putstr(NULL,v) putstr(k,NULL) putstrf(NULL) putint(NULL) get(NULL)x3 getstr(NULL)x2 "
                       "getint(NULL) save(NULL path)): %s" % " ".join(g1))
            elif (len(g2) < 9 or [x.split(":")[0] for x in g2[:4]] != ["0"] * 4 or g2[4] != "0:EIO" or not g2[5].startswith("0:")
                  or not g2[6].startswith("-1:") or g2[7] != "sz=99"):
                bad = ("remove(NULL) / removeobj(NULL) / getnext(NULL obj) / debug(NULL) / save or load on an unusable path did "
                       "not fail as documented: %s" % " ".join(g2))
        elif kind == "lock":
            if r[:4] != ["locked", "size", "%d" % len(self.l), "nested=ENOENT"] or r[4:] not in (["nolock"], ["held=1", "after=0"]):
                bad = "lock(); nested get of an absent key; size; [other thread: mutex busy]; unlock(); [other thread: mutex free] gave `%s` (%d entries)" % (res, len(self.l))
        elif kind in ("walk", "walkn", "walkrm", "walkrmc"):
            key = None
            if kind == "walkn":
                key = unhex(w[1])
            if kind == "walkrmc":
                kind = "walkrm"            # the removed objects were obtained with newmem = true
            if kind == "walkrm" and len(w) == 4:
                key = unhex(w[2])
            want = [e for e in self.look() if key is None or self.eq(e[0], key)]
            toks = r[1:]
            seen, removed, i = [], [], 0
            while i < len(toks) and toks[i] == "true":
                mm = ENTRY.match(toks[i + 1])
                seen.append((unhex(mm.group(1)), unhex(mm.group(3))))
                i += 2
                if i < len(toks) and toks[i] in ("removed",) or (i < len(toks) and toks[i].startswith("notremoved")):
                    removed.append(toks[i])
                    i += 1
                else:
                    removed.append(None)
            if toks[i:] != ["false", "ENOENT"]:
                bad = "walk did not end with false/ENOENT: %s" % " ".join(toks[i:])[:80]
            elif seen != want:
                bad = "walk returned %r; entries in lookup order are %r" % (seen[:8], want[:8])
            elif kind == "walkrm":
                mask = int(w[1])
                # remove the visited entries selected by the mask (by position in lookup order)
                idx = [j for j in range(len(self.l))]
                order = idx if self.f else idx[::-1]
                order = [j for j in order if key is None or self.eq(self.l[j][0], key)]
                kill = set()
                for n_, j in enumerate(order):
                    if n_ < 64 and (mask >> n_) & 1:
                        kill.add(j)
                        if removed[n_] != "removed":
                            bad = "removeobj of the entry just returned reported %s" % removed[n_]
                    elif removed[n_] is not None:
                        bad = "unexpected removal marker"
                self.l = [e for j, e in enumerate(self.l) if j not in kill]
        elif kind in ("next", "nextn"):
            if r[0] == "true":
                mm = ENTRY.match(r[1])
                self.last = (unhex(mm.group(1)), unhex(mm.group(3)))
                if self.last not in self.l:
                    bad = "getnext returned %r which is not an entry of the table" % (self.last,)
                if kind == "nextn" and not self.eq(self.last[0], unhex(w[1])):
                    bad = "name-filtered getnext returned the entry %r" % (self.last,)
        elif kind == "rmobj":
            if res == "true":
                # exactly one entry equal to the one just returned disappears, nothing else changes
                ok = any(self.l[:j] + self.l[j + 1:] == got for j in range(len(self.l)) if self.l[j] == self.last)
                if not ok:
                    bad = "removeobj(%r) changed the table from %r to %r" % (self.last, self.l[:8], got[:8])
                resync = True
        elif kind == "save":
            pass
        elif kind == "load":
            n = int(r[1]) if r[0] == "loaded" else None
            want = py_load(unhex(w[1]), unhex(w[2])[0], w[3] == "1")
            if n is None or n < 0:
                bad = "load reported %s" % res
            elif not self.u and num - len(self.l) != n:
                bad = "load reported %d loaded entries, the table grew by %d" % (n, num - len(self.l))
            elif want is not None:
                # the file is well-formed: exactly its entries are put, in file order, under the table's options
                for k, v in want:
                    self.put(k, v)
                if n != len(want):
                    bad = "load reported %d loaded entries; the file has %d entry lines" % (n, len(want))
            else:
                resync = True
        elif kind == "rt":
            sep = unhex(w[1])[0]
            old = list(self.l)
            strings = all(v.endswith(b"\0") and b"\0" not in v[:-1] for _, v in old)
            adm = all(admissible(k, sep) for k, _ in old)
            if len(w) == 7 and w[6] == "0":
                # plain (not encoded) save: the values survive when they have no blanks at either end,
                # no line break and are not empty-after-trim ambiguities; only those tables are judged
                adm = adm and all(v[:-1] == v[:-1].strip(WS) and b"\n" not in v for _, v in old)
                if res == "nonul":
                    return None if got == self.l else "a refused operation changed the table"
            self.l = []
            self.set_opts("".join(w[2:6]))
            if strings and adm:
                for k, v in old:
                    self.put(k, v)
                if res != "saved loaded %d" % len(old):
                    bad = "save+load of %d string entries reported `%s`" % (len(old), res)
            else:
                resync = True
        if bad is None and resync:
            self.l = got
        if bad is None and (got != self.l or num != len(self.l)):
            bad = "after `%s` the table holds (num=%d) %r; the multimap holds %r" % (op[:60], num, got[:8], self.l[:8])
        if bad is None and opts != "%d%d%d%d" % (self.u, self.c, self.t, self.f):
            bad = "option flags %s differ from the requested ones" % opts
        if bad is None:
            for n, v, h in ents:
                if h != murmur3_32(n):
                    bad = "stored hash %08x of %r is not murmur3_32 = %08x" % (h, n, murmur3_32(n))
        return bad


class TheCheck(Check):
    prop = "C08"
    module = "listtbl"
    harness = "listtbl"
    lib = "libqw.a"        # allocator traffic of the library is counted (harness/allocwrap.h)
    rule = ("operation lines executed by the C functions (ASan+UBSan) and the Lean model with the node order (and "
            "back links) dumped through the public structs after every operation; distinct_nontrivial = distinct "
            "(operation kind, result kind, option vector, table size) classes")
    assumptions = ["hand model of qlisttbl.c validated on the explored histories only",
                   "strcasecmp = ASCII case folding (C locale); atoll saturates like glibc strtoll",
                   "name hashes travel on the operation lines (pure-Python murmur3_32) and are compared with the stored ones; "
                   "names parsed inside load use a driver-only Lean murmur3 compared the same way",
                   "the `# path time` comment line of saved files is stripped before comparison",
                   "caller cursors are only followed while the nodes they point to are alive (harness flags live/fresh)"]
    exhaustive_note = True

    def __init__(self, tier, seed):
        super().__init__(tier, seed)
        self.oracle = Oracle()

    def regenerate(self):
        # save_load rests on byte-level facts about URLCHARTBL (decide +kernel over the regenerated table)
        from translator import tables
        out = os.path.join(vlib.LEAN, "QlibcModel/Generated/EncodeTables.lean")
        text = tables.render(tables.extract(vlib.REPO))
        if not os.path.exists(out) or open(out).read() != text:
            open(out, "w").write(text)
        return [out]

    def judge(self, op, line):
        try:
            return self.oracle.step(op, line)
        except (IndexError, ValueError, AttributeError, AssertionError):
            return "malformed result line"

    def judge_history(self, ops, impl_lines):
        self.oracle = Oracle()
        for i, (op, l) in enumerate(zip(ops, impl_lines)):
            try:
                d = self.oracle.step(op, l)
            except (IndexError, ValueError, AttributeError, AssertionError):
                # a truncated last line is what a dying harness leaves behind: the crash is reported by the caller
                if i == len(impl_lines) - 1:
                    return None
                d = "malformed result line `%s`" % l[:120]
            if d:
                return i, d
        return None

    def classify(self, op, detail):
        return "qlisttbl:" + op.split()[0]

    def nontrivial_key(self, op, line):
        res, _, dump = line.partition(" | ")
        d = dump.split()
        r = [x for x in res.split() if not x.startswith("allocs=")]
        return (op.split()[0], r[0] if r else "", d[0] if d else "", min(int(d[1]), 9) if len(d) > 1 else 0)

    def shrink(self, st, idx, pred):
        j = idx
        while j > 0 and not st.ops[j].startswith("new "):
            j -= 1
        sub = Stream(st.name, st.ops[j:idx + 1], history=True)
        return super().shrink(sub, len(sub.ops) - 1, pred)

    def streams(self):
        rng = self.rng
        sts = []
        corpus = os.path.join(vlib.ROOT, "corpus", "C08")
        for f in sorted(os.listdir(corpus)) if os.path.isdir(corpus) else []:
            sts.append(Stream("corpus:" + f, [l.strip() for l in open(os.path.join(corpus, f)) if l.strip()], history=True))

        # 0. the very first file operation of a process: load() / save() right after start (the harness' op stream
        #    is not on descriptor 0, so the library's first open() returns 0, a valid descriptor)
        for first in (["load %s 3d 1" % hexs(b"a=1\nb=%32\n"), "walk 0", "save 3d 1", "rt 3d 0 0 0 0", "size"],
                      ["save 3d 1", "load %s 3d 0" % hexs(b"x=y\n"), "walk 0"],
                      [kop("putstr", b"k", hexs(b"v")), "rt 3d 1 0 0 1", "load %s 3a 1" % hexs(b"p:q\n"), "walk 0", "end"]):
            sts.append(Stream("first-file-op:" + first[0].split()[0] + str(len(first)), first, history=True,
                              note="load/save as the first open() of the process"))
        K = [b"a", b"A", b"b"]
        # 1. exhaustive sequences over {put k (2 values), remove k} for every option vector
        maxlen = 4 if self.tier == "quick" else 5
        alpha = [("put", k, v) for k in K for v in (b"1", b"2")] + [("rm", k, None) for k in K]
        tail = [kop("getmulti", b"a", "0"), kop("getmulti", b"B", "1"), kop("get", b"A", "0"), kop("get", b"b", "1"),
                "walk 0", kop("walkn", b"a", "1"), "size", "sort"]
        for o in ALL_OPTS:
            ops = []
            for ln in range(1, maxlen + 1):
                for seq in itertools.product(alpha, repeat=ln):
                    ops.append("new " + o)
                    for a, k, v in seq:
                        ops.append(kop("put", k, hexs(v)) if a == "put" else kop("rm", k))
                    if ln == maxlen:
                        ops += tail
            sts.append(Stream("exhaustive-seq<=%d:%s" % (maxlen, o.replace(" ", "")), ops, history=True,
                              note="9-letter alphabet (3 keys x 2 values puts, 3 removes)"))

        # 2. removal during a walk: every table over the keys up to 4 entries, every removal mask,
        #    unfiltered and name-filtered; then a second walk
        ops = []
        for o in ALL_OPTS:
            for n in range(0, 5 if self.tier == "quick" else 6):
                tables = list(itertools.product(K, repeat=n))
                if n >= 4 and self.tier == "quick":
                    tables = rng.sample(tables, 20)
                for tb in tables:
                    for key in (None, b"a", b"B"):
                        masks = range(1 << n) if n <= 3 else rng.sample(range(1 << n), 6)
                        for mask in masks:
                            ops.append("new " + o)
                            for i, k in enumerate(tb):
                                ops.append(kop("put", k, hexs(b"v%d" % i)))
                            if key is None:
                                ops.append("walkrm %d" % mask)
                            else:
                                ops.append("walkrm %d %s %08x" % (mask, hexs(key), murmur3_32(key)))
                            ops += ["walk 0", "size"]
        sts.append(Stream("walk-with-removal", ops, history=True,
                          note="first/last/only/middle entries removed through the cursor while walking"))

        # 3. step-wise cursor use: next / rmobj / reset interleaved with puts
        ops = []
        for o in ALL_OPTS:
            for _ in range(6 if self.tier == "quick" else 40):
                ops.append("new " + o)
                for i in range(rng.randrange(0, 6)):
                    ops.append(kop("put", rng.choice(K), hexs(b"w%d" % i)))
                for _ in range(rng.randrange(4, 25)):
                    x = rng.random()
                    if x < 0.4:
                        ops.append("next " + rng.choice("01"))
                    elif x < 0.55:
                        k = rng.choice(K)
                        ops.append("nextn %s %08x %s" % (hexs(k), murmur3_32(k), rng.choice("01")))
                    elif x < 0.75:
                        ops.append("rmobj")
                    elif x < 0.85:
                        ops.append("reset")
                    elif x < 0.95:
                        ops.append(kop("put", rng.choice(K), hexs(b"n%d" % rng.randrange(100))))
                    else:
                        ops.append("sort")
                ops += ["walk 0"]
        sts.append(Stream("cursor-steps", ops, history=True))

        # 4. sort: all arrangements of small multisets of names + random lists, every option vector
        names = [b"a", b"A", b"b", b"B", b"ab", b"aB", b"", b"a\xe9", b"Z", b"_", b"z", b"[", b"a ", b"0"]
        ops = []
        for o in ALL_OPTS:
            perms = list(itertools.product([b"a", b"A", b"b", b"B"], repeat=4)) + list(itertools.permutations([b"c", b"C", b"b", b"a", b"B"]))
            if self.tier == "quick":
                perms = rng.sample(perms, 40)
            for p in perms:
                ops.append("new " + o)
                ops += [kop("put", k, hexs(b"%d" % i)) for i, k in enumerate(p)]
                ops += ["sort", "sort", "walk 0"]
            for _ in range(8 if self.tier == "quick" else 60):
                ops.append("new " + o)
                ops += [kop("put", rng.choice(names), hexs(b"%d" % i)) for i in range(rng.randrange(0, 14))]
                ops += ["sort", kop("put", rng.choice(names), hexs(b"x")), "sort", "walk 1"]
        sts.append(Stream("sort", ops, history=True))

        # 4b. distinct names with the SAME 32-bit hash: namematch compares hash then name, sort must order them
        ops = []
        for o in ALL_OPTS:
            for a, b in FULL_COLLISIONS:
                lo, hi = sorted((a, b))
                for first, second in ((hi, lo), (lo, hi)):
                    ops += ["new " + o, kop("put", first, "31"), kop("put", second, "32"), "sort", "walk 0",
                            kop("get", lo, "0"), kop("get", hi, "1"), kop("getmulti", lo, "0"), kop("getmulti", hi, "1"),
                            kop("put", hi, "33"), kop("put", lo, "34"), "sort", "sort", "walk 1",
                            kop("getmulti", lo, "1"), kop("getmulti", hi, "0"), kop("walkn", hi, "0"),
                            kop("rm", lo), kop("get", hi, "0"), kop("get", lo, "0"), "size", kop("rm", hi), "size"]
                # descending run of colliding and ordinary names, adjacent in every arrangement
                names = [hi, lo, b"z", hi, b"a", lo]
                ops += ["new " + o] + [kop("put", n, hexs(b"%d" % i)) for i, n in enumerate(names)] + ["sort", "walk 0"]
                ops += ["new " + o] + [kop("put", n, hexs(b"%d" % i)) for i, n in enumerate(sorted(names, reverse=True))] + ["sort", "walk 0", "sort"]
        sts.append(Stream("full-hash-collisions", ops, history=True,
                          note="pairs of distinct names with identical murmur3_32 in descending order, sorted; lookups / removal by each name"))

        # 4c. putstrf: formatted lengths around every buffer size of DYNAMIC_VSPRINTF
        ops = []
        for o in ("0 0 0 0", "1 0 0 0", "1 1 1 1"):
            ops.append("new " + o)
            for i, n in enumerate(VS_SWEEP if o == "1 0 0 0" else VS_LENGTHS):
                k = b"p%d" % (i % 3)
                ops += [kop("putstrf", k, hexs(vs_value(n, i))), kop("getstr", k), kop("getmulti", k, "1")]
                if i % 3 == 2:
                    ops += ["clear"]
            ops += ["walk 0", "clear"]
        sts.append(Stream("putstrf-lengths", ops, history=True, note="every formatted length 0..2100, 4090..4100, 5000, 8191..8193, 10000"))

        # 5. save / load
        ops = ["new 0 0 0 0"]
        for b in range(1, 256):
            ops.append(kop("putstr", b"k%02x" % b, hexs(b"x" + bytes([b]) + b"y")))
            ops.append(kop("putstr", b"e%02x" % b, hexs(bytes([b]))))
        ops.append(kop("putstr", b"all", hexs(bytes(range(1, 256)))))
        ops.append(kop("putstr", b"empty", "-"))
        ops += ["save 3d 1", "rt 3d 0 0 0 0", "size", "rt 3a 0 0 0 0", "rt 20 0 0 0 0", "rt 3d 0 0 0 0"]
        for o in ALL_OPTS:
            ops.append("new " + o)
            for i in range(rng.randrange(0, 8)):
                k = rng.choice(K + [b"key %d" % i, b"k\xff", b"x=y", b"k%d" % i])
                v = bytes(rng.randrange(1, 256) for _ in range(rng.randrange(0, 12)))
                ops.append(kop("putstr", k, hexs(v)))
            sep = rng.choice(["3d", "3a", "7c", "09"])
            ops += ["save %s 1" % sep, "save %s 0" % sep, "rt %s %s" % (sep, o), "rt %s 0 0 0 0" % sep, "walk 0"]
            # inadmissible names and binary values: the correspondence still has to hold
            ops += [kop("put", b" lead", hexs(b"bin\x00ary\x00")), kop("put", b"#c", hexs(b"v")), kop("put", b"", hexs(b"\x00")),
                    kop("put", b"a\nb", hexs(b"q\x00")), "save 3d 1", "rt 3d " + o]
        # loader on arbitrary files
        pieces = [b"a=1\n", b"  b = two words  \r\n", b"# comment\n", b"\n", b"   \n", b"c\n", b"=v\n", b"d=%41%zz%4\n", b"e=x%00y\n",
                  b"f=a+b\n", b"g==h=\n", b"A=upper\n", b"a=again", b"\t#not comment?\n", b"k=v\x00junk\n", b"long=" + b"x" * 300 + b"\n",
                  b"%41=encodedname\n", b"n = %20 \n", b"trunc=%", b"t2=%4"]
        for o in ALL_OPTS:
            for _ in range(4 if self.tier == "quick" else 30):
                f = b"".join(rng.choice(pieces) for _ in range(rng.randrange(0, 7)))
                ops += ["new " + o, "load %s 3d %s" % (hexs(f), rng.choice("01")), "walk 0"]
                f = bytes(rng.choice(b"ab=\n\r #%41 \t") for _ in range(rng.randrange(0, 40)))
                ops += ["load %s 3d %s" % (hexs(f), rng.choice("01")), "size"]
        sts.append(Stream("save-load", ops, history=True, note="values over all 255 non-NUL bytes; arbitrary files"))

        # 5a. saved lines of length N-1, N, N+1 around every integer constant of the CURRENT qlisttbl.c (after
        #     preprocessing), followed by a further entry: a line buffer of any size a rewrite introduces is
        #     met exactly (seed C08-m9)
        nums = [n for n in vlib.source_numbers(["src/containers/qlisttbl.c"]) if 64 <= n <= 70000]
        for big_ in (False, True):      # the list-based model is slow on long lines: above 1100 implementation + oracle only
            ops = []
            for n in [x for x in nums if (x > 1100) == big_]:
                for L in (n - 1, n, n + 1):
                    for enc in "10":
                        ops += ["new 0 0 0 0", kop("putstr", b"first", hexs(b"1")), kop("putstr", b"alpha", hexs(b"x" * (L - 7))),
                                kop("putstr", b"last", hexs(b"z")), "rt 3d 0 0 0 0 " + enc, "size", "walk 0"]
            if ops:
                sts.append(Stream("save-line-boundaries" + ("-long" if big_ else ""), ops, history=True, nomodel=big_,
                                  note="line lengths around the constants of the current source: %s" % nums))

        # 5b. save/load glue: every separator (also blank, tab, colon) x encode on/off x awkward values
        #     (empty, separator inside, line break, %, escapes-lookalikes, bytes >= 0x80, blanks at the ends);
        #     hand-written files: CRLF, no final newline, empty lines, no separator, duplicates (UNIQUE tables)
        ops = []
        awkward = [b"", b"a=b", b"=", b"x:y", b"t\tab", b"two  words", b"line1\nline2", b"cr\rlf", b"100%", b"%41", b"%4", b"%zz", b"a+b",
                   b"\x80\xff\xfe", b"  lead", b"trail  ", b" both ", b"\t", b" ", b"#hash", b"x" * 1500, b"caf\xc3\xa9",
                   b"\\", b"v\\", b"\\=x", b"a\\\\b", b"\\n", b"end\\ "]
        for sep in ("3d", "20", "3a", "09", "7c", "2c"):
            for o in ("0 0 0 0", "1 0 0 0", "0 1 1 1", "1 1 0 1"):
                ops.append("new " + o)
                for i, v in enumerate(awkward):
                    ops.append(kop("putstr", b"k%02d" % i, hexs(v)))
                ops += ["save %s 1" % sep, "save %s 0" % sep, "rt %s %s 1" % (sep, o), "walk 0", "rt %s %s 0" % (sep, o), "walk 0", "size"]
                # only values a plain save can carry: the plain round trip is judged too
                ops.append("new " + o)
                for i, v in enumerate([b"", b"a=b", b"x:y", b"in  side", b"100%", b"%41", b"a+b", b"\x80\xff", b"#hash", b"y" * 1100]):
                    ops.append(kop("putstr", b"p%d" % i, hexs(v)))
                ops += ["rt %s %s 0" % (sep, o), "walk 0", "rt %s 0 0 0 0 0" % sep, "rt %s %s 1" % (sep, o), "size"]
                # names and values ending in / containing backslashes (no escaping rule exists: a separator
                # right after a backslash is the separator)
                ops.append("new " + o)
                for nm, v in [(b"k\\", b"after backslash key"), (b"\\", b"bs"), (b"a\\b", b"mid"), (b"dir\\sub\\", b"v\\"), (b"e\\\\", b"\\\\"),
                              (b"q", b"\\"), (b"r", b"x\\"), (b"s\\", b"")]:
                    ops.append(kop("putstr", nm, hexs(v)))
                ops += ["save %s 1" % sep, "save %s 0" % sep, "rt %s %s 1" % (sep, o), "walk 0", "rt %s %s 0" % (sep, o), "walk 0", "size"]
        files = [b"a=1\r\nb=2\r\n", b"a=1\nb=2", b"\n\n a = 1 \n\n\nb=2\n\n", b"nosep\nalso no sep \n", b"a=1\na=2\nA=3\na=4\n",
                 b"a=1\r\n\r\n#c\r\nb=%32\r\nlast=x", b"k=v=w\n=onlyvalue\nk2=\n", b"  # indented comment\nreal=1\n", b"\r\n", b"x",
                 b"a 1\nb\t2\nc:3\nd=4\n", b"sp ace=v\n", b"a=%zz\nb=%4\n", b"u=%C3%A9+x\n",
                 b"k\\=v\nq\\ w\nr\\:x\n", b"a\\\\=b\\\nlast=\\", b"\\\n\\=\n=\\\n"]
        for o in ALL_OPTS:
            for f in files:
                for sep in ("3d", "20", "3a", "09"):
                    if sep != "3d" and not (o in ("0 0 0 0", "1 1 0 0") or rng.random() < 0.15):
                        continue
                    ops += ["new " + o, kop("putstr", b"a", hexs(b"old")), "load %s %s 1" % (hexs(f), sep), "walk 0",
                            "load %s %s 0" % (hexs(f), sep), "size"]
        ops += ["end"]
        sts.append(Stream("save-load-glue", ops, history=True,
                          note="separators = blank : tab | , ; encode on/off; CRLF, no final newline, no separator, duplicates on UNIQUE"))

        # 5c. argument validation, method pointers, thread-safe option, getmulti around the growth of its array
        ops = []
        for o in ALL_OPTS:
            for ts in "01":
                ops += ["new %s %s" % (o, ts), "inv", "lock", "size", kop("put", b"a", "31"), "inv", "lock", kop("put", b"A", "32"),
                        kop("put", b"b", "3300"), "inv", "sort", "inv", "reset", "next 1", "inv", "rmobj", "next 0", "rmobj", "inv",
                        "walkrmc 1", "inv", kop("putint", b"n", "5"), kop("getint", b"N"), "clear", "inv", "lock", "walk 0",
                        kop("putstrf", b"z", hexs(b"after clear")), "inv", "walkrmc 255", "size"]
        for o in ALL_OPTS:
            for cnt in (0, 1, 2, 9, 10, 11, 19, 20, 21):
                ops.append("new " + o)
                for i in range(cnt):
                    ops += [kop("put", b"m", hexs(b"v%d" % i))] + ([kop("put", b"other", "6f")] if i % 4 == 1 else [])
                ops += [kop("getmulti", b"m", "0"), kop("getmulti", b"m", "1"), kop("getmulti", b"m", "2"), kop("getmulti", b"M", "2"),
                        kop("getmulti", b"absent", "1"), "inv", "walkrmc %d" % 0b1010101, kop("getmulti", b"m", "2"), "size"]
        ops += ["end"]
        sts.append(Stream("invalid-args-locks-getmulti", ops, history=True,
                          note="inv = invalid-argument calls; getmulti with 0 1 2 9 10 11 19 20 21 matches x newmem x freemulti"))

        # 5d. case-insensitive means ASCII LETTERS only (C locale strcasecmp): bytes that differ by 0x20 and are
        #     not letters ('[' '{', '\\' '|', ']' '}', '^' '~', '@' '`', '_' DEL, digits / controls, bytes >= 0x80
        #     such as Latin-1 capital / small letters) are DIFFERENT keys under every option vector
        ops = []
        pairs = [(b"[", b"{"), (b"\\", b"|"), (b"]", b"}"), (b"^", b"~"), (b"@", b"`"), (b"_", b"\x7f"), (b"0", b"\x10"), (b"!", b"\x01"),
                 (b"?", b"\x1f"), (b"k[1]", b"k{1}"), (b"a@b", b"a`b"), (b"\xc0", b"\xe0"), (b"\xc9t\xe9", b"\xe9t\xc9"), (b"\x80", b"\xa0"),
                 (b"\xd0", b"\xf0"), (b"\xdf", b"\xff"), (b"Z[", b"z{"), (b"M", b"m"), (b"Az", b"aZ")]
        for o in ALL_OPTS:
            for x_, y_ in pairs:
                ops += ["new " + o, kop("put", x_, "31"), kop("put", y_, "32"), kop("get", x_, "0"), kop("get", y_, "1"),
                        kop("getmulti", x_, "1"), kop("getmulti", y_, "0"), "sort", "walk 0", kop("put", x_, "33"), kop("getmulti", y_, "2"),
                        kop("rm", x_), kop("get", y_, "0"), "size", kop("rm", y_), "size"]
        sts.append(Stream("caseless-nonletters", ops, history=True,
                          note="byte pairs differing by 0x20 that are not ASCII letters, bytes >= 0x80; all 16 option vectors"))

        # 5e. arguments pointing into the table's own storage; debug() rendering
        ops = []
        vals = [b"a", b"\0", b"ab\0", b"hello\0", b"a\0b\0", bytes(range(1, 7))]
        for o in ALL_OPTS:
            full = o in ("0 0 0 0", "1 0 0 0", "1 1 1 1")
            for v in vals:
                for off in range(len(v) + 2):
                    for mode, ln in [(m_, l_) for m_ in (0, 2) for l_ in range(len(v) - off + 2)] + [(1, 0), (3, 0)]:
                        if not full and (mode, ln) not in ((0, 1), (2, len(v) - off), (1, 0), (3, 0)):
                            continue
                        ops += ["new " + o, kop("put", b"x", "70"), kop("put", b"k", hexs(v)), kop("put", b"y", "71"), kop("put", b"K", hexs(v[::-1])),
                                kop("putalias", b"k", str(mode), str(off), str(ln)), kop("getmulti", b"k", "0"), kop("getmulti", b"K", "0"), "walk 0"]
            for name in (b"abcd", b"Ab", b"x"):
                for off in range(len(name) + 2):
                    for pre in ([], [kop("put", name[off:], "6f6c64")] if off <= len(name) else []):
                        ops += ["new " + o, kop("put", name, "31")] + pre + [kop("putkeyalias", name.lower(), str(off), "6e6577"),
                                kop("getmulti", name, "0"), kop("getmulti", name[off:], "0"), "walk 0", "size"]
            ops += ["new " + o]
            for i, v in enumerate([b"\0", b"x", b"\xff", b"str\0", b"a\0b", b"x" * 59, b"x" * 60, b"x" * 61, b"y" * 59 + b"\0", b"y" * 60 + b"\0",
                                   bytes(range(256)), b"\n\t\x7f\x80 ~"]):
                ops += [kop("put", b"d%d" % i, hexs(v)), "debug"]
            ops += [kop("put", b"", hexs(b"empty name\0")), kop("put", b"n\nl", "31"), "debug", "sort", "debug", "clear", "debug"]
        ops += ["end"]
        sts.append(Stream("alias-args-debug", ops, history=True,
                          note="put/putstr of stored+off (get and getnext pointers; UNIQUE removes the aliased entry), names inside stored names, debug()"))
        if self.tier != "quick":
            sts.append(Stream("huge-value", ["hugeval 16"], history=False, nomodel=True,
                              note="one value of 2^32+16 bytes: every reported size (get, getmulti, getnext) and spot-checked bytes, replace, ledger"))

        # 6. ints and strings
        ops = []
        for o in ("0 0 0 0", "1 1 1 1"):
            ops.append("new " + o)
            for n in [0, 1, -1, 10, -10, INT64_MAX, INT64_MIN] + [rng.randrange(INT64_MIN, INT64_MAX + 1) for _ in range(10)]:
                ops += [kop("putint", b"n", str(n)), kop("getint", b"n"), kop("getstr", b"N")]
            for s in [b"12", b" \t\n\v\f\r 42x", b"+7", b"--1", b"99999999999999999999", b"-99999999999999999999", b"", b"x",
                      b"010", b"0x1f", b"0X1F", b" 42", b"-0", b"9223372036854775808", b"9223372036854775807", b"-9223372036854775808",
                      b"-9223372036854775809", b"1e3", b"+-1", b"- 1", b"12abc", b"\xa07", b"\xd9\xa3"]:
                ops += [kop("putstr", b"s", hexs(s)), kop("getint", b"s"), kop("getstr", b"s")]
            ops += [kop("put", b"s", "-"), kop("put", b"s", hexs(b"12")), kop("getint", b"s"), kop("getstr", b"s"), kop("getint", b"absent")]
        sts.append(Stream("ints", ops, history=True))

        # 7. random histories
        nh, nops = (64, 150) if self.tier == "quick" else (480, 800)
        ops = []
        pool0 = K + [b"B", b"ab", b"Ab", b"", b"k1", b"K1", b"x y", b"\xe9", b"\xc9", b"[", b"{", b"@", b"`", b"k\\"] + list(FULL_COLLISIONS[2]) + list(FULL_COLLISIONS[3])
        for hno in range(nh):
            o = ALL_OPTS[hno % 16]
            pool = pool0 + [bytes(rng.randrange(1, 256) for _ in range(rng.randrange(1, 20)))]
            ops.append("new %s %s" % (o, rng.choice("01")))
            for _ in range(rng.randrange(5, nops)):
                k = rng.choice(pool)
                x = rng.random()
                if x < 0.02:
                    ops.append("inv")
                elif x < 0.05:
                    ops.append(rng.choice([kop("putalias", k, rng.choice("0123"), str(rng.randrange(6)), str(rng.randrange(6))),
                                           kop("putalias", k, rng.choice("02"), "0", str(rng.randrange(1, 3))),
                                           kop("putkeyalias", k, str(rng.randrange(3)), hexs(b"ka%d" % rng.randrange(9))), "debug"]))
                elif x < 0.06:
                    ops.append(rng.choice(["lock", "walkrmc %d" % rng.getrandbits(8), "rt 3d %s 0" % rng.choice(ALL_OPTS)]))
                elif x < 0.25:
                    v = bytes(rng.choice([0, rng.randrange(256), rng.randrange(0x30, 0x3a)]) for _ in range(rng.choice([0, 1, 2, 5, 17])))
                    ops.append(kop("put", k, hexs(v)))
                elif x < 0.33:
                    ops.append(kop("putstr", k, hexs(bytes(rng.randrange(1, 256) for _ in range(rng.randrange(0, 9))))))
                elif x < 0.35:
                    ops.append(kop("putstrf", k, hexs(vs_value(rng.choice([0, 1, 7, 1023, 1024, 2047, 2048, rng.choice(VS_LENGTHS)]), rng.randrange(90)))))
                elif x < 0.37:
                    ops.append(kop("putint", k, str(rng.randrange(-1000, 1000))))
                elif x < 0.45:
                    ops.append(kop("get", k, rng.choice("01")))
                elif x < 0.49:
                    ops.append(kop(rng.choice(["getstr", "getint"]), k))
                elif x < 0.57:
                    ops.append(kop("getmulti", k, rng.choice("01")))
                elif x < 0.67:
                    ops.append(kop("rm", k))
                elif x < 0.70:
                    ops.append("size")
                elif x < 0.74:
                    ops.append("sort")
                elif x < 0.80:
                    ops.append("next " + rng.choice("01"))
                elif x < 0.83:
                    ops.append("nextn %s %08x %s" % (hexs(k), murmur3_32(k), rng.choice("01")))
                elif x < 0.87:
                    ops.append("rmobj")
                elif x < 0.89:
                    ops.append("reset")
                elif x < 0.92:
                    ops.append("walk " + rng.choice("01"))
                elif x < 0.94:
                    ops.append("walkn %s %08x %s" % (hexs(k), murmur3_32(k), rng.choice("01")))
                elif x < 0.96:
                    m = rng.getrandbits(8)
                    ops.append(rng.choice(["walkrm %d" % m, "walkrm %d %s %08x" % (m, hexs(k), murmur3_32(k))]))
                elif x < 0.975:
                    ops.append("save 3d " + rng.choice("01"))
                elif x < 0.99:
                    ops.append("rt 3d " + rng.choice(ALL_OPTS))
                else:
                    ops.append("clear")
            ops += ["size", "walk 0"]
        sts.append(Stream("random-histories", ops, history=True))
        return sts

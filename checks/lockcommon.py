"""Shared by checks/c14.py and checks/c13.py: the lock-skeleton translator step, the proof step with
the generated certificate modules included in the axiom audit, builds of the plain (unsanitised)
implementation and the wrap-linked harnesses, and the operation generators of the lock harness."""
import itertools, os, re, time
import vlib
from vlib import log

WRAPS = ("pthread_mutex_trylock", "pthread_mutex_unlock", "pthread_mutex_lock", "malloc", "calloc", "realloc",
         "strdup")
GEN = os.path.join(vlib.LEAN, "QlibcModel/Generated")


def regenerate_lock():
    """run translator/lockcfg.py on the CURRENT source; rewrite Generated/Lock*.lean if changed"""
    from translator import lockcfg
    res = lockcfg.extract(vlib.REPO)
    files = [os.path.join(GEN, "LockCfg.lean")]
    lockcfg.write_if_changed(files[0], lockcfg.render_cfg(res))
    certs = lockcfg.render_certs(res)
    for f, t in certs.items():
        lockcfg.write_if_changed(os.path.join(GEN, f), t)
        files.append(os.path.join(GEN, f))
    # the Q_MUTEX_* macros as data (obligation macro_skeleton_as_modelled of Props/C13, Props/C14)
    from translator import mutexmacros
    mpath = os.path.join(GEN, "MutexMacros.lean")
    lockcfg.write_if_changed(mpath, mutexmacros.render(mutexmacros.extract(vlib.REPO)))
    files.append(mpath)
    tpath = os.path.join(GEN, "MutexTrees.lean")
    lockcfg.write_if_changed(tpath, mutexmacros.render_trees(vlib.REPO))
    files.append(tpath)
    # stale parts of an earlier run with more parts
    for f in os.listdir(GEN):
        if re.match(r"Lock(Certs|Wl|Atomic)\d+\.lean$", f) and f not in certs:
            os.unlink(os.path.join(GEN, f))
    return res, files


def audit_modules(prop, mods):
    """#print axioms for every theorem of the given modules; -> (ok, {thm: axioms}, problems, names)"""
    thms = []
    for m in mods:
        thms += vlib.theorems_of(m)
    path = os.path.join(vlib.LEAN, "Audit", prop + "gen.lean")
    text = "".join("import %s\n" % m for m in mods) + "".join("#print axioms %s\n" % t for t in thms)
    if not os.path.exists(path) or open(path).read() != text:
        open(path, "w").write(text)
    r = vlib.lake(["env", "lean", path])
    out = r.stdout + r.stderr
    res = {}
    for m in re.finditer(r"'([^']+)' (does not depend on any axioms|depends on axioms: \[([^\]]*)\])", out):
        res[m.group(1)] = [a.strip() for a in (m.group(3) or "").replace("\n", " ").split(",") if a.strip()]
    bad = []
    for t in thms:
        if t not in res:
            bad.append("%s: no axiom report" % t)
        else:
            extra = [a for a in res[t] if a not in vlib.ALLOWED_AXIOMS]
            if extra:
                bad.append("%s: axioms %s" % (t, extra))
    if r.returncode != 0:
        bad.append("lean exited %d: %s" % (r.returncode, out[-500:]))
    return (not bad), res, bad, thms


def failing_certificates(build_output):
    """map `error: QlibcModel/Generated/LockCerts1.lean:37:69: ...` lines to theorem names"""
    names = []
    for m in re.finditer(r"error: (QlibcModel/Generated/Lock\w+\.lean):(\d+):", build_output):
        path = os.path.join(vlib.LEAN, m.group(1))
        try:
            line = open(path).read().splitlines()[int(m.group(2)) - 1]
        except Exception:
            continue
        t = re.match(r"theorem (\w+)", line)
        if t and t.group(1) not in names:
            names.append(t.group(1))
    # obligations stated in the Props file itself (macro trees, recursive mutexes, ...): name the theorem
    for m in re.finditer(r"error: (QlibcModel/Props/C1[34]\.lean):(\d+):", build_output):
        try:
            lines = open(os.path.join(vlib.LEAN, m.group(1))).read().splitlines()
        except Exception:
            continue
        for k in range(int(m.group(2)) - 1, -1, -1):
            t = re.match(r"theorem (\w+)", lines[k])
            if t:
                if t.group(1) not in names:
                    names.append(t.group(1))
                break
    return names


def prove(check, cert_modules):
    """lake build Props.<prop> (+ driver), audit of the Props file AND of the generated certificate
    modules; fills check.proof / check.thms / check.axioms like vlib.Check.run does"""
    prop = check.prop
    proof = {"built": False, "audited": False, "errors": []}
    ok, errs, out, dt = vlib.lake_build(["QlibcModel.Props." + prop])
    proof["built"], proof["build_s"] = ok, round(dt, 1)
    proof["failing_certificates"] = failing_certificates(out) if not ok else []
    if not ok:
        proof["errors"] += ["certificate fails: " + n for n in proof["failing_certificates"]] + (errs[:10] or [out[-1500:]])
    thms, axioms = vlib.theorems_of("QlibcModel.Props." + prop), {}
    if ok:
        aok, axioms, bad = vlib.audit(prop)
        gok, gax, gbad, gthms = audit_modules(prop, cert_modules)
        axioms.update(gax)
        thms = thms + gthms
        hits = vlib.forbidden_tokens("QlibcModel.Props." + prop)
        proof["audited"] = aok and gok and not hits
        proof["errors"] += bad + gbad + ["forbidden token: " + h for h in hits]
        if check.tier == "thorough" and proof["audited"]:
            cok, cout = vlib.leanchecker("QlibcModel.Props." + prop)
            proof["leanchecker"] = cok
            if not cok:
                proof["audited"] = False
                proof["errors"].append("leanchecker: " + cout)
    dok, derrs, dout, _ = vlib.lake_build(["qdriver"])
    if not dok:
        proof["errors"] += ["driver does not build: " + e for e in derrs[:5]]
    check.proof, check.thms, check.axioms = proof, thms, axioms
    return dok


def cert_module_names(stem):
    out = []
    for f in sorted(os.listdir(GEN)):
        if re.match(stem + r"\d+\.lean$", f):
            out.append("QlibcModel.Generated." + f[:-5])
    return out


# ------------------------------------------------------------------ operations of harness/lock.c

PFX = {"vector": "qvector", "list": "qlist", "queue": "qqueue", "stack": "qstack", "grow": "qgrow",
       "hashtbl": "qhashtbl", "listtbl": "qlisttbl", "treetbl": "qtreetbl", "log": "qlog"}


def cfg_name(op):
    """name of the generated skeleton for an operation line, None for the lock primitives"""
    w = op.split()
    fn = dict(x.split("=", 1) for x in w[1:])["fn"]
    if fn == "lockunlock":
        return None
    if fn == "new":
        return PFX[w[0]]
    if fn == "namematch":          # static comparator installed in the method table by the constructor
        return "namecasematch" if int(dict(x.split("=", 1) for x in w[1:]).get("opt", "0")) & 4 else "namematch"
    return PFX[w[0]] + "_" + fn


def hx(s):
    return s.encode().hex() if isinstance(s, str) else s.hex()


V4 = "01020304"
VAL = hx("newval\0")
K_ABSENT = hx("zz")
K_LOW = hx("a")


def idxs(n):
    return sorted(set([0, -1, n // 2, n - 1, n, n + 1, -n, -n - 1, -n - 2]))


def grid(**kw):
    keys = list(kw)
    for combo in itertools.product(*[kw[k] for k in keys]):
        yield " ".join("%s=%s" % (k, v) for k, v in zip(keys, combo))


def fn_variants(kind, n):
    """[(fn, 'name=value ...')] argument classes of every public function for a container with n elements"""
    K0 = hx("k00")
    KS = [K0, K_ABSENT, "NULL"]
    ix = idxs(n)
    F = [0, 1]
    CUR = ["NULL", "0", "1", "end"]
    out = []

    def add(fn, it=("",)):
        for a in it:
            out.append((fn, a))
    if kind == "vector":
        for fn in ("addfirst", "addlast"):
            add(fn, grid(val=[V4, "NULL"]))
        add("addat", grid(idx=ix, val=[V4])); add("addat", ["idx=0 val=NULL"])
        for fn in ("getfirst", "getlast"):
            add(fn, grid(flag=F))
        add("getat", grid(idx=ix, flag=F))
        for fn in ("setfirst", "setlast"):
            add(fn, grid(val=[V4]))
        add("setat", grid(idx=ix, val=[V4]))
        for fn in ("popfirst", "poplast", "removefirst", "removelast", "size", "clear", "reverse", "lockunlock", "free"):
            add(fn)
        add("popat", grid(idx=ix)); add("removeat", grid(idx=ix))
        add("resize", grid(idx=sorted(set([0, 1, n, 20]))))
        add("toarray", grid(flag=F)); add("debug", grid(flag=F))
        add("getnext", grid(cur=CUR, flag=F))
    elif kind == "list":
        add("setsize", grid(idx=[0, 1, 2, 3, 100, -1, 2147483647]))
        for fn in ("addfirst", "addlast"):
            add(fn, grid(val=[VAL, "NULL", "-"]))
        add("addat", grid(idx=ix, val=[VAL])); add("addat", ["idx=0 val=NULL"])
        for fn in ("getfirst", "getlast"):
            add(fn, grid(flag=F))
        add("getat", grid(idx=ix, flag=F))
        for fn in ("popfirst", "poplast"):
            add(fn, grid(flag=F))
        add("popat", grid(idx=ix, flag=[1])); add("removeat", grid(idx=ix))
        for fn in ("removefirst", "removelast", "reverse", "clear", "size", "datasize", "tostring", "lockunlock", "free"):
            add(fn)
        add("toarray", grid(flag=F)); add("debug", grid(flag=F))
        add("getnext", grid(cur=CUR, flag=F))
    elif kind in ("queue", "stack"):
        add("setsize", grid(idx=[0, 1, 2, 3, 100, -1, 2147483647]))
        add("push", grid(val=[VAL, "NULL", "-"]))
        add("pushstr", grid(key=[hx("str"), "NULL"]))
        add("pushint", grid(idx=[7]))
        add("pop", grid(flag=F)); add("get", grid(flag=F))
        for fn in ("popstr", "popint", "getstr", "getint", "size", "clear", "free"):
            add(fn)
        add("popat", grid(idx=ix, flag=[1])); add("getat", grid(idx=ix, flag=F))
        add("debug", grid(flag=F))
    elif kind == "grow":
        add("add", grid(val=[VAL, "NULL", "-"]))
        add("addstr", grid(key=[hx("str")]))
        add("addstrf", grid(key=[hx("str"), "NULL"], idx=[3]))
        for fn in ("size", "datasize", "tostring", "clear", "free"):
            add(fn)
        add("toarray", grid(flag=F)); add("debug", grid(flag=F))
    elif kind == "hashtbl":
        add("put", grid(key=KS, val=[VAL, "NULL"]))
        add("putstr", grid(key=KS, val=[VAL, "NULL"]))
        add("putstrf", grid(key=KS, idx=[3])); add("putint", grid(key=KS, idx=[3]))
        add("get", grid(key=KS, flag=F)); add("getstr", grid(key=KS, flag=F))
        add("getint", grid(key=KS)); add("remove", grid(key=KS))
        add("getnext", grid(cur=CUR, flag=F))
        for fn in ("size", "clear", "lockunlock", "free"):
            add(fn)
        add("debug", grid(flag=F))
    elif kind == "listtbl":
        KL = KS + [hx("K00")]
        add("put", grid(key=KL, val=[VAL, "NULL", "-"]))
        add("putstr", grid(key=KS, val=[VAL, "NULL"]))
        add("putstrf", grid(key=KS, idx=[3])); add("putint", grid(key=KS, idx=[3]))
        add("get", grid(key=KL, flag=F)); add("getstr", grid(key=KS, flag=F))
        add("getint", grid(key=KS)); add("getmulti", grid(key=KL, flag=F)); add("remove", grid(key=KL))
        add("removeobj", grid(cur=["NULL", "0", "1"]))
        add("namematch", grid(key=[K0, hx("K00"), K_ABSENT]))
        add("getnext", grid(cur=CUR, key=["NULL", K0, K_ABSENT], flag=F))
        for fn in ("freemulti", "size", "sort", "clear", "lockunlock", "free"):
            add(fn)
        add("save", grid(idx=[0, 1, 2, 3, 4, 5, 7, 12], flag=F)); add("load", grid(idx=[1, 2], flag=F))
        add("debug", grid(flag=F))
    elif kind == "treetbl":
        KT = KS + [K_LOW, hx("k%02d" % max(0, n - 1)), hx("k%02d" % (n // 2))]
        KT = list(dict.fromkeys(KT))
        add("put", grid(key=KT, val=[VAL, "NULL"]))
        add("putstr", grid(key=KS, val=[VAL, "NULL"]))
        add("putstrf", grid(key=KS, idx=[3]))
        add("putobj", grid(key=KT, idx=[0, -1], val=[VAL]))
        add("get", grid(key=KT, flag=F)); add("getstr", grid(key=KS, flag=F))
        add("getobj", grid(key=KS, idx=[0, -1], flag=F))
        add("remove", grid(key=KT)); add("removeobj", grid(key=KT))
        add("getnext", grid(cur=CUR, flag=F))
        add("find_min", grid(flag=F)); add("find_max", grid(flag=F))
        add("find_nearest", grid(key=KT, idx=[0], flag=F)); add("find_nearest", ["key=%s idx=-1 flag=0" % K0])
        add("set_compare", grid(idx=[0, 1, 2]))       # NULL comparator, a reversing one, the default one
        for fn in ("size", "clear", "lockunlock", "free"):
            add(fn)
        add("debug", grid(flag=F)); add("check", grid(flag=F)); add("byte_cmp", grid(key=[hx("ab"), hx("abc"), hx("a"), hx("b")]))
    elif kind == "log":
        add("write", grid(cur=["0", "NULL"], key=[hx("hello")]))
        add("writef", grid(cur=["0", "NULL"], key=[hx("hello")], idx=[5]))
        add("duplicate", grid(cur=["0", "NULL"], flag=F, idx=[0, 1]))
        add("flush", grid(cur=["0", "NULL"]))
        add("free", grid(cur=["0", "NULL"]))
    return out


def states(kind, tier="quick"):
    """'name=value ...' state descriptions (corpus of small and medium states)"""
    ns = [0, 1, 3, 12] + ([40] if tier == "thorough" else [])
    out = []
    if kind == "vector":
        for n in ns:
            for opt, mx in ((2, 0), (4, 4), (8, 0)):
                out.append((n, "n=%d opt=%d max=%d" % (n, opt, mx)))
    elif kind in ("list", "queue", "stack"):
        for n in ns:
            out.append((n, "n=%d" % n))
            if n:
                out.append((n, "n=%d max=%d" % (n, n)))          # full container
    elif kind == "grow":
        out = [(n, "n=%d" % n) for n in ns]
    elif kind == "hashtbl":
        for n in ns:
            for r in (1, 7):
                out.append((n, "n=%d range=%d" % (n, r)))
    elif kind == "listtbl":
        for n in [0, 1, 4, 12] + ([40] if tier == "thorough" else []):
            for opt in (0, 2, 4, 24, 30):
                out.append((n, "n=%d opt=%d" % (n, opt)))
    elif kind == "treetbl":
        out = [(n, "n=%d" % n) for n in ns + [25]]
    elif kind == "log":
        for n in (0, 1, 2):
            for opt in (0, 2):
                out.append((n, "n=%d opt=%d" % (n, opt)))
    return out


def constructor_ops():
    ops = []
    for mx in (0, 4):
        for opt in (2, 4, 8):
            ops.append("vector fn=new max=%d opt=%d" % (mx, opt))
    for kind in ("list", "queue", "stack", "grow", "treetbl"):
        ops.append("%s fn=new" % kind)
    for r in (0, 1, 7):
        ops.append("hashtbl fn=new range=%d" % r)
    for opt in (0, 2, 30):
        ops.append("listtbl fn=new opt=%d" % opt)
    for idx in (0, -1, 5):
        for opt in (0, 2):
            ops.append("log fn=new idx=%d opt=%d" % (idx, opt))
    return ops


KINDS = ["vector", "list", "queue", "stack", "grow", "hashtbl", "listtbl", "treetbl", "log"]


def all_base_ops(tier="quick"):
    ops = constructor_ops()
    for kind in KINDS:
        for n, st in states(kind, tier):
            for fn, a in fn_variants(kind, n):
                ops.append(("%s %s fn=%s %s" % (kind, st, fn, a)).strip())
    return ops


def random_ops(rng, count):
    """random (kind, state, function, arguments) beyond the fixed corpus: sizes up to 60"""
    ops = []
    for _ in range(count):
        kind = rng.choice(KINDS[:-1])
        n = rng.choice([rng.randrange(0, 8), rng.randrange(0, 60)])
        if kind == "vector":
            st = "n=%d opt=%d max=%d" % (n, rng.choice([2, 4, 8]), rng.choice([0, 1, 4, 16]))
        elif kind in ("list", "queue", "stack"):
            st = "n=%d max=%d" % (n, rng.choice([0, 0, n, n + 2]))
        elif kind == "hashtbl":
            st = "n=%d range=%d" % (n, rng.choice([1, 2, 7, 31]))
        elif kind == "listtbl":
            st = "n=%d opt=%d" % (n, rng.choice([0, 2, 4, 8, 16, 24, 30, 6, 12]))
        else:
            st = "n=%d" % n
        fn, a = rng.choice(fn_variants(kind, n))
        # perturb index / key arguments
        if "idx=" in a and rng.random() < 0.5 and fn not in ("save", "load", "putobj", "getobj", "find_nearest", "resize", "setsize"):
            a = re.sub(r"idx=-?\d+", "idx=%d" % rng.randrange(-n - 3, n + 4), a)
        if "key=" in a and "key=NULL" not in a and rng.random() < 0.5 and n:
            a = re.sub(r"key=\w+", "key=" + hx("k%02d" % rng.randrange(0, n + 2)), a)
        ops.append(("%s %s fn=%s %s" % (kind, st, fn, a)).strip())
    return ops


def parse_result(line):
    d = {}
    for w in line.split():
        if "=" in w:
            k, v = w.split("=", 1)
            d[k] = v
    return d


# ------------------------------------------------------------------ long-hold scenario (harness/hold.c)

HOLD_WRAPS = ("pthread_mutex_trylock", "pthread_mutex_unlock", "pthread_mutex_lock", "pthread_mutex_timedlock")
HOLD_KINDS = ["vector", "list", "queue", "hashtbl", "listtbl", "treetbl"]


def hold_scenarios(tier):
    """T0 holds the container lock while a waiter goes through `rounds` time-outs of Q_MUTEX_ENTER
    (MAX_MUTEX_LOCK_WAIT polls + forced-unlock attempt each)"""
    rounds = [1, 3] if tier == "quick" else [1, 2, 3, 5, 8]
    out = ["hold kind=%s init=%d rounds=%d" % (k, 2 if r == 1 else 3, r) for r in rounds for k in HOLD_KINDS]
    # nested locking by the lock holder under observation by a second thread (documented traversal idiom
    # lock(); locking calls ...; unlock()), and short contention (the waiter's FIRST trylock fails, the holder
    # releases long before the time-out; afterwards a third thread must get in)
    out += ["hold kind=%s init=2 mode=nested polls=50" % k for k in HOLD_KINDS]
    out += ["hold kind=%s init=2 mode=contend polls=%d" % (k, p) for k in HOLD_KINDS for p in ([20] if tier == "quick" else [1, 20, 200])]
    return out


def run_hold(impl_dir, lines):
    """one process per scenario, all in parallel (each mostly sleeps); -> [(line, result dict, raw)]"""
    from concurrent.futures import ThreadPoolExecutor
    hb = vlib.build_harness("hold", impl_dir, "plain", HOLD_WRAPS)

    def one(l):
        out, rc, err = vlib.run_proc([hb], l + "\n", timeout=120)
        raw = out[0] if out else "<no output, rc=%s %s>" % (rc, err[-200:])
        return l, parse_result(raw), raw
    with ThreadPoolExecutor(16) as ex:
        return list(ex.map(one, lines))


def _content(text, unordered):
    p = text.split(",")
    return (p[0], tuple(sorted(p[1:])) if unordered else tuple(p[1:]))


def _hold_what(line, r):
    a = dict(x.split("=") for x in line.split()[1:])
    mode = a.get("mode", "long")
    if mode == "nested":
        return "%s: lock(); locking public calls by the holder; a second thread tries to get in (%s failed polls): " % (a.get("kind"), r.get("polls"))
    if mode == "contend":
        return "%s: short contention (the waiter's first %s trylocks fail, then the holder unlocks): " % (a.get("kind"), r.get("polls"))
    return "%s: lock held across %s waiter time-out(s) (%s forced-unlock attempts, %s failed polls observed): " % (
        a.get("kind"), a.get("rounds"), r.get("forced"), r.get("polls"))


def judge_hold_c14(line, r):
    """C14 clauses: the owner's depth is back to 0, the waiter's call completes, a probe gets in"""
    if "t0_depth" not in r:
        return "long-hold harness gave no result: %s" % r
    bad = []
    if r.get("nested_delta", "0") != "0":
        bad.append("a public call made by the lock holder inside its locked region returned with the REAL mutex depth changed "
                   "by %s (it released or re-took the container mutex)" % r["nested_delta"])
    if r["t0_depth"] != "0":
        bad.append("the owner returned from unlock() with the mutex still held (successful lock calls minus successful "
                   "unlock calls of the owner = %s)" % r["t0_depth"])
    if r.get("t1_completed") != "1":
        bad.append("the waiting thread's call never completed after the owner's unlock()")
    if r.get("t1_depth", "0") != "0":
        bad.append("the waiter's call returned at lock depth %s" % r["t1_depth"])
    if r.get("probe") != "ok":
        bad.append("a third thread could not lock/unlock the container afterwards")
    if bad:
        return _hold_what(line, r) + "; ".join(bad)
    return None


def judge_hold_c13(line, r):
    """C13 clauses: the waiter's update is not visible (and its call does not finish) while the lock is
    held; afterwards the content is the held content plus the update"""
    if "walk1" not in r:
        return "long-hold harness gave no result: %s" % r
    kind = dict(x.split("=") for x in line.split()[1:]).get("kind")
    un = kind == "hashtbl"
    bad = []
    if _content(r["walk1"], un) != _content(r["walk2"], un):
        bad.append("two walks by the lock holder inside ONE critical section differ: %s then %s" % (r["walk1"], r["walk2"]))
    if r.get("t1_done_in_hold") == "1":
        bad.append("the other thread's mutating call completed while the lock was held")
    if not bad and r.get("t1_completed") == "1" and r.get("final") not in (None, "-"):
        new = "777" if kind == "vector" else "v777" if kind in ("list", "queue") else "k77=v777"
        w1 = r["walk1"].split(",")
        if kind in ("hashtbl", "treetbl"):
            want = (str(int(w1[0]) + 1), tuple(sorted(w1[1:] + [new])))
            got = _content(r["final"], True)
        elif kind == "listtbl":      # the default walk direction of qlisttbl_getnext is last -> first
            want = (str(int(w1[0]) + 1), tuple([new] + w1[1:]))
            got = _content(r["final"], False)
        else:
            want = (str(int(w1[0]) + 1), tuple(w1[1:] + [new]))
            got = _content(r["final"], False)
        if got != want or r.get("t1_ret") != "1":
            bad.append("final content %s (call returned %s) is not the held content %s plus the update" % (r["final"], r.get("t1_ret"), r["walk1"]))
    if bad:
        return _hold_what(line, r) + "; ".join(bad)
    return None

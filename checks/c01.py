"""C01 — tree table is an exact sorted map for every operation history."""
from checks.treecommon import TreeCheck
from vlib import Stream, hexs
import itertools


class TheCheck(TreeCheck):
    prop = "C01"
    aspects = ("map",)
    rule = ("operation histories on qtreetbl (put/get/remove/clear/size/find_min/find_max; byte, reverse and "
            "case-folding comparators) run on the C code and the Lean model; distinct_nontrivial = distinct "
            "(operation kind, result, resulting tree shape) triples")

    def probes(self, keys):
        return ["size", "min", "max"] + ["get %s" % hexs(k) for k in keys[:3]]

    def streams(self):
        big = self.tier != "quick"
        sts = self.corpus_streams()
        sts.append(self.bfs_stream(7 if not big else 10, 100000, self.probes))
        # exhaustive short sequences over 3 keys x 2 values (incl. empty value) + clear
        ks = [b"a\0", b"b\0", b"ab\0"]
        alpha = ["put %s %s" % (hexs(k), v) for k in ks for v in ("7631", "-")] + ["rm %s" % hexs(k) for k in ks] + ["clear"]
        ops = []
        for seq in itertools.product(alpha, repeat=3 if not big else 4):
            ops += ["new 0"] + list(seq) + ["size", "min", "max"] + ["get %s" % hexs(k) for k in ks]
        sts.append(Stream("exhaustive-seq", ops, history=True))
        # a put whose allocation fails leaves errno = ENOMEM behind: the following puts must still
        # report success (the harness also plants ENOMEM in errno before every put/get/remove)
        ks = [b"e%02d\0" % i for i in range(6)]
        ops = ["new 0"]
        for i, k in enumerate(ks):
            ops += ["fault %d" % (i % 3 + 1), "put %s 7676" % hexs(k), "put %s 77" % hexs(k), "put %s 78" % hexs(ks[0]), "get %s" % hexs(k), "size"]
        sts.append(Stream("stale-errno", ops, history=True))
        for mode in (0, 1, 2):
            n = 1500 if not big else 20000
            kg = None
            if mode == 2:
                kg = lambda n_: [bytes(self.rng.choice(b"aAbBcC") for _ in range(self.rng.randrange(1, 4))) + b"\0" for _ in range(n_)]
            sts.append(Stream("random-mode%d" % mode, self.random_history(n, 60 if not big else 800, mode, keygen=kg), history=True))
        return sts

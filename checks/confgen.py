"""Grammar-based generators and the independent reference semantics for the two configuration
parsers (C20, parser half of C17).

A document is a VALUE of a small grammar type; `render_*` turns it into bytes under a random
layout (and records the line number of every node); the expected result (INI: ordered entry list;
Apache style: callback stream, count or error line) is computed FROM THE VALUE by `ini_expected` /
`ac_expected` — never by re-parsing the rendered text."""

QAC_CASEINSENSITIVE, QAC_IGNOREUNKNOWN = 1, 2
A1_INT, A1_FLOAT, A1_BOOL = 1 << 8, 1 << 16, 1 << 24
AA_INT, AA_FLOAT, AA_BOOL = A1_INT << 5, A1_FLOAT << 5, A1_BOOL << 5
TAKEALL = 0xFF
OPTION, OPEN, CLOSE = 0, 1, 2
SECTION_ALL, SECTION_ROOT = 0, 1
STR, INT, FLOAT, BOOL = 0, 1, 2, 3

TRUE_WORDS = [b"true", b"on", b"yes", b"1"]
FALSE_WORDS = [b"false", b"off", b"no", b"0"]


def hexs(b):
    return bytes(b).hex() if b else "-"


def lower(b):
    return bytes(c + 32 if 65 <= c <= 90 else c for c in b)


# ------------------------------------------------------------------ documented classifiers

def is_int(s):
    body = s[1:] if s[:1] == b"-" else s
    return len(body) > 0 and all(48 <= c <= 57 for c in body)


def is_float(s):
    """integer or digits '.' digits, optional leading '-'"""
    if is_int(s):
        return True
    body = s[1:] if s[:1] == b"-" else s
    a, dot, b = body.partition(b".")
    return bool(dot) and len(a) > 0 and len(b) > 0 and all(48 <= c <= 57 for c in a + b)


def bool_value(s):
    l = lower(s)
    if l in TRUE_WORDS:
        return b"1"
    if l in FALSE_WORDS:
        return b"0"
    return None


# ------------------------------------------------------------------ option tables

class Opt:
    def __init__(self, name, take, cb, sectionid, sections):
        self.name, self.take, self.cb, self.sectionid, self.sections = name, take, cb, sectionid, sections

    def word(self):
        return "%s:%x:%d:%x:%x" % (hexs(self.name), self.take, 1 if self.cb else 0, self.sectionid, self.sections)

    def ntake(self):
        return self.take & 0xFF

    def argtype(self, j):
        """declared type of argument j (1-based): the individual flag of arguments 1..5, otherwise the
        'all arguments' flag; INT before FLOAT before BOOL when several are set"""
        t = self.take
        if j <= 5:
            if t & (A1_INT << (j - 1)):
                return INT
            if t & (A1_FLOAT << (j - 1)):
                return FLOAT
            if t & (A1_BOOL << (j - 1)):
                return BOOL
        if t & AA_INT:
            return INT
        if t & AA_FLOAT:
            return FLOAT
        if t & AA_BOOL:
            return BOOL
        return STR


NAMES = [b"Listen", b"Port", b"Host", b"Domain", b"TTL", b"MX", b"IPv4", b"TXT", b"Flag", b"Ratio", b"Any",
         b"Zone", b"x", b"Log-Level", b"a.b", b"Q9"]


def gen_take(rng):
    n = rng.choice([0, 1, 1, 2, 2, 3, 4, 5, 6, 7, TAKEALL, TAKEALL])
    t = n
    for j in range(5):
        k = rng.choice([STR, STR, INT, FLOAT, BOOL])
        if k == INT:
            t |= A1_INT << j
        elif k == FLOAT:
            t |= A1_FLOAT << j
        elif k == BOOL:
            t |= A1_BOOL << j
        if rng.random() < 0.05:           # several flags on one argument: INT wins over FLOAT over BOOL
            t |= rng.choice([A1_INT, A1_FLOAT, A1_BOOL]) << j
    aa = rng.choice([0, 0, AA_INT, AA_FLOAT, AA_BOOL])
    t |= aa
    if rng.random() < 0.04:
        t |= rng.choice([AA_INT, AA_FLOAT, AA_BOOL])
    return t


def gen_table(rng, big_ids=False):
    """a table with unique names (also unique ignoring case); about a third are sections"""
    names = rng.sample(NAMES, rng.randrange(2, 9))
    nsec = max(1, len(names) // 3)
    bits = list(range(1, 40 if big_ids else 20))
    rng.shuffle(bits)
    secs = []
    opts = []
    for i, nm in enumerate(names):
        cb = rng.random() < 0.85
        if i < nsec:
            sid = 0 if rng.random() < 0.1 else 1 << bits[i]
            secs.append(sid)
            opts.append(Opt(nm, gen_take(rng), cb, sid, None))
        else:
            opts.append(Opt(nm, gen_take(rng), cb, 0, None))
    ids = [s for s in secs if s]
    for o in opts:
        r = rng.random()
        if r < 0.35 or not ids:
            o.sections = rng.choice([SECTION_ALL, SECTION_ALL, SECTION_ROOT])
        else:
            v = 0
            for s in ids:
                if rng.random() < 0.6:
                    v |= s
            if rng.random() < 0.5:
                v |= SECTION_ROOT
            o.sections = v or SECTION_ALL
    rng.shuffle(opts)
    return opts


# ------------------------------------------------------------------ Apache-style documents

class Arg:
    """one argument: the bytes the callback must receive and how it is written"""
    def __init__(self, text, style, esc=()):
        self.text, self.style, self.esc = bytes(text), style, set(esc)   # esc: indexes escaped although not required

    def render(self):
        if self.style == "bare":
            return self.text
        qc = b"'" if self.style == "single" else b'"'
        out = b""
        for i, c in enumerate(self.text):
            ch = bytes([c])
            if ch == qc or ch == b"\\" or i in self.esc:
                out += b"\\"
            out += ch
        return qc + out + qc


class Node:
    """kind: 'opt' | 'sec' | 'comment' | 'blank' | 'close' (a stray/mismatching close tag)"""
    def __init__(self, kind, name=b"", args=(), body=None, close=None, text=b""):
        self.kind, self.name, self.args, self.body = kind, name, list(args), body
        self.close = close        # for 'sec': name written in the close tag, or None = never closed
        self.text = text
        self.line = self.close_line = None


BARE_OK = bytes(c for c in range(0x21, 0x7f)) + bytes([0x80, 0xc3, 0xa9, 0xff])
QUOTED_OK = bytes(c for c in range(0x20, 0x7f)) + bytes([9, 0x80, 0xe4, 0xff])


def gen_str_arg(rng, first_of_line=False):
    n = rng.choice([1, 1, 2, 3, 5, 9])
    style = rng.choice(["bare", "bare", "single", "double"])
    if style == "bare":
        t = bytes(rng.choice(BARE_OK) for _ in range(n))
        # a bare word cannot start with a quote; the directive name cannot look like a tag or comment
        while t[:1] in (b"'", b'"') or (first_of_line and t[:1] in (b"<", b"#")):
            t = bytes([rng.choice(b"abcXYZ019")]) + t[1:]
        return Arg(t, "bare")
    if rng.random() < 0.08:
        n = 0
    t = bytes(rng.choice([rng.choice(QUOTED_OK), rng.choice(b"'\"\\ \t")]) for _ in range(n))
    esc = [i for i in range(n) if rng.random() < 0.1]
    return Arg(t, style, esc)


def restyle(rng, text):
    """write a given text (type-checked argument) bare or quoted"""
    style = rng.choice(["bare", "bare", "bare", "single", "double"])
    if style == "bare" and (text == b"" or text[:1] in (b"'", b'"') or b" " in text or b"\t" in text):
        style = "double"
    return Arg(text, style, [i for i in range(len(text)) if style != "bare" and rng.random() < 0.05])


def casings(rng, w):
    return rng.choice([w, w.upper(), w.capitalize(), bytes(c - 32 if 97 <= c <= 122 and rng.random() < 0.5 else c for c in w)])


INTS = [b"0", b"23", b"-12", b"007", b"2147483648", b"-0", b"9"]
FLOATS = [b"1.32", b"-32.5", b"0.0", b"10.25", b"-0.5", b"3.14159"]
BAD_NUMS = [b"-", b".5", b"5.", b"1.2.3", b"abc", b"1e5", b"+1", b"", b"--1", b"1-", b"1 ", b"-.5", b"0x10", b"."]
BAD_BOOLS = [b"tru", b"2", b"onn", b"", b"y", b"n", b"t", b"nope", b"01", b"10"]


def gen_typed(rng, ty, bad=False):
    if ty == INT:
        t = rng.choice(BAD_NUMS + FLOATS) if bad else rng.choice(INTS + [str(rng.randrange(-99999, 99999)).encode()])
    elif ty == FLOAT:
        t = rng.choice(BAD_NUMS) if bad else rng.choice(INTS + FLOATS)
    elif ty == BOOL:
        t = rng.choice(BAD_BOOLS + FLOATS) if bad else casings(rng, rng.choice(TRUE_WORDS + FALSE_WORDS))
    else:
        return gen_str_arg(rng)
    return restyle(rng, t)


def gen_args(rng, opt, mutate):
    n = opt.ntake()
    if n == TAKEALL:
        n = rng.randrange(0, 8)
    if mutate == "count" and opt.ntake() != TAKEALL:
        n = rng.choice([k for k in range(0, 8) if k != n])
    badj = rng.randrange(1, n + 1) if (mutate == "type" and n > 0) else None
    args = []
    for j in range(1, n + 1):
        args.append(gen_typed(rng, opt.argtype(j), bad=(j == badj)))
    if mutate == "cbfail" and n >= 1 and opt.argtype(1) == STR:
        args[0] = restyle(rng, b"!fail")
    return args


def name_variant(rng, name, ci):
    if ci and rng.random() < 0.5:
        return casings(rng, name)
    return name


def allowed(opt, cur):
    return opt.sections == SECTION_ALL or (opt.sections & cur) != 0


def gen_doc(rng, table, flags, cur=SECTION_ROOT, depth=0, maxdepth=4, pmut=0.03, budget=None):
    """a list of nodes; mostly conforming to `table` in section `cur`; each directive is mutated with
    probability pmut (wrong count / type / scope / unknown name / callback refusal / bad close)"""
    if budget is None:
        budget = [rng.choice([3, 6, 12, 25])]
    ci = bool(flags & QAC_CASEINSENSITIVE)
    nodes = []
    n = rng.randrange(0, 6) if depth else rng.randrange(1, 8)
    for _ in range(n):
        if budget[0] <= 0:
            break
        r = rng.random()
        if r < 0.08:
            nodes.append(Node("blank")); continue
        if r < 0.16:
            nodes.append(Node("comment", text=bytes(rng.choice(b"abc <>'\"\\=#") for _ in range(rng.randrange(0, 9)))))
            continue
        budget[0] -= 1
        mut = None
        if rng.random() < pmut:
            mut = rng.choice(["count", "type", "scope", "unknown", "cbfail", "strayclose", "noclose", "badclose",
                              "unknownsec"])
        if mut == "strayclose":
            nodes.append(Node("close", name=rng.choice([b"Stray", b"x-y"]))); continue
        if mut == "unknown" or mut == "unknownsec":
            nm = rng.choice([b"Nope", b"zzz", b"listen_", b"Q"])
            args = [gen_str_arg(rng) for _ in range(rng.randrange(0, 3))]
            if mut == "unknownsec":
                # the section id inside an unregistered section is not documented: its body holds only
                # comments and unregistered directives
                body = [Node("opt", name=b"inner", args=[gen_str_arg(rng)]) for _ in range(rng.randrange(0, 3))]
                nodes.append(Node("sec", name=nm, args=args, body=body, close=nm))
            else:
                nodes.append(Node("opt", name=nm, args=args))
            continue
        cands = [o for o in table if allowed(o, cur)] if mut != "scope" else [o for o in table if not allowed(o, cur)]
        if not cands:
            continue
        o = rng.choice(cands)
        args = gen_args(rng, o, mut)
        nm = name_variant(rng, o.name, ci)
        is_sec = (o.sectionid != 0 or rng.random() < 0.05) and depth < maxdepth and rng.random() < 0.8
        if is_sec:
            body = gen_doc(rng, table, flags, o.sectionid, depth + 1, maxdepth, pmut, budget)
            close = name_variant(rng, o.name, ci)
            if mut == "noclose" and depth == 0:
                close = None              # never closed: the document ends after its body
                budget[0] = 0
            elif mut == "badclose":
                close = rng.choice([o.name + b"x", b"other", rng.choice(table).name])
            nodes.append(Node("sec", name=nm, args=args, body=body, close=close))
        else:
            nodes.append(Node("opt", name=nm, args=args))
    return nodes


def blanks(rng, minimum=1):
    return bytes(rng.choice(b" \t") for _ in range(rng.choice([minimum, minimum, 1, 2, 4])))


MAX_LINE = 4095          # MAX_LINESIZE - 1: the longest line (without its newline) the parser reads in one piece


def render_ac(rng, nodes, tag_ws=0.0):
    """bytes of the document; fills in node.line / node.close_line. tag_ws = probability of blanks
    before the `>` of a section tag"""
    out = []

    def emit(b):
        out.append(b)
        return len(out)

    def eol(rng):
        return rng.choice([b"", b"", b" ", b"\t", b"\r", b"  \r"])

    def words(n):
        b = b""
        for i, a in enumerate([Arg(n.name, "bare")] + n.args):
            b += (blanks(rng) if i else b"") + a.render()
        return b

    def go(nodes, depth):
        ind = rng.choice([b"", b"  " * depth, b"\t" * depth, b" "])
        for n in nodes:
            if n.kind == "blank":
                n.line = emit(rng.choice([b"", b"  ", b"\t", b"\r"]))
            elif n.kind == "comment":
                text = n.text
                if getattr(n, "longtail", None) is not None:
                    # an over-long comment: blanks up to the buffer size of the parser (MAX_LINESIZE - 1
                    # bytes), then text that looks like a directive - it is still the same comment
                    text = n.text + b" " * max(0, n.longat - len(ind) - 1 - len(n.text)) + n.longtail
                n.line = emit(ind + b"#" + text)
            elif n.kind == "opt":
                b = ind + words(n) + eol(rng)
                n.too_long = len(b) > MAX_LINE
                n.line = emit(b)
            elif n.kind == "close":
                n.line = emit(ind + b"</" + n.name + b">" + eol(rng))
            else:
                pre = blanks(rng, 0) if rng.random() < 0.15 else b""
                post = blanks(rng) if rng.random() < tag_ws else b""
                b = ind + b"<" + pre + words(n) + post + b">" + eol(rng)
                n.too_long = len(b) > MAX_LINE
                n.line = emit(b)
                go(n.body, depth + 1)
                if n.close is not None:
                    pre = blanks(rng, 0) if rng.random() < 0.1 else b""
                    post = blanks(rng) if rng.random() < tag_ws else b""
                    n.close_line = emit(ind + b"</" + pre + n.close + post + b">" + eol(rng))
    go(nodes, 0)
    doc = b"\n".join(out)
    if out and rng.random() < 0.7:
        doc += b"\n"
    nlines = doc.count(b"\n") + (1 if doc and not doc.endswith(b"\n") else 0)
    return doc, nlines


class Expect:
    def __init__(self):
        self.events = []        # (who, otype, section, sections, level, parents, argv); None = don't care
        self.ret = None
        self.errline = None
        self.why = None


class Reject(Exception):
    def __init__(self, line, why):
        self.line, self.why = line, why


def ac_expected(table, flags, defcb, nodes, nlines, cb_refuses, def_refuses=False):
    """the documented behaviour on the document VALUE `nodes` (line numbers filled in by render_ac)"""
    ci = bool(flags & QAC_CASEINSENSITIVE)
    ex = Expect()
    count = [0]

    def find(name):
        for o in table:
            if (lower(o.name) == lower(name)) if ci else (o.name == name):
                return o
        return None

    def check(o, n, cur, line):
        if not allowed(o, cur):
            raise Reject(line, "scope")
        if o.ntake() != TAKEALL and o.ntake() != len(n.args):
            raise Reject(line, "count")
        argv = [n.name]
        for j, a in enumerate(n.args, 1):
            ty = o.argtype(j)
            t = a.text
            if ty == INT and not is_int(t):
                raise Reject(line, "type")
            if ty == FLOAT and not is_float(t):
                raise Reject(line, "type")
            if ty == BOOL:
                t = bool_value(t)
                if t is None:
                    raise Reject(line, "type")
            argv.append(t)
        return argv

    def call(o, otype, cur, secs, level, parents, argv, line, known_scope=True):
        who = "M" if (o is not None and o.cb) else ("D" if defcb else None)
        if who is None:
            return
        ex.events.append((who, otype, cur if known_scope else None, secs if known_scope else None, level, list(parents), list(argv)))
        # def_refuses: the default handler refuses the same arguments as the registered callback
        if (who == "M" or def_refuses) and cb_refuses(otype, argv):
            raise Reject(line, "callback")

    def go(nodes, cur, secs, level, parents, known_scope):
        for n in nodes:
            if n.kind in ("blank", "comment"):
                continue
            if n.kind == "close":
                raise Reject(n.line, "stray close")
            if getattr(n, "too_long", False):
                # a directive / section tag longer than the line buffer is an error of that line (a comment
                # of any length is a comment)
                raise Reject(n.line, "line too long")
            o = find(n.name)
            if o is None:
                if not defcb and not (flags & QAC_IGNOREUNKNOWN):
                    raise Reject(n.line, "unknown")
                argv = [n.name] + [a.text for a in n.args]
                call(None, OPEN if n.kind == "sec" else OPTION, cur, secs, level, parents, argv, n.line, known_scope)
            else:
                argv = check(o, n, cur, n.line)
                call(o, OPEN if n.kind == "sec" else OPTION, cur, secs, level, parents, argv, n.line, known_scope)
            if n.kind == "sec":
                inner = o.sectionid if o is not None else None
                go(n.body, inner if o is not None else 0, (secs | inner) if o is not None else 0, level + 1,
                   [n.name] + parents, known_scope and o is not None)
                if n.close is None:
                    raise Reject(nlines, "not closed")
                if (lower(n.close) != lower(n.name)) if ci else (n.close != n.name):
                    raise Reject(n.close_line, "close mismatch")
                if o is not None:
                    call(o, CLOSE, cur, secs, level, parents, argv, n.close_line, known_scope)
                elif defcb:
                    # the default handler sees the close tag itself, one level down
                    ex.events.append(("D", CLOSE, None, None, None, None, None))      # its data: not documented
                count[0] += 1
            count[0] += 1
    try:
        go(nodes, SECTION_ROOT, SECTION_ROOT, 0, [], True)
        ex.ret = count[0]
    except Reject as r:
        ex.ret, ex.errline, ex.why = -1, r.line, r.why
    return ex


def harness_cb_refuses(otype, argv):
    if len(argv) >= 2:
        if otype != CLOSE and argv[1] == b"!fail":
            return True
        if otype == CLOSE and argv[1] == b"!failclose":
            return True
    return False


def ac_op(flags, defcb, doc, table, pathlen=None):
    """defcb: False/0 none, True/1 a default handler that never refuses, 2 one that refuses like the callback;
    pathlen: the harness opens the file under a path of exactly that many bytes (the error message starts
    with the path)"""
    head = "ac" if pathlen is None else "acp %d" % pathlen
    return "%s %x %d %s %s" % (head, flags, int(defcb), hexs(doc), " ".join(o.word() for o in table))


# ------------------------------------------------------------------ formatted-text lengths (DYNAMIC_VSPRINTF)
# the error message of qaconf (`<path>:<line> <text>`) and the `section.key` names of qconfig are
# formatted by a retry loop over growing blocks: every TOTAL length around the block sizes must work.

FMT_SWEEPS = (range(1020, 1030), range(2044, 2054), range(4080, 4111), range(8180, 8201))


def errmsg_cases(rng, sweeps=FMT_SWEEPS, full=True):
    """-> [(kind, total, pathlen, flags, defcb, doc, table, errline)]: one offending document per error
    kind and per total message length; the variable part of the message (an option / section name, the
    line itself) or - for the fixed messages - the path is sized so that
    len(path) + len(":<line> ") + len(text) == total. full=False: every kind only at the totals next to a
    power of two, two kinds (rotating) at the others"""
    out = []
    turn = 0

    def name(n, first=b"N"):
        return first + bytes(rng.choices(b"abcdefghijklmnopqrstuvwxyz0123456789_", k=n - 1))

    A = 2
    for sw in sweeps:
        for total in sw:
            big = total > 4600
            pathlen = 4090 if big else 300
            room = total - pathlen - len(":1 ")            # length of the message text (offence on line 1)
            # kind -> (fixed part of the text, builder(name) -> (flags, defcb, doc, table))
            kinds = {
                "unregistered": (len("Unregistered option ''."), lambda n: (0, 0, n + b" x\n", [Opt(b"Other", TAKEALL, False, 0, 0)])),
                "not-closed": (len("<> section was not closed."), lambda n: (0, 0, b"<" + n + b">\n", [Opt(n, TAKEALL, False, A, 0)])),
                "not-closed-unknown": (len("<> section was not closed."), lambda n: (QAC_IGNOREUNKNOWN, 0, b"<" + n + b" a>", [])),
                "stray-close": (len("Trying to close <> section that wasn't opened."), lambda n: (0, 0, b"</" + n + b">\n", [Opt(n, TAKEALL, False, A, 0)])),
                "wrong-section": (len("Option '' is in wrong section."), lambda n: (0, 0, n + b"\n", [Opt(n, TAKEALL, False, 0, A)])),
                "takes": (len("'' option takes 2 arguments."), lambda n: (0, 0, n + b" 1\n", [Opt(n, 2, False, 0, 0)])),
                "int": (len("1th argument of '' must be integer type."), lambda n: (0, 0, n + b" x", [Opt(n, 1 | A1_INT, False, 0, 0)])),
                "float": (len("1th argument of '' must be floating point. type"), lambda n: (0, 0, n + b" 1.\n", [Opt(n, 1 | A1_FLOAT, False, 0, 0)])),
                "bool": (len("2th argument of '' must be bool type."), lambda n: (0, 0, n + b" 1 maybe\n", [Opt(n, 2 | (A1_BOOL << 1), False, 0, 0)])),
                "missing-bracket": (len("Missing closing bracket. - ''."), lambda n: (0, 0, b"<" + n[1:] + b"\n", [])),
            }
            near = any(abs(total - p2) <= 1 for p2 in (1024, 2048, 4096, 8192))
            turn += 2
            for ki, (kind, (fixed, build)) in enumerate(kinds.items()):
                n = room - fixed
                if n < 1 or n > 4080:
                    continue
                if not full and not near and (ki - turn) % len(kinds) not in (0, 1):
                    continue
                flags, defcb, doc, table = build(name(n))
                out.append((kind, total, pathlen, flags, defcb, doc, table, 1))
            if not big:
                # fixed texts: the path makes the length
                for kind, text, doc, table in (
                        ("too-long", "Line is too long.", b"a " + b"x" * 4200 + b"\n", [Opt(b"a", TAKEALL, False, 0, 0)]),
                        ("quote", "Quotation hasn't properly closed.", b"a 'x\n", [Opt(b"a", TAKEALL, False, 0, 0)]),
                        ("refused", "callback refused", b"a !fail\n", [Opt(b"a", TAKEALL, True, 0, 0)])):
                    pl = total - len(":1 ") - len(text)
                    if 200 <= pl <= 4095 and (full or near or kind == ("too-long", "quote", "refused")[turn // 2 % 3]):
                        out.append((kind, total, pl, 0, 0, doc, table, 1))
    return out


def name_length_docs(rng, sweeps=FMT_SWEEPS, extra=40):
    """INI documents whose `section.key` name has every total length of the sweeps (and random others):
    -> [(doc, expected entries)]"""
    out = []
    totals = [t for sw in sweeps for t in sw] + [rng.randrange(3, 9000) for _ in range(extra)]
    for total in totals:
        for slen in {1, (total - 1) // 2, total - 2, rng.randrange(1, total - 1)}:
            klen = total - 1 - slen
            if slen < 1 or klen < 1:
                continue
            sec = bytes(rng.choices(b"abcdefgXYZ019_-", k=slen))
            key = bytes(rng.choices(b"abcdefgXYZ019_-", k=klen))
            doc = b"[" + sec + b"]\n" + key + b"=v" + (b"\n" if rng.random() < 0.7 else b"")
            out.append((doc, [(sec + b".", sec), (sec + b"." + key, b"v")]))
    return out


def stub_pattern(n):
    return bytes(97 + i % 23 for i in range(n))


CMD_SWEEPS = (range(1000, 1031), range(2040, 2057), range(4090, 4101), range(8190, 8195))
MAX_VALUESIZE = 1024 * 1024


def cmd_length_docs(big=(1048575, 1048576, 1048577, 2097152)):
    """`${!R<n>}`: the stubbed command prints exactly n bytes (qsyscmd -> qfile_read's growing block):
    -> [(doc, expected entries)]; a value beyond _MAX_VALUESIZE is not stored"""
    out = []
    for n in [x for sw in CMD_SWEEPS for x in sw] + list(big):
        pat = stub_pattern(n)
        ents = [(b"a", b"1")] + ([(b"k", pat)] if n <= MAX_VALUESIZE else []) + [(b"z", b"2")]
        out.append((b"a=1\nk=${!R%d}\nz=2\n" % n, ents))
    for n in (1023, 1024, 2047, 2048, 4095, 4096):
        pat = stub_pattern(n)
        out.append((b"k= ${!R%d} \nj=<${k}>\n" % n, [(b"k", pat), (b"j", b"<" + pat + b">")]))
    return out


def fread_ops(rng, lengths):
    """qfile_read(fp, nbytes) on NUL-free streams of the given lengths, every kind of nbytes"""
    ops = []
    for n in lengths:
        c = bytes(rng.choices(range(1, 256), k=n))
        for nb in ["-", "0", "1", "2", "3", "1023", "1024", "1025", str(max(n - 1, 1)), str(n + 1), str(max(n, 1))]:
            ops.append("fread %s %s" % (nb, hexs(c)))
    return ops


FREAD_SMALL = list(range(0, 5)) + list(range(1021, 1028))
FREAD_LARGE = list(range(2045, 2052)) + list(range(4093, 4100)) + [8191, 8192, 8193, 16384, 100000]


def fread_expected(op):
    """what the documentation of qfile_read says for a NUL-free stream: all bytes (nbytes NULL or 0) or the
    first nbytes, terminated; NULL for an empty stream"""
    _, nb, c = op.split()
    c = b"" if c == "-" else bytes.fromhex(c)
    if not c:
        return "null"
    k = 0 if nb == "-" else int(nb)
    t = c[:k] if k > 0 else c
    return "ok %d %s 00" % (len(t), hexs(t))


def line_count_cases(counts=(65534, 65535, 65536, 65537, 65538, 65539, 65540, 70001)):
    """documents of n lines with the first offence on the LAST line (the message must name line n, not
    n mod 2^16) and conforming documents of n directives (returned count n):
    -> [(flags, doc, table, expected ret, expected errline)]"""
    out = []
    t = [Opt(b"a", TAKEALL, False, 0, 0)]
    for n in counts:
        out.append((0, b"\n" * (n - 1) + b"Nope", t, -1, n))
        out.append((0, b"a\n" * (n - 1) + b"<a", t, -1, n))
        out.append((0, b"a\n" * n, t, n, None))
    return out


def parse_ac_result(line):
    """-> dict(add, ret, errline, msg, events[(who, otype, section, sections, level, argc, parents, argv)])"""
    f = line.split()
    if len(f) < 8 or f[0] != "add" or f[2] != "ret" or f[6] != "cbs":
        return None
    unl = lambda w: [] if w == "." else [b"" if x == "-" else bytes.fromhex(x) for x in w.split(",")]
    evs = []
    for w in f[8:]:
        p = w.split("/")
        evs.append((p[0], int(p[1]), int(p[2], 16), int(p[3], 16), int(p[4]), int(p[5]), unl(p[6]), unl(p[7])))
    return {"add": int(f[1]), "ret": int(f[3]), "errline": None if f[4] in "-?" else int(f[4]),
            "msg": b"" if f[5] == "-" else bytes.fromhex(f[5]), "n": int(f[7]), "events": evs}


def ac_compare(ex, res):
    """None or a description of how the observed behaviour contradicts the expected one"""
    if res is None:
        return "malformed result line"
    if ex.ret >= 0:
        if res["ret"] != ex.ret:
            if res["ret"] < 0:
                return "conforming document rejected at line %s: %r" % (res["errline"], res["msg"])
            return "returned count %d, %d directives were written" % (res["ret"], ex.ret)
    else:
        if res["ret"] >= 0:
            return "non-conforming document (%s at line %d) accepted with count %d" % (ex.why, ex.errline, res["ret"])
        if res["errline"] != ex.errline:
            return "offence (%s) is at line %d, error message names line %s: %r" % (ex.why, ex.errline, res["errline"], res["msg"])
    if len(res["events"]) != len(ex.events):
        return "%d callbacks, expected %d" % (len(res["events"]), len(ex.events))
    for i, (e, g) in enumerate(zip(ex.events, res["events"])):
        who, otype, sec, secs, level, parents, argv = e
        gw, gotype, gsec, gsecs, glevel, gargc, gparents, gargv = g
        if gw != who or gotype != otype:
            return "callback #%d: kind %s/%d, expected %s/%d" % (i, gw, gotype, who, otype)
        if argv is None:
            continue
        if gargv != argv or gargc != len(argv):
            return "callback #%d: arguments %r, expected %r" % (i, gargv, argv)
        if glevel != level or gparents != parents:
            return "callback #%d: level %d parents %r, expected %d %r" % (i, glevel, gparents, level, parents)
        if sec is not None and (gsec != sec or gsecs != secs):
            return "callback #%d: section %x/%x, expected %x/%x" % (i, gsec, gsecs, sec, secs)
    return None


# ------------------------------------------------------------------ INI documents

class IniNode:
    """kind: 'blank' | 'comment' | 'section' (name; b'' = the `[]` reset) | 'entry' (name, parts)
    parts: ('lit', bytes) | ('ref', full key) | ('env', NAME) | ('cmd', command) | ('nref', prefix, key2)
    where ('nref', p, k) is `${p${k}}`: the name is p followed by the value of k"""
    def __init__(self, kind, name=b"", parts=(), text=b""):
        self.kind, self.name, self.parts, self.text = kind, name, list(parts), text


KEYCH = b"abcdefgXYZ019_-./:"
LITCH = bytes(c for c in range(0x21, 0x7f)) + b"  \t" + bytes([0x80, 0xff])


def gen_key(rng, sep):
    k = bytes(rng.choice(KEYCH) for _ in range(rng.choice([1, 2, 3, 6])))
    if rng.random() < 0.1:
        k = k[:1] + b" " + k[1:]           # inner blanks belong to the name
    return k.replace(bytes([sep]), b"_")


def gen_lit(rng, sep):
    n = rng.choice([0, 1, 2, 4, 8])
    t = bytes(rng.choice(LITCH) for _ in range(n)).replace(b"${", b"$_")
    # a literal never starts with `{` / ends with `$`: next to other parts it must not form a `${`
    if t[:1] == b"{":
        t = b"(" + t[1:]
    if t[-1:] == b"$":
        t = t[:-1] + b"S"
    return t


def directive_lookalike(rng, sep):
    """a line that merely LOOKS like an include directive: only the nine bytes `@INCLUDE ` (with the blank)
    at the very beginning of a line are a directive of qconfig_parse_file. -> IniNode or None"""
    S = bytes([sep])
    k = rng.randrange(9)
    if k == 0:      # keys that start with the directive text without the blank
        n = IniNode("entry", name=rng.choice([b"@INCLUDES", b"@INCLUDE_DIR", b"@INCLUDE.d", b"@INCLUDE"]),
                    parts=[("lit", rng.choice([b"a b", b"/etc", b"x", b""]))])
        n.nospace = True            # no blank between this key and the separator
        return None if sep in (0x20,) or S in n.name else n
    if k == 1:      # a bare `@INCLUDE`, the directive followed by a TAB, lower / mixed case
        t = rng.choice([b"@INCLUDE", b"@INCLUDE\tinc", b"@include inc", b"@Include inc", b"@INCLUDE\t inc"])
        n = IniNode("bare", text=t)
    elif k == 2:    # the directive after leading blanks is no directive
        n = IniNode("bare", text=b"@INCLUDE " + rng.choice([b"inc", b"/V/inc", b"nothere"]))
        n.lead = rng.choice([b" ", b"\t", b"  "])
    elif k == 3:    # ... nor in a comment
        return IniNode("comment", text=rng.choice([b"@INCLUDE inc", b" @INCLUDE /V/inc", b"#@INCLUDE x"]))
    elif k == 4:    # ... nor in the middle of a line
        n = IniNode("entry", name=b"mid", parts=[("lit", b"x @INCLUDE inc")])
        return None if S in b"x @INCLUDE inc" or S in n.name else n
    else:
        return None
    return None if S in n.text else n


def gen_ini(rng, sep, env, lookalike=0.0):
    """-> list of IniNode; references only to keys defined earlier (full names) or to the environment"""
    nodes, defined, prefix = [], [], b""
    values = {}
    for _ in range(rng.choice([1, 3, 6, 12, 24])):
        r = rng.random()
        if lookalike and rng.random() < lookalike:
            n = directive_lookalike(rng, sep)
            if n is not None:
                nodes.append(n)
                if n.kind == "entry":
                    values[prefix + n.name] = ini_value(n.parts, values, env)
                continue
        if r < 0.08:
            nodes.append(IniNode("blank"))
        elif r < 0.18:
            nodes.append(IniNode("comment", text=bytes(rng.choice(b"ab =[]${}#") for _ in range(rng.randrange(0, 8)))))
        elif r < 0.30:
            if rng.random() < 0.2:
                nodes.append(IniNode("section", name=b"")); prefix = b""
            else:
                nm = gen_key(rng, sep).strip().replace(b"]", b"_") or b"s"
                nodes.append(IniNode("section", name=nm))
                prefix = nm + b"."
                defined.append(prefix); values[prefix] = nm
        else:
            name = gen_key(rng, sep).strip() or b"k"
            if name[:1] in (b"#", b"["):
                name = b"k" + name
            parts = []
            for _ in range(rng.choice([1, 1, 2, 3, 5])):
                k = rng.random()
                if k < 0.5 or (k < 0.75 and not defined):
                    parts.append(("lit", gen_lit(rng, sep)))
                elif k < 0.75:
                    parts.append(("ref", rng.choice(defined)))
                elif k < 0.88:
                    parts.append(("env", rng.choice(list(env) + [b"UNSET", b"NOPE"])))
                elif k < 0.94:
                    parts.append(("cmd", rng.choice([b"N fails", b"E silent", b"date -u", b"ls {a} b", b" x "])))
                else:
                    # ${p${k}}: find keys p+v where v is the value of an earlier key k
                    cands = [(f[:len(f) - len(values[k2])], k2) for f in defined for k2 in defined
                             if values[k2] and f.endswith(values[k2]) and b"$" not in values[k2] and b"}" not in values[k2]
                             and b"{" not in values[k2]]
                    cands = [c for c in cands if c[0][:1] not in (b"!", b"%") and b"$" not in c[0] and b"{" not in c[0] and b"}" not in c[0]]
                    if cands:
                        parts.append(("nref",) + rng.choice(cands))
                    else:
                        parts.append(("lit", b"z"))
            nodes.append(IniNode("entry", name=name, parts=parts))
            full = prefix + name
            val = ini_value(parts, values, env)
            # admissible: the stored value must not look like a reference itself, and the key must be
            # usable inside ${...}
            if b"${" in val or b"$" in full or b"{" in full or b"}" in full or full[:1] in (b"!", b"%"):
                nodes.pop()
                continue
            defined.append(full); values[full] = val
    return nodes


def stub_cmd(cmd):
    if cmd[:1] == b"N":
        return b""
    if cmd[:1] == b"E":
        return b""
    if cmd[:1] == b"R" and cmd[1:].isdigit() and len(cmd) <= 9:
        return stub_pattern(int(cmd[1:]))
    return (b" [" + cmd + b"] \n").strip(b" \t\r\n")


def ini_value(parts, values, env):
    """the value the file says: blanks around the TEXT of the value are layout (trimmed before the
    references are replaced); a substituted value is inserted verbatim"""
    ps = []
    for p in parts:
        if p[0] == "lit" and ps and ps[-1][0] == "lit":
            ps[-1] = ("lit", ps[-1][1] + p[1])
        else:
            ps.append(p)
    if ps and ps[0][0] == "lit":
        ps[0] = ("lit", ps[0][1].lstrip(b" \t\r\n"))
    if ps and ps[-1][0] == "lit":
        ps[-1] = ("lit", ps[-1][1].rstrip(b" \t\r\n"))
    out = b""
    for p in ps:
        if p[0] == "lit":
            out += p[1]
        elif p[0] == "ref":
            out += values[p[1]]
        elif p[0] == "env":
            out += env.get(p[1], b"")
        elif p[0] == "cmd":
            out += stub_cmd(p[1])
        else:
            out += values[p[1] + values[p[2]]]
    return out


def ini_expected(nodes, env):
    """ordered (key, value) entries: section marker entries `name.`=name, entries with the section
    prefix, every reference replaced by the value in effect at that line (latest definition)"""
    out, values, prefix = [], {}, b""
    for n in nodes:
        if n.kind == "section":
            if n.name == b"":
                prefix = b""
            else:
                prefix = n.name + b"."
                out.append((prefix, n.name)); values[prefix] = n.name
        elif n.kind == "entry":
            v = ini_value(n.parts, values, env)
            out.append((prefix + n.name, v)); values[prefix + n.name] = v
        elif n.kind == "bare":
            # a line without the separator: the whole (trimmed) line is the key, the value is empty
            k = n.text.strip(b" \t\r\n")
            out.append((prefix + k, b"")); values[prefix + k] = b""
    return out


def render_ini_lines(rng, nodes, sep):
    """one rendered line per node"""
    sp = lambda: bytes(rng.choice(b" \t") for _ in range(rng.choice([0, 0, 1, 2])))
    lines = []
    for n in nodes:
        if n.kind == "blank":
            lines.append(rng.choice([b"", b" ", b"\t\r"]))
        elif n.kind == "comment":
            lines.append(sp() + b"#" + n.text)
        elif n.kind == "section":
            lines.append(sp() + b"[" + sp() + n.name + sp() + b"]" + sp() + rng.choice([b"", b"\r"]))
        elif n.kind == "bare":
            lines.append(getattr(n, "lead", b"") + n.text + rng.choice([b"", b"\r", b"\t"]))
        else:
            v = b""
            for p in n.parts:
                if p[0] == "lit":
                    v += p[1]
                elif p[0] == "ref":
                    v += b"${" + p[1] + b"}"
                elif p[0] == "env":
                    v += b"${%" + p[1] + b"}"
                elif p[0] == "cmd":
                    v += b"${!" + p[1] + b"}"
                else:
                    v += b"${" + p[1] + b"${" + p[2] + b"}}"
            gap = b"" if getattr(n, "nospace", False) else sp()
            lines.append(sp() + n.name + gap + bytes([sep]) + sp() + v + sp() + rng.choice([b"", b"\r"]))
    return lines


def render_ini(rng, nodes, sep):
    lines = render_ini_lines(rng, nodes, sep)
    doc = b"\n".join(lines)
    if lines and rng.random() < 0.7:
        doc += b"\n"
    return doc


def ini_op(sep, doc, env):
    return "ini %02x %s%s" % (sep, hexs(doc), "".join(" %s=%s" % (hexs(k), hexs(v)) for k, v in env.items()))


def parse_ini_result(line):
    f = line.split()
    if len(f) < 2 or f[0] != "ok":
        return None
    out = []
    for w in f[2:]:
        k, v = w.split("=")
        out.append((b"" if k == "-" else bytes.fromhex(k), b"" if v == "-" else bytes.fromhex(v)))
    return out


# ------------------------------------------------------------------ INI documents spread over files (@INCLUDE)

INC_NAMES = [b"inc", b"inc1", b"inc10", b"a.conf", b"a.conf.local", b"a.conf.d", b"x", b"x y", b"sub/k.conf", b"z-9"]


def split_includes(rng, lines, mainpath, p=0.25, maxdepth=3):
    """move random runs of lines into include files (nested up to maxdepth): the document says the same,
    `@INCLUDE <file>` lines are a layout. -> {path: content}; relative names are resolved against the
    directory of the MAIN file, absolute ones (`/…`, `\\…`) are taken as written"""
    d = mainpath.rsplit(b"/", 1)[0] if b"/" in mainpath else b"."
    names = list(INC_NAMES)
    rng.shuffle(names)
    files = {}
    ws = lambda: bytes(rng.choice(b" \t") for _ in range(rng.choice([0, 0, 1, 3])))

    def make(ls, depth):
        out, i = [], 0
        while i < len(ls):
            if names and depth < maxdepth and rng.random() < p:
                j = i + rng.randrange(0, min(6, len(ls) - i) + 1)
                name = names.pop()
                form = rng.choice(["rel", "rel", "abs", "bs"])
                if form == "rel":
                    written, key = name, d + b"/" + name
                elif form == "abs":
                    written = key = b"/V/" + name
                else:
                    written = key = b"\\" + name
                files[key] = make(ls[i:j], depth + 1)
                out.append(b"@INCLUDE " + ws() + written + ws() + rng.choice([b"", b"\r"]))
                i = j
            else:
                out.append(ls[i]); i += 1
        return b"\n".join(out) + (b"\n" if out and rng.random() < 0.8 else b"")
    main = make(lines, 0)
    res = {mainpath: main}
    res.update(files)
    return res


def inif_op(sep, mainpath, files):
    return "inif %02x %s%s" % (sep, hexs(mainpath), "".join(" %s=%s" % (hexs(k), hexs(v)) for k, v in files.items()))

"""C17 — decoders and parsers are memory-safe and terminate on arbitrary input.
Decoder half (URL/Base64/hex in place, _q_makeword, qparse_queries); the parser half
(qconfig, qaconf) is provided by checks/c17_parsers.py when present."""
import itertools, os
import vlib
from vlib import Check, Stream, hexs

try:
    from checks import c17_parsers
except Exception:       # parser half not built yet
    c17_parsers = None


def strings_upto(alpha, n):
    for k in range(n + 1):
        for t in itertools.product(alpha, repeat=k):
            yield bytes(t)


class TheCheck(Check):
    prop = "C17"
    # parser half: theorems live in Props/C17Parsers.lean (imported by Props/C17.lean)
    also_audit = tuple("Qlibc.Props.C17Parsers." + n for n in (
        "ini_markers", "aconf_tokenize_safe", "aconf_parse_total", "iniExpand_terminates", "iniParse_total",
        "ini_include_consts", "iniParseFile_total", "fmt_total", "fmt_dup_total", "qfile_read_total", "qfile_read_taken"))
    module = "encode"
    harness = "encode"
    rule = ("arbitrary NUL-terminated inputs in exactly sized heap buffers (ASan+UBSan) fed to the in-place decoders, "
            "_q_makeword and qparse_queries, and to the Lean raw-buffer model; distinct_nontrivial = distinct "
            "(operation, input) pairs with a non-empty input")
    assumptions = ["wall-clock termination of the compiled code is observed by a timeout; the theorem is about fuel",
                   "machine-level memory safety is sampled by ASan on the explored inputs; the theorem covers the "
                   "buffer-index logic of the model"]

    def regenerate(self):
        from checks import c16
        out = c16.TheCheck.regenerate(self)
        if c17_parsers is not None:
            out += c17_parsers.TheCheck.regenerate(self)
        return out

    def nontrivial_key(self, op, line):
        return op if not op.endswith(" -") else "trivial"

    def streams(self):
        rng = self.rng
        sts = []
        corpus = os.path.join(vlib.ROOT, "corpus", "C17")
        for f in sorted(os.listdir(corpus)) if os.path.isdir(corpus) else []:
            if f.endswith(".ops") and not f.startswith(("parser", "ini-", "aconf-", "nomodel-")):
                sts.append(Stream("corpus:" + f, [l.strip() for l in open(os.path.join(corpus, f)) if l.strip()]))
        big = self.tier != "quick"
        url_alpha = b"%+4ag\xff"
        hex_alpha = b"09aFg\x80"
        b64_alpha = b"A=-\n/\xff"
        sts.append(Stream("exhaustive:urldec", ["urldec " + hexs(s) for s in strings_upto(url_alpha, 6 if big else 5)]))
        sts.append(Stream("exhaustive:hexdec", ["hexdec " + hexs(s) for s in strings_upto(hex_alpha, 6 if big else 5)]))
        sts.append(Stream("exhaustive:b64dec", ["b64dec " + hexs(s) for s in strings_upto(b64_alpha, 6 if big else 5)]))
        q_alpha = b"=&%a +"
        sts.append(Stream("exhaustive:query", ["query %s 3d 26" % hexs(s) for s in strings_upto(q_alpha, 6 if big else 5)]))
        sts.append(Stream("exhaustive:makeword", ["makeword %s 3d" % hexs(s) for s in strings_upto(b"=a&", 5)]))
        # unusual separators: qparse_queries / qconfig hand the caller's separator to _q_makeword unchanged -
        # '\0' (the terminator IS the stop byte), bytes >= 0x80 (char is signed), '%', '+', blank; also
        # equalchar == sepchar. Inputs in exactly sized heap strings.
        SEPS = [0x3d, 0x26, 0x3b, 0x20, 0x00, 0x80, 0xff, 0x25, 0x2b]
        mw_alpha = b"=a&; %\x80\xff"
        sts.append(Stream("makeword-stops", ["makeword %s %02x" % (hexs(s), st) for st in SEPS
                                             for s in strings_upto(mw_alpha, 4 if big else 3)]))
        qa = b"=&; %+a\x80\xff"
        qops = []
        for e in SEPS:
            for sp in SEPS:
                for s in strings_upto(b"=&a", 3):
                    qops.append("query %s %02x %02x" % (hexs(s), e, sp))
                for _ in range(12 if not big else 200):
                    x = bytes(rng.choice(qa) for _ in range(rng.randrange(1, 24)))
                    qops.append("query %s %02x %02x" % (hexs(x), e, sp))
        sts.append(Stream("query-separators", qops))
        # tokens and lengths taken from the CURRENT qencode.c (string literals / character constants; integer
        # constants after preprocessing): a decoder or the query parser that treats one spelling or one length
        # specially meets it at the start, at the end, doubled, after '%' and as name / value of first and later pairs
        dic = [t for t in vlib.source_dictionary(["src/utilities/qencode.c"]) if 0 not in t]
        multi = [t for t in dic if len(t) >= 2][:40]
        sd = []
        for t in multi + [b"%", b"+", b"=", b"&"]:
            for x in (t, t + b"%", b"%" + t, t + t, b"a" + t, t + b"=" + t + b"&" + t + b"=" + t, b"a=b&" + t + b"x=" + t):
                sd += ["urldec " + hexs(x), "hexdec " + hexs(x), "b64dec " + hexs(x), "query %s 3d 26" % hexs(x), "makeword %s 3d" % hexs(x)]
        for n in [n for n in vlib.source_numbers(["src/utilities/qencode.c"]) if n <= 70000]:
            for L in (n - 1, n, n + 1):
                sd += ["urldec " + hexs(b"a" * L), "urldec " + hexs((b"%41" * L)[:L]), "urldec " + hexs(b"+" * (L - 1) + b"%"),
                       "hexdec " + hexs((b"4a" * L)[:L]), "b64dec " + hexs((b"QUJD" * L)[:L]), "b64dec " + hexs((b"QUJD" * L)[:L - 1] + b"="),
                       "query %s 3d 26" % hexs(b"k=" + b"v" * L), "query %s 3d 26" % hexs((b"a=1&" * L)[:L])]
        sts.append(Stream("source-dictionary", sd, note="%d multi-byte tokens, lengths around the constants of the current source" % len(multi)))
        # the query text lives in the destination table and a pair re-defines the entry that holds it: the
        # stored text is freed by that put - the parser must not be reading it (exactly sized blocks, ASan)
        al = []
        for key in (b"q", b"a"):
            for n in range(1, 5):
                for t in itertools.product([key + b"=", key + b"=x", b"b=1", key, b"=", b"%3" ], repeat=n):
                    al.append("queryalias %s %s 3d 26" % (hexs(b"&".join(t)), hexs(key)))
            for _ in range(100 if not big else 3000):
                parts = [rng.choice([key, b"b", b"cc", b""]) + rng.choice([b"=", b""]) + bytes(rng.choice(b"ab%+ 1") for _ in range(rng.choice([0, 2, 30, 300])))
                         for _ in range(rng.randrange(1, 7))]
                q = b"&".join(parts)
                if q:
                    al.append("queryalias %s %s 3d 26" % (hexs(q), hexs(key)))
        sts.append(Stream("query-aliased-text", al))
        from checks import c16
        sts.append(c16.ledger_stream(rng, 200 if not big else 3000))
        # every single byte and every byte after '%' / '%x'
        one = []
        for c in range(1, 256):
            for pre in (b"", b"%", b"%4", b"%%", b"a"):
                s = pre + bytes([c])
                one += ["urldec " + hexs(s), "hexdec " + hexs(s), "b64dec " + hexs(s)]
        sts.append(Stream("all-bytes", one))
        rs = []
        for i in range(400 if not big else 6000):
            ln = rng.choice([rng.randrange(1, 40), rng.randrange(1, 300), rng.randrange(1, 1200)])
            cls = rng.randrange(3)
            if cls == 0:
                x = bytes(rng.randrange(1, 256) for _ in range(ln))
            elif cls == 1:
                x = bytes(rng.choice(b"%%%+=&4aFg \xff") for _ in range(ln))
            else:
                x = bytes(rng.choice(b"ABab01+/=\n-") for _ in range(ln))
            op = rng.choice(["urldec", "hexdec", "b64dec", "query"])
            rs.append("%s %s%s" % (op, hexs(x), " 3d 26" if op == "query" else ""))
        sts.append(Stream("random", rs))
        if c17_parsers is not None:
            # the parser half has its own harness / driver module / wraps and its own oracle
            def oracle(ops, lines):
                for i, (op, l) in enumerate(zip(ops, lines)):
                    d = c17_parsers.parser_judge(op, l)
                    if d:
                        return i, d
                return None
            for st in c17_parsers.parser_streams(self):
                st.harness, st.module, st.wraps, st.oracle = c17_parsers.HARNESS, c17_parsers.MODULE, c17_parsers.WRAPS, oracle
                st.name = "parsers:" + st.name
                sts.append(st)
        from checks import mtpure
        sts.append(mtpure.stream(self))      # hidden shared state shows only with concurrent callers
        return sts

    def judge(self, op, line):
        w, f = op.split(), line.split()
        if w[0] in ("ini", "inif", "inifp", "ac", "acp", "acpipe", "acre", "fread"):
            return c17_parsers.parser_judge(op, line) if c17_parsers is not None else None
        if line.startswith("fault"):
            return "%s on input %s" % (line, op)
        if w[0] in ("urldec", "hexdec", "b64dec"):
            n_in = 0 if w[1] == "-" else len(w[1]) // 2
            if f[0] != "ok" or int(f[1]) > n_in:
                return "decoder produced %s bytes from a %d-byte input" % (f[1] if len(f) > 1 else "?", n_in)
            if f[3] != "00":
                return "decoded string is not terminated"
        return None

    def classify(self, op, detail):
        if c17_parsers is not None and op.split()[0] in ("ini", "inif", "inifp", "ac", "acp", "acpipe", "acre", "fread"):
            return c17_parsers.parser_classify(op, detail)
        return "qencode:" + op.split()[0]

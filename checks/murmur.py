"""pure-Python MurmurHash3 x86_32, seed 0, with qlibc's convention that an empty input hashes to 0
(`qhashmurmur3_32` returns 0 for nbytes == 0, which is also what the reference gives for seed 0)."""


import functools


@functools.lru_cache(maxsize=1 << 17)
def murmur3_32(data: bytes) -> int:
    n = len(data)
    if n == 0:
        return 0
    c1, c2, M = 0xcc9e2d51, 0x1b873593, 0xffffffff
    h = 0
    nb = n // 4
    for i in range(nb):
        k = int.from_bytes(data[4 * i:4 * i + 4], "little")
        k = (k * c1) & M
        k = ((k << 15) | (k >> 17)) & M
        k = (k * c2) & M
        h ^= k
        h = ((h << 13) | (h >> 19)) & M
        h = (h * 5 + 0xe6546b64) & M
    tail = data[4 * nb:]
    k = 0
    if len(tail) >= 3:
        k ^= tail[2] << 16
    if len(tail) >= 2:
        k ^= tail[1] << 8
    if len(tail) >= 1:
        k ^= tail[0]
        k = (k * c1) & M
        k = ((k << 15) | (k >> 17)) & M
        k = (k * c2) & M
        h ^= k
    h ^= n
    h ^= h >> 16
    h = (h * 0x85ebca6b) & M
    h ^= h >> 13
    h = (h * 0xc2b2ae35) & M
    h ^= h >> 16
    return h

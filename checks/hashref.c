/* Fast reference implementations for the huge-input oracle of check C18, written from the
 * publications (Appleby's MurmurHash3.cpp: x86_32 and x64_128; Fowler/Noll/Vo: FNV-1), NOT from
 * qlibc.  Pure Python cannot run 2^29 sequentially dependent steps in the quick tier; this file is
 * compiled by checks/c18.py (gcc -O2, no qlibc headers) and cross-checked on every run against the
 * pure-Python references of checks/c18.py on small inputs before it is trusted for large ones.
 *
 *   hashref <nbytes> <seed> <kind>...     kind = fnv32 | fnv64 | m32 | m128
 * hashes the pattern buffer of harness/hash.c's `big` op: a 251-byte block of LCG bytes
 * (x = x*1103515245+12345, byte = x>>16) repeated and cut at nbytes.
 */
#include <stdint.h>
#include <stdio.h>
#include <stdlib.h>
#include <string.h>

static inline uint32_t rotl32(uint32_t x, int8_t r) { return (x << r) | (x >> (32 - r)); }
static inline uint64_t rotl64(uint64_t x, int8_t r) { return (x << r) | (x >> (64 - r)); }
static inline uint32_t getblock32(const uint8_t *p, size_t i) { uint32_t v; memcpy(&v, p + 4 * i, 4); return v; }
static inline uint64_t getblock64(const uint8_t *p, size_t i) { uint64_t v; memcpy(&v, p + 8 * i, 8); return v; }

static uint32_t fmix32(uint32_t h) {
    h ^= h >> 16; h *= 0x85ebca6b; h ^= h >> 13; h *= 0xc2b2ae35; h ^= h >> 16; return h;
}
static uint64_t fmix64(uint64_t k) {
    k ^= k >> 33; k *= 0xff51afd7ed558ccdULL; k ^= k >> 33; k *= 0xc4ceb9fe1a85ec53ULL; k ^= k >> 33; return k;
}

static uint32_t MurmurHash3_x86_32(const uint8_t *data, size_t len, uint32_t seed) {
    const size_t nblocks = len / 4;
    uint32_t h1 = seed;
    const uint32_t c1 = 0xcc9e2d51, c2 = 0x1b873593;
    for (size_t i = 0; i < nblocks; i++) {
        uint32_t k1 = getblock32(data, i);
        k1 *= c1; k1 = rotl32(k1, 15); k1 *= c2;
        h1 ^= k1; h1 = rotl32(h1, 13); h1 = h1 * 5 + 0xe6546b64;
    }
    const uint8_t *tail = data + nblocks * 4;
    uint32_t k1 = 0;
    switch (len & 3) {
        case 3: k1 ^= (uint32_t) tail[2] << 16; /* fall through */
        case 2: k1 ^= (uint32_t) tail[1] << 8;  /* fall through */
        case 1: k1 ^= tail[0];
                k1 *= c1; k1 = rotl32(k1, 15); k1 *= c2; h1 ^= k1;
    }
    h1 ^= (uint32_t) len;
    return fmix32(h1);
}

static void MurmurHash3_x64_128(const uint8_t *data, size_t len, uint32_t seed, uint64_t out[2]) {
    const size_t nblocks = len / 16;
    uint64_t h1 = seed, h2 = seed;
    const uint64_t c1 = 0x87c37b91114253d5ULL, c2 = 0x4cf5ad432745937fULL;
    for (size_t i = 0; i < nblocks; i++) {
        uint64_t k1 = getblock64(data, i * 2 + 0), k2 = getblock64(data, i * 2 + 1);
        k1 *= c1; k1 = rotl64(k1, 31); k1 *= c2; h1 ^= k1;
        h1 = rotl64(h1, 27); h1 += h2; h1 = h1 * 5 + 0x52dce729;
        k2 *= c2; k2 = rotl64(k2, 33); k2 *= c1; h2 ^= k2;
        h2 = rotl64(h2, 31); h2 += h1; h2 = h2 * 5 + 0x38495ab5;
    }
    const uint8_t *tail = data + nblocks * 16;
    uint64_t k1 = 0, k2 = 0;
    switch (len & 15) {
        case 15: k2 ^= ((uint64_t) tail[14]) << 48; /* fall through */
        case 14: k2 ^= ((uint64_t) tail[13]) << 40; /* fall through */
        case 13: k2 ^= ((uint64_t) tail[12]) << 32; /* fall through */
        case 12: k2 ^= ((uint64_t) tail[11]) << 24; /* fall through */
        case 11: k2 ^= ((uint64_t) tail[10]) << 16; /* fall through */
        case 10: k2 ^= ((uint64_t) tail[9]) << 8;   /* fall through */
        case 9:  k2 ^= ((uint64_t) tail[8]) << 0;
                 k2 *= c2; k2 = rotl64(k2, 33); k2 *= c1; h2 ^= k2; /* fall through */
        case 8:  k1 ^= ((uint64_t) tail[7]) << 56; /* fall through */
        case 7:  k1 ^= ((uint64_t) tail[6]) << 48; /* fall through */
        case 6:  k1 ^= ((uint64_t) tail[5]) << 40; /* fall through */
        case 5:  k1 ^= ((uint64_t) tail[4]) << 32; /* fall through */
        case 4:  k1 ^= ((uint64_t) tail[3]) << 24; /* fall through */
        case 3:  k1 ^= ((uint64_t) tail[2]) << 16; /* fall through */
        case 2:  k1 ^= ((uint64_t) tail[1]) << 8;  /* fall through */
        case 1:  k1 ^= ((uint64_t) tail[0]) << 0;
                 k1 *= c1; k1 = rotl64(k1, 31); k1 *= c2; h1 ^= k1;
    }
    h1 ^= len; h2 ^= len;
    h1 += h2; h2 += h1;
    h1 = fmix64(h1); h2 = fmix64(h2);
    h1 += h2; h2 += h1;
    out[0] = h1; out[1] = h2;
}

int main(int argc, char **argv) {
    if (argc < 4) return 2;
    size_t n = (size_t) strtoull(argv[1], NULL, 10);
    uint32_t x = (uint32_t) strtoul(argv[2], NULL, 10);
    unsigned char blk[251];
    for (int i = 0; i < 251; i++) { x = x * 1103515245u + 12345u; blk[i] = (unsigned char)(x >> 16); }
    unsigned char *buf = malloc(n ? n : 1);
    if (!buf) return 3;
    for (size_t o = 0; o < n; o += 251) memcpy(buf + o, blk, n - o < 251 ? n - o : 251);
    for (int a = 3; a < argc; a++) {
        if (!strcmp(argv[a], "fnv32")) {
            uint32_t h = 0x811c9dc5u;                       /* offset basis */
            for (size_t i = 0; i < n; i++) { h *= 0x01000193u; h ^= buf[i]; }
            printf("fnv32=%08x\n", (unsigned) h);
        } else if (!strcmp(argv[a], "fnv64")) {
            uint64_t h = 0xcbf29ce484222325ULL;
            for (size_t i = 0; i < n; i++) { h *= 0x100000001b3ULL; h ^= buf[i]; }
            printf("fnv64=%016llx\n", (unsigned long long) h);
        } else if (!strcmp(argv[a], "m32")) {
            printf("m32=%08x\n", (unsigned) MurmurHash3_x86_32(buf, n, 0));
        } else if (!strcmp(argv[a], "m128")) {
            uint64_t out[2]; unsigned char b[16];
            MurmurHash3_x64_128(buf, n, 0, out);
            memcpy(b, out, 16);                              /* as stored by a little-endian machine */
            printf("m128=");
            for (int i = 0; i < 16; i++) printf("%02x", b[i]);
            printf("\n");
        } else return 2;
    }
    free(buf);
    return 0;
}

"""shim: `python3 check.py C17Parsers` runs the parser half of C17 stand-alone (see c17_parsers.py)"""
from checks.c17_parsers import TheCheck  # noqa: F401

/* Search for MurmurHash3 x86_32 (seed 0) collisions between a key and a proper extension of it:
 *   murmur3_32("<p>") == murmur3_32("<p><suffix>")
 * which is what a chain search that compares only strlen(shorter) bytes (memcmp without the
 * terminator) needs in order to confuse two keys of a hash / list table. Written from Appleby's
 * publication, not from qlibc. About 2^32 candidates per pair; multi-threaded.
 *
 *   prefixcoll <npairs> <nthreads> [nul]
 * `nul`: both keys are hashed WITH their terminator (the form containers use that hash
 * strlen+1 bytes); default: strlen bytes (qhashtbl / qlisttbl).
 * Output: one line `<prefix> <suffix> <hash hex>` per pair, distinct prefixes.
 * The pairs found are stored as constants in checks/c05.py (PREFIX_COLLISIONS); the check verifies
 * them with the pure-Python murmur at start-up and never needs to run this search. */
#include <pthread.h>
#include <stdint.h>
#include <stdio.h>
#include <stdlib.h>
#include <string.h>

static inline uint32_t rotl32(uint32_t x, int r) { return (x << r) | (x >> (32 - r)); }
static uint32_t murmur3_32(const uint8_t *data, size_t len) {
    const size_t nblocks = len / 4;
    uint32_t h = 0; const uint32_t c1 = 0xcc9e2d51, c2 = 0x1b873593;
    for (size_t i = 0; i < nblocks; i++) {
        uint32_t k; memcpy(&k, data + 4 * i, 4);
        k *= c1; k = rotl32(k, 15); k *= c2; h ^= k; h = rotl32(h, 13); h = h * 5 + 0xe6546b64;
    }
    const uint8_t *tail = data + nblocks * 4; uint32_t k = 0;
    switch (len & 3) {
        case 3: k ^= (uint32_t) tail[2] << 16; /* fall through */
        case 2: k ^= (uint32_t) tail[1] << 8;  /* fall through */
        case 1: k ^= tail[0]; k *= c1; k = rotl32(k, 15); k *= c2; h ^= k;
    }
    h ^= (uint32_t) len; h ^= h >> 16; h *= 0x85ebca6b; h ^= h >> 13; h *= 0xc2b2ae35; h ^= h >> 16;
    return h;
}

static const char ALPHA[] = "abcdefghijklmnopqrstuvwxyz0123456789";
static int npairs, nthreads, with_nul;
static volatile int found = 0;
static pthread_mutex_t mu = PTHREAD_MUTEX_INITIALIZER;

/* thread t takes the prefixes "pk<j>" with j % nthreads == t, one after the other; for each it
 * walks all suffixes of length 1..7 over ALPHA until a collision shows up or enough were found */
static void *worker(void *arg) {
    int t = (int) (intptr_t) arg;
    for (int j = t; found < npairs && j < 4096; j += nthreads) {
        uint8_t key[40]; int pl = snprintf((char *) key, sizeof key, "pk%d", j);
        uint32_t hp = murmur3_32(key, pl + (with_nul ? 1 : 0));
        int idx[8]; int sl;
        for (sl = 1; sl <= 7 && found < npairs; sl++) {
            for (int i = 0; i < sl; i++) { idx[i] = 0; key[pl + i] = ALPHA[0]; }
            key[pl + sl] = 0;
            uint64_t budget = 1ULL << 30;          /* per prefix: move on after 2^30 candidates */
            for (;;) {
                if (murmur3_32(key, pl + sl + (with_nul ? 1 : 0)) == hp) {
                    pthread_mutex_lock(&mu);
                    if (found < npairs) { found++; key[pl + sl] = 0; printf("%.*s %s %08x\n", pl, key, (char *) key + pl, hp); fflush(stdout); }
                    pthread_mutex_unlock(&mu);
                    goto next_prefix;
                }
                int i = sl - 1;
                while (i >= 0 && ++idx[i] == 36) { idx[i] = 0; key[pl + i] = ALPHA[0]; i--; }
                if (i < 0) break;
                key[pl + i] = ALPHA[idx[i]];
                if (--budget == 0 || found >= npairs) goto next_prefix;
            }
        }
    next_prefix: ;
    }
    return NULL;
}

int main(int argc, char **argv) {
    npairs = argc > 1 ? atoi(argv[1]) : 3; nthreads = argc > 2 ? atoi(argv[2]) : 8; with_nul = argc > 3 && !strcmp(argv[3], "nul");
    pthread_t th[64]; if (nthreads > 64) nthreads = 64;
    for (int t = 0; t < nthreads; t++) pthread_create(&th[t], NULL, worker, (void *) (intptr_t) t);
    for (int t = 0; t < nthreads; t++) pthread_join(th[t], NULL);
    return found >= npairs ? 0 : 1;
}

"""C10 — vector is an exact array of fixed-size elements under every growth policy."""
import itertools, os
import vlib
from vlib import Stream, hexs
from checks import seqideal
import hashlib
from checks.seqcommon import SeqCheck, pack, ts_variant

DOUBLE, LINEAR, EXACT = 2, 4, 8


def elem(os_, k):
    """distinct element number k of size os_ (contains NUL bytes for some k)"""
    return bytes((k * 37 + j * 11) % 256 if (k + j) % 7 else 0 for j in range(os_ - 1)) + bytes([k % 256])


def bigelem(os_, k):
    """element number k of size os_ whose bytes have no period: a block of it swapped, shifted or left
    behind at ANY offset shows (sha256 in counter mode)"""
    out = b""
    c = 0
    while len(out) < os_:
        out += hashlib.sha256(b"%d/%d/%d" % (os_, k, c)).digest()
        c += 1
    return out[:os_]


def build(os_, n):
    return ["addlast " + hexs(elem(os_, i + 1)) for i in range(n)]


class TheCheck(SeqCheck):
    prop = "C10"
    module = "vector"
    harness = "vector"
    mode = "vector"
    lib = "libqw.a"      # allocator traffic of the library is counted (allocs= / live= fields)
    rule = ("operation histories on qvector executed by the C library (ASan+UBSan+LSan build of the working tree) and by "
            "the Lean model; after every operation both print the API-level content (getat(i, newmem) for all i, size) and "
            "the private state (num, max, objsize, options, initnum, live slots of the buffer, the library's live block count) "
            "and the number of allocation attempts of the call; the oracle is an ideal "
            "Python list of fixed-size elements evaluated on the implementation's transcript; distinct_nontrivial = "
            "distinct (operation, result kind, errno) classes")
    assumptions = ["hand model of qvector.c validated on the explored histories only",
                   "the copy primitive of remove_at is extracted from the source by translator/vecprims.py (regex) and trusted as a translator",
                   "sequential behaviour only (lock calls are the business of C13/C14)",
                   "theorems assume fewer than 2^31 elements and `int` indexes",
                   "element arguments are objsize bytes long; allocation failure is exercised here only inside getnext walks (walk-retry stream); the rest is C15 (Props/C15Seq.lean, checks/seqoverlay.py)"]
    exhaustive_note = True

    def regenerate(self):
        from checks.seqcommon import regenerate_vecprims
        return regenerate_vecprims()

    # ------------------------------------------------------------------ generators
    def configs(self):
        """(objsize, options, initial capacity)"""
        out = []
        for os_ in (1, 3, 8, 64):
            for opt in (EXACT, LINEAR, DOUBLE):
                for cap in range(5):
                    out.append((os_, opt, cap))
        # option combinations: 0 = default (exact), DOUBLE|LINEAR = double, THREADSAFE bit ignored here
        out += [(2, 0, 1), (2, DOUBLE | LINEAR, 1), (2, LINEAR | EXACT, 2), (5, DOUBLE | EXACT, 0)]
        return out

    def gen_index_exhaustive(self, nmax, small=False):
        hs = []
        for os_, opt, cap in self.configs():
            if small and (os_ not in (1, 3) or cap not in (0, 2)):
                continue
            new = "new %d %d %d" % (cap, os_, opt)
            x, y = hexs(elem(os_, 200)), hexs(elem(os_, 201))
            for n in range(nmax + 1):
                idxs = list(range(-n - 2, n + 3))
                b = [new] + build(os_, n)
                h = list(b)
                for nm in (0, 1):
                    h += ["getat %d %d" % (i, nm) for i in idxs]
                    h += ["getfirst %d" % nm, "getlast %d" % nm, "walk %d" % nm]
                h += ["size", "toarray", "reset"] + ["next %d" % (k % 2) for k in range(n + 2)]
                hs.append(h)
                for i in idxs:
                    hs.append(b + ["addat %d %s" % (i, x), "addat %d %s" % (i, y)])
                    hs.append(b + ["setat %d %s" % (i, x)])
                    hs.append(b + ["popat %d" % i, "addlast " + x])
                    hs.append(b + ["removeat %d" % i, "addfirst " + x])
                    hs.append(b + ["addnull %d" % i])
                for op in ("addfirst " + x, "addlast " + x, "setfirst " + x, "setlast " + x, "popfirst", "poplast",
                           "removefirst", "removelast", "reverse", "clear"):
                    hs.append(b + [op, "walk 1", "toarray", "addlast " + y])
        return hs

    def gen_resize(self, nmax):
        hs = []
        for os_, opt, cap in self.configs():
            if os_ == 64 and cap != 0:
                continue
            new = "new %d %d %d" % (cap, os_, opt)
            for n in range(nmax + 1):
                for m in range(0, n + 3):
                    h = [new] + build(os_, n) + ["resize %d" % m]
                    # growth afterwards: refill beyond the new capacity, at both ends and in the middle
                    for k in range(max(0, m - min(n, m)) + 2):
                        h.append(["addlast ", "addfirst ", "addat 1 "][k % 3 if min(n, m) + k >= 1 else 0] + hexs(elem(os_, 100 + k)))
                    h += ["getat -1 1", "toarray", "popfirst", "resize %d" % m, "setat 0 " + hexs(elem(os_, 150)), "walk 0"]
                    hs.append(h)
            hs.append([new, "resize 0", "resize 0", "toarray", "addlast " + hexs(elem(os_, 1)), "resize 0", "getfirst 1", "reverse",
                       "addfirst " + hexs(elem(os_, 2)), "addfirst " + hexs(elem(os_, 3)), "reverse"])
        return hs

    def gen_sequences(self, length):
        hs = []
        os_ = 2
        a, b, c = (hexs(elem(os_, k)) for k in (1, 2, 3))
        alpha = ["addfirst " + a, "addlast " + b, "addat 1 " + c, "addat -1 " + a, "removefirst", "popat -1", "removeat 1",
                 "resize 0", "resize 1", "resize 3", "reverse", "clear", "setat -1 " + c]
        for opt in (EXACT, LINEAR, DOUBLE):
            for cap in (0, 1, 2):
                new = "new %d %d %d" % (cap, os_, opt)
                for L in range(1, length + 1):
                    for seq in itertools.product(alpha, repeat=L):
                        hs.append([new] + list(seq))
        return hs

    def gen_random(self, count, length):
        rng = self.rng
        hs = []
        for _ in range(count):
            os_ = rng.choice([1, 2, 3, 4, 8, 17, 64])
            opt = rng.randrange(16)          # every combination of the four documented option bits
            cap = rng.choice([0, 0, 1, 2, 3, 4, 7])
            h = ["new %d %d %d" % (cap, os_, opt)]
            ideal = seqideal.IdealVec(os_)
            for _ in range(length):
                n = len(ideal.s)
                idx = rng.randrange(-n - 2, n + 3)
                e = hexs(bytes(rng.choice([0, 0, 255, rng.randrange(256)]) for _ in range(os_)))
                r = rng.random()
                if r < 0.32:
                    op = rng.choice(["addfirst " + e, "addlast " + e, "addat %d %s" % (idx, e), "addat %d %s" % (idx, e)])
                elif r < 0.44:
                    op = rng.choice(["getat %d %d" % (idx, rng.randrange(2)), "getfirst 1", "getlast 0"])
                elif r < 0.52:
                    op = rng.choice(["setat %d %s" % (idx, e), "setfirst " + e, "setlast " + e])
                elif r < 0.70:
                    op = rng.choice(["popat %d" % idx, "removeat %d" % idx, "popfirst", "poplast", "removefirst", "removelast"])
                elif r < 0.77:
                    op = "resize %d" % rng.choice([0, 1, n, n + 1, n + 2, max(0, n - 1), max(0, n - 2), n // 2])
                elif r < 0.83:
                    op = rng.choice(["toarray", "walk 0", "walk 1", "size"])
                elif r < 0.87:
                    op = "reverse"
                elif r < 0.89:
                    op = "clear"
                elif r < 0.91:
                    op = "addnull %d" % idx
                elif r < 0.92:
                    op = "lockprobe"
                elif r < 0.93:
                    op = "inv"
                elif r < 0.95:
                    op = "reset"
                else:
                    op = "next %d" % rng.randrange(2)
                h.append(op)
                ideal.apply(op.split())
            hs.append(h)
        return hs

    # ------------------------------------------------------------------ glue around the modelled core
    def gen_option_words(self):
        """constructors with EVERY combination of the documented option bits (THREADSAFE 1, DOUBLE 2,
        LINEAR 4, EXACT 8; also two words with an undefined bit) x initial capacity 0..2 x element
        size: filled well beyond the capacity (several forced growths, at both ends and in the middle),
        emptied through resize(0) and filled again"""
        hs = []
        for opt in list(range(16)) + [16, 16 | DOUBLE | LINEAR]:
            hs.append(["new %d 0 %d" % (opt % 3, opt)])          # element size 0: refused (EINVAL), nothing allocated
            for cap in (0, 1, 2):
                for os_ in (1, 3, 8):
                    new = "new %d %d %d" % (cap, os_, opt)
                    h = [new, "inv"] + build(os_, cap + 3)
                    h += ["addfirst " + hexs(elem(os_, 90)), "addat 2 " + hexs(elem(os_, 91)), "addat -1 " + hexs(elem(os_, 92)), "inv"]
                    h += ["walk 1", "toarray", "popfirst", "removeat 1", "reverse", "resize 0", "inv"] + build(os_, cap + 2)
                    h += ["resize 1", "addlast " + hexs(elem(os_, 93)), "addlast " + hexs(elem(os_, 94)), "clear", "addlast " + hexs(elem(os_, 95)), "end"]
                    hs.append(h)
        return hs

    def gen_invalid(self):
        """`inv`: every documented-invalid call, toarray without the size pointer, getnext without a
        cursor, resize to the current capacity, on vectors of every small size"""
        hs = []
        for os_, opt, cap in [(1, EXACT, 0), (3, LINEAR, 2), (8, DOUBLE, 1), (2, DOUBLE | LINEAR | 1, 0)]:
            for n in range(6):
                hs.append(["new %d %d %d" % (cap, os_, opt)] + build(os_, n) + ["inv", "walk 0", "resize %d" % n, "inv",
                                                                              "addlast " + hexs(elem(os_, 77)), "inv", "clear", "inv", "end"])
        return hs

    def gen_walk_retry(self):
        """getnext with the caller's cursor under an allocation failure in the k-th call (newmem and
        not), the failed call RETRIED with the same cursor and the walk continued to its end"""
        hs = []
        for os_, opt, cap in [(1, EXACT, 0), (3, LINEAR | 1, 2), (8, DOUBLE, 1)]:
            for n in range(6):
                for nm in (1, 0):
                    for k in range(n + 1):
                        for arm in ("fault 1", "faultfrom 1", "fault 2"):
                            h = ["new %d %d %d" % (cap, os_, opt)] + build(os_, n) + ["reset"] + ["next %d" % nm] * k
                            h += [arm, "next %d" % nm] + ["next %d" % nm] * (n + 2 - k)
                            h += ["reset"]
                            for _ in range(n + 1):
                                h += ["fault 1", "next 1", "next 1"]
                            hs.append(h + ["next 0", "end"])
        return hs

    def gen_small_glue(self):
        """toarray / reverse / resize / walk on 0, 1, 2, 3 elements, resize to the element count and
        to the capacity, for each policy"""
        hs = []
        for os_, opt, cap in [(1, EXACT, 0), (2, LINEAR, 1), (5, DOUBLE, 2), (3, 0, 3)]:
            for n in range(4):
                b = ["new %d %d %d" % (cap, os_, opt)] + build(os_, n)
                hs.append(b + ["toarray", "reverse", "toarray", "walk 1", "resize %d" % n, "toarray", "reverse", "resize %d" % (n + 1),
                               "reverse", "toarray", "resize 0", "toarray", "reverse", "walk 0", "end"])
        return hs

    BIG_SIZES = [255, 256, 257, 300, 511, 512, 513, 1000, 4097]

    def gen_big_elements(self):
        """every operation that moves element bytes, on elements of 255 ... 4097 bytes (around the
        multiples of 256 / 512 / 4096) and one random size per run, with aperiodic contents; the whole
        of every element is compared after every operation (obs = getat copies, private dump = buffer)"""
        hs = []
        sizes = self.BIG_SIZES + [self.rng.randrange(258, 6000)]
        for i, os_ in enumerate(sizes):
            opt = (EXACT, LINEAR, DOUBLE)[i % 3] | (i & 1)
            cap = i % 3
            e = lambda k: hexs(bigelem(os_, k))
            h = ["new %d %d %d" % (cap, os_, opt), "addlast " + e(1), "addlast " + e(2), "reverse", "addlast " + e(3), "reverse",
                 "addfirst " + e(4), "addat 1 " + e(5), "addat -1 " + e(6), "setat -2 " + e(7), "setfirst " + e(8), "reverse",
                 "getat 0 1", "getat -1 0", "popat 1", "removefirst", "removeat -2", "toarray", "walk 1", "reset", "next 1", "next 0",
                 "resize 2", "reverse", "resize 5", "addlast " + e(9), "addfirst " + e(10), "reverse", "popfirst", "poplast",
                 "fault 1", "next 1", "next 1", "resize 1", "addlast " + e(11), "reverse", "toarray", "resize 0", "addlast " + e(12), "inv", "end"]
            hs.append(h)
        return hs

    def gen_resize_faults(self):
        """public resize to EVERY capacity in [0, n+2] with the realloc failing (and not failing):
        a reported failure leaves size, contents and capacity as they were - growing, same size and
        shrinking alike; also on THREADSAFE vectors"""
        hs = []
        for os_, opt, cap in [(1, EXACT, 0), (3, LINEAR | 1, 2), (8, DOUBLE, 1), (2, DOUBLE | LINEAR | 1, 0)]:
            for n in range(6):
                for m in range(n + 3):
                    for arm in ("fault 1", "faultfrom 1", "fault 2"):
                        hs.append(["new %d %d %d" % (cap, os_, opt)] + build(os_, n) +
                                  [arm, "resize %d" % m, "toarray", "resize %d" % m, "addlast " + hexs(elem(os_, 99)), "getat -1 1", "end"])
        return hs

    def gen_lockprobe(self):
        """`lockprobe` (harness/vector.c): inside lock() ... unlock() a nested addlast (addlast -> addat ->
        resize: three levels); a second thread must find the mutex busy until the outer unlock()"""
        hs = []
        for os_, opt, cap in [(1, EXACT | 1, 0), (3, LINEAR | 1, 1), (8, DOUBLE | 1, 2), (2, 1, 0), (2, EXACT, 0), (5, 15, 1)]:
            x = hexs(elem(os_, 9))
            hs.append(["new %d %d %d" % (cap, os_, opt), "lockprobe", "lockprobe", "addfirst " + x, "lockprobe", "reset", "next 1", "lockprobe",
                       "next 0", "resize 0", "lockprobe", "popfirst", "lockprobe", "walk 1", "inv", "end"])
        return hs

    def streams(self):
        quick = self.tier == "quick"
        sts = self.corpus_streams()
        sts.append(Stream("exhaustive-index", pack(self.gen_index_exhaustive(6 if quick else 8)), history=True,
                          note="every op x every index in [-n-2,n+2] x n<=6 x objsize {1,3,8,64} x 3 policies x capacity 0..4"))
        sts.append(Stream("resize", pack(self.gen_resize(6 if quick else 8)), history=True,
                          note="resize to every value in [0,n+2] followed by growth"))
        sts.append(Stream("sequences", pack(self.gen_sequences(3 if quick else 4)), history=True,
                          note="all op sequences up to the length bound over 13 ops x 3 policies x capacity 0..2"))
        sts.append(Stream("random", pack(self.gen_random(100 if quick else 1500, 120)), history=True))
        sts.append(Stream("big-elements", pack(self.gen_big_elements()), history=True,
                          note="element sizes 255,256,257,300,511,512,513,1000,4097 + one random size: reverse, shifting add, remove, set, "
                               "toarray, resize, getnext copies; aperiodic contents, every byte of every element compared after every op"))
        sts.append(Stream("resize-faults", pack(self.gen_resize_faults()), history=True,
                          note="resize to every capacity in [0,n+2] x failing / not failing realloc, n<=5, plain and THREADSAFE"))
        # the errno-reporting streams once more on THREADSAFE vectors (same ops, same expected lines)
        sts.append(Stream("exhaustive-index-ts", pack(ts_variant(self.gen_index_exhaustive(4 if quick else 6, small=True))), history=True,
                          note="exhaustive-index (objsize 1 and 3) on vectors created with QVECTOR_THREADSAFE"))
        sts.append(Stream("sequences-ts", pack(ts_variant(self.gen_sequences(2 if quick else 3))), history=True))
        sts.append(Stream("invalid-args-ts", pack(ts_variant(self.gen_invalid())), history=True))
        sts.append(Stream("lockprobe", pack(self.gen_lockprobe()), history=True,
                          note="nested public call inside lock()..unlock(): a second thread finds the mutex busy until the outer unlock"))
        sts.append(Stream("option-words", pack(self.gen_option_words()), history=True,
                          note="every combination of the 4 documented option bits (+2 words with an undefined bit) x capacity 0..2 x objsize {1,3,8}, "
                               "several forced growths, resize(0), refill"))
        sts.append(Stream("invalid-args", pack(self.gen_invalid()), history=True,
                          note="inv = every documented-invalid call + toarray(NULL size) + getnext(NULL) + resize to the current capacity, n<=5"))
        sts.append(Stream("walk-retry", pack(self.gen_walk_retry()), history=True,
                          note="getnext (newmem and not) failing in the k-th call, retried with the same cursor, walk completed; n<=5"))
        sts.append(Stream("small-glue", pack(self.gen_small_glue()), history=True,
                          note="toarray/reverse/resize/walk on 0..3 elements"))
        # element sizes N-1, N, N+1 around every integer constant of the CURRENT qvector.c (after preprocessing,
        # incl. products / shifts of literals), under every growth policy and from capacity 0, 1 and half the
        # final count: self-checking passes (fill, insert, remove, pop, reverse; every byte verified) (seed C10-m9)
        nums = [n for n in vlib.source_numbers(["src/containers/qvector.c"], hi=1 << 22) if n >= 300]
        bops = []
        for n in nums:
            for os_ in (n - 1, n, n + 1):
                for opt in (EXACT, LINEAR, DOUBLE):
                    for cap in ((0, 1, 5) if os_ == n + 1 or n < 70000 else (1,)):
                        bops.append("huge 9 %d %d %d" % (os_, opt, cap))
        sts.append(Stream("source-boundary-element-sizes", bops, history=False, nomodel=True,
                          note="self-checking passes with element sizes around the constants of the current source: %s" % nums))
        if not quick:
            # byte sizes beyond 2^31 (2^25+1 elements of 64 bytes is corpus/C10/huge_removeat_int_size.ops)
            sts.append(Stream("huge", ["huge 2049 1048576", "huge 4194305 512", "huge 4099 1048576"], history=False, nomodel=True,
                              note="self-checking passes of the harness over vectors of more than 2^31 (the last: 2^32) bytes: fill, addfirst, "
                                   "addat(+-k), removefirst, removeat, popat, reverse; every element verified after every step"))
        return sts

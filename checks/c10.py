"""C10 — vector is an exact array of fixed-size elements under every growth policy."""
import itertools, os
import vlib
from vlib import Stream, hexs
from checks import seqideal
from checks.seqcommon import SeqCheck, pack

DOUBLE, LINEAR, EXACT = 2, 4, 8


def elem(os_, k):
    """distinct element number k of size os_ (contains NUL bytes for some k)"""
    return bytes((k * 37 + j * 11) % 256 if (k + j) % 7 else 0 for j in range(os_ - 1)) + bytes([k % 256])


def build(os_, n):
    return ["addlast " + hexs(elem(os_, i + 1)) for i in range(n)]


class TheCheck(SeqCheck):
    prop = "C10"
    module = "vector"
    harness = "vector"
    mode = "vector"
    lib = "libqw.a"      # allocator traffic of the library is counted (allocs= / live= fields)
    rule = ("operation histories on qvector executed by the C library (ASan+UBSan+LSan build of the working tree) and by "
            "the Lean model; after every operation both print the API-level content (getat(i, newmem) for all i, size) and "
            "the private state (num, max, objsize, options, initnum, live slots of the buffer, the library's live block count) "
            "and the number of allocation attempts of the call; the oracle is an ideal "
            "Python list of fixed-size elements evaluated on the implementation's transcript; distinct_nontrivial = "
            "distinct (operation, result kind, errno) classes")
    assumptions = ["hand model of qvector.c validated on the explored histories only",
                   "the copy primitive of remove_at is extracted from the source by translator/vecprims.py (regex) and trusted as a translator",
                   "sequential behaviour only (lock calls are the business of C13/C14)",
                   "theorems assume fewer than 2^31 elements and `int` indexes",
                   "element arguments are objsize bytes long; allocation failure is not exercised here (C15: Props/C15Seq.lean, checks/seqoverlay.py)"]
    exhaustive_note = True

    def regenerate(self):
        from translator import vecprims
        out = os.path.join(vlib.LEAN, "QlibcModel/Generated/VectorPrims.lean")
        text = vecprims.render(vecprims.extract(vlib.REPO))
        if not os.path.exists(out) or open(out).read() != text:
            open(out, "w").write(text)
        return [out]

    # ------------------------------------------------------------------ generators
    def configs(self):
        """(objsize, options, initial capacity)"""
        out = []
        for os_ in (1, 3, 8, 64):
            for opt in (EXACT, LINEAR, DOUBLE):
                for cap in range(5):
                    out.append((os_, opt, cap))
        # option combinations: 0 = default (exact), DOUBLE|LINEAR = double, THREADSAFE bit ignored here
        out += [(2, 0, 1), (2, DOUBLE | LINEAR, 1), (2, LINEAR | EXACT, 2), (5, DOUBLE | EXACT, 0)]
        return out

    def gen_index_exhaustive(self, nmax):
        hs = []
        for os_, opt, cap in self.configs():
            new = "new %d %d %d" % (cap, os_, opt)
            x, y = hexs(elem(os_, 200)), hexs(elem(os_, 201))
            for n in range(nmax + 1):
                idxs = list(range(-n - 2, n + 3))
                b = [new] + build(os_, n)
                h = list(b)
                for nm in (0, 1):
                    h += ["getat %d %d" % (i, nm) for i in idxs]
                    h += ["getfirst %d" % nm, "getlast %d" % nm, "walk %d" % nm]
                h += ["size", "toarray", "reset"] + ["next %d" % (k % 2) for k in range(n + 2)]
                hs.append(h)
                for i in idxs:
                    hs.append(b + ["addat %d %s" % (i, x), "addat %d %s" % (i, y)])
                    hs.append(b + ["setat %d %s" % (i, x)])
                    hs.append(b + ["popat %d" % i, "addlast " + x])
                    hs.append(b + ["removeat %d" % i, "addfirst " + x])
                    hs.append(b + ["addnull %d" % i])
                for op in ("addfirst " + x, "addlast " + x, "setfirst " + x, "setlast " + x, "popfirst", "poplast",
                           "removefirst", "removelast", "reverse", "clear"):
                    hs.append(b + [op, "walk 1", "toarray", "addlast " + y])
        return hs

    def gen_resize(self, nmax):
        hs = []
        for os_, opt, cap in self.configs():
            if os_ == 64 and cap != 0:
                continue
            new = "new %d %d %d" % (cap, os_, opt)
            for n in range(nmax + 1):
                for m in range(0, n + 3):
                    h = [new] + build(os_, n) + ["resize %d" % m]
                    # growth afterwards: refill beyond the new capacity, at both ends and in the middle
                    for k in range(max(0, m - min(n, m)) + 2):
                        h.append(["addlast ", "addfirst ", "addat 1 "][k % 3 if min(n, m) + k >= 1 else 0] + hexs(elem(os_, 100 + k)))
                    h += ["getat -1 1", "toarray", "popfirst", "resize %d" % m, "setat 0 " + hexs(elem(os_, 150)), "walk 0"]
                    hs.append(h)
            hs.append([new, "resize 0", "resize 0", "toarray", "addlast " + hexs(elem(os_, 1)), "resize 0", "getfirst 1", "reverse",
                       "addfirst " + hexs(elem(os_, 2)), "addfirst " + hexs(elem(os_, 3)), "reverse"])
        return hs

    def gen_sequences(self, length):
        hs = []
        os_ = 2
        a, b, c = (hexs(elem(os_, k)) for k in (1, 2, 3))
        alpha = ["addfirst " + a, "addlast " + b, "addat 1 " + c, "addat -1 " + a, "removefirst", "popat -1", "removeat 1",
                 "resize 0", "resize 1", "resize 3", "reverse", "clear", "setat -1 " + c]
        for opt in (EXACT, LINEAR, DOUBLE):
            for cap in (0, 1, 2):
                new = "new %d %d %d" % (cap, os_, opt)
                for L in range(1, length + 1):
                    for seq in itertools.product(alpha, repeat=L):
                        hs.append([new] + list(seq))
        return hs

    def gen_random(self, count, length):
        rng = self.rng
        hs = []
        for _ in range(count):
            os_ = rng.choice([1, 2, 3, 4, 8, 17, 64])
            opt = rng.choice([0, EXACT, LINEAR, DOUBLE, DOUBLE | LINEAR])
            cap = rng.choice([0, 0, 1, 2, 3, 4, 7])
            h = ["new %d %d %d" % (cap, os_, opt)]
            ideal = seqideal.IdealVec(os_)
            for _ in range(length):
                n = len(ideal.s)
                idx = rng.randrange(-n - 2, n + 3)
                e = hexs(bytes(rng.choice([0, 0, 255, rng.randrange(256)]) for _ in range(os_)))
                r = rng.random()
                if r < 0.32:
                    op = rng.choice(["addfirst " + e, "addlast " + e, "addat %d %s" % (idx, e), "addat %d %s" % (idx, e)])
                elif r < 0.44:
                    op = rng.choice(["getat %d %d" % (idx, rng.randrange(2)), "getfirst 1", "getlast 0"])
                elif r < 0.52:
                    op = rng.choice(["setat %d %s" % (idx, e), "setfirst " + e, "setlast " + e])
                elif r < 0.70:
                    op = rng.choice(["popat %d" % idx, "removeat %d" % idx, "popfirst", "poplast", "removefirst", "removelast"])
                elif r < 0.77:
                    op = "resize %d" % rng.choice([0, 1, n, n + 1, n + 2, max(0, n - 1), max(0, n - 2), n // 2])
                elif r < 0.83:
                    op = rng.choice(["toarray", "walk 0", "walk 1", "size"])
                elif r < 0.87:
                    op = "reverse"
                elif r < 0.89:
                    op = "clear"
                elif r < 0.91:
                    op = "addnull %d" % idx
                elif r < 0.94:
                    op = "reset"
                else:
                    op = "next %d" % rng.randrange(2)
                h.append(op)
                ideal.apply(op.split())
            hs.append(h)
        return hs

    def streams(self):
        quick = self.tier == "quick"
        sts = self.corpus_streams()
        sts.append(Stream("exhaustive-index", pack(self.gen_index_exhaustive(6 if quick else 8)), history=True,
                          note="every op x every index in [-n-2,n+2] x n<=6 x objsize {1,3,8,64} x 3 policies x capacity 0..4"))
        sts.append(Stream("resize", pack(self.gen_resize(6 if quick else 8)), history=True,
                          note="resize to every value in [0,n+2] followed by growth"))
        sts.append(Stream("sequences", pack(self.gen_sequences(3 if quick else 4)), history=True,
                          note="all op sequences up to the length bound over 13 ops x 3 policies x capacity 0..2"))
        sts.append(Stream("random", pack(self.gen_random(100 if quick else 1500, 120)), history=True))
        if not quick:
            # byte sizes beyond 2^31 (2^25+1 elements of 64 bytes is corpus/C10/huge_removeat_int_size.ops)
            sts.append(Stream("huge", ["huge 2049 1048576", "huge 4194305 512", "huge 4099 1048576"], history=False, nomodel=True,
                              note="self-checking passes of the harness over vectors of more than 2^31 (the last: 2^32) bytes: fill, addfirst, "
                                   "addat(+-k), removefirst, removeat, popat, reverse; every element verified after every step"))
        return sts

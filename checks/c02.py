"""C02 — tree table stays a valid left-leaning red-black tree (logarithmic lookups)."""
from checks.treecommon import TreeCheck
from vlib import Stream, hexs


class TheCheck(TreeCheck):
    prop = "C02"
    aspects = ("shape",)
    rule = ("every tree state reachable with a bounded key universe (BFS driven through the C code) plus random and "
            "ordered insertion histories; after EVERY operation the dumped tree is checked against an independent "
            "LLRB predicate and qtreetbl_check(); distinct_nontrivial = distinct (operation, result, shape) triples")

    def streams(self):
        big = self.tier != "quick"
        sts = self.corpus_streams()
        # "whether it succeeded or failed": every reachable state is also probed with puts whose
        # allocation fails (new key: 1st/2nd/3rd allocation; replacement: the value copy)
        def probes(keys):
            out = ["get %s" % hexs(keys[0])]
            for k in (1, 2, 3):
                out += ["fault %d" % k, "put %s 7879" % hexs(b"k99\0"), "fault %d" % k, "put %s 7879" % hexs(b"k03x\0")]
            out += ["fault 1", "put %s 5a" % hexs(keys[2]), "dump"]
            return out
        sts.append(self.bfs_stream(8 if not big else 11, 200000, probes))
        n = 1200 if not big else 15000
        sts.append(Stream("random", self.random_history(n, 80 if not big else 1500, 0, ops=("put", "put", "rm", "get"), quiet=False if not big else True), history=True))
        # ascending / descending / organ-pipe insertion orders, then lookups (cost bound)
        m = 600 if not big else 10000
        for name, order in (("asc", range(m)), ("desc", range(m - 1, -1, -1)),
                            ("organ", [x for p in zip(range(m // 2), range(m - 1, m // 2 - 1, -1)) for x in p])):
            ops = ["new 0", "quiet 1"]
            ops += ["put %s 76" % hexs(b"%06d" % i) for i in order]
            ops += ["dump"] + ["get %s" % hexs(b"%06d" % i) for i in range(0, m, max(1, m // 200))]
            ops += ["rm %s" % hexs(b"%06d" % i) for i in range(0, m, 3)] + ["dump"]
            ops += ["get %s" % hexs(b"%06d" % i) for i in range(1, m, max(1, m // 200))]
            sts.append(Stream("ordered-" + name, ops, history=True))
        return sts

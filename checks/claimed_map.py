"""CLAIMED entries for C05/C08 (map builder's checks; text by the integrator from its report)."""

CLAIMED = {
    "C05": dict(
        text="Lean 4 theorems over a mechanism-level model of qhashtbl.c (slots of chains, insert at head, (hash, strcmp) "
             "match, replace in place, unlink with prev, getnext cursor idx/next), for ANY hash function and every range: "
             "put/get/remove/clear/size refine an ideal association map; history_refines: every operation list (put, "
             "putstr, putint, get, getint, remove, clear, size) from an empty table of any range returns exactly the ideal "
             "map's outputs; remove unlinks only the key (other chains untouched, own chain filtered); a getnext walk over "
             "an unmodified table returns each key exactly once (a permutation of the map) and then ends; putint/getint "
             "decimal round trip for all 64-bit values. Tied to the code by a differential correspondence run dumping the "
             "chain layout after every operation: ranges 1,2,3,7,1000, brute-forced 32-bit hash collisions, removal of "
             "head/middle/tail of chains, exhaustive short sequences, random histories.",
        note="trusted: Lean kernel, hand transcription of qhashtbl.c (validated on explored histories), gcc/ASan; the "
             "key's hash travels on the op line (pure-Python MurmurHash3) and is compared with the hash the C code stored; "
             "range <= 2^31; atoll saturates like glibc strtoll.",
        technique="Lean 4 proof (refinement to an association map by induction over operation histories, walk invariant) "
                  "+ differential correspondence",
        design="7/C05"),
    "C08": dict(
        text="Lean 4 theorems over a mechanism-level model of qlisttbl.c, for any hash function and ALL 16 combinations of "
             "UNIQUE/CASEINSENSITIVE/INSERTTOP/LOOKUPFORWARD: put appends/prepends and (unique) first removes every equal "
             "key; get = first match in lookup direction; getmulti and named walks = all matches in lookup order; remove "
             "deletes exactly the matches and returns their number; removing the entry just returned (first/last/only/"
             "middle, any mask) during a walk visits every remaining entry once; size exact; the bubble sort as written "
             "sorts, permutes and is stable; save then load of admissible names and arbitrary NUL-free string values "
             "reproduces the same entries in the same order and returns their number (uses the URL codec round trip "
             "proved on the C16 model); history_refines. Tied to the code by a differential correspondence run over all 16 "
             "option vectors (exhaustive short sequences over keys differing only in case, removal during walks, "
             "save/load with all 255 non-NUL byte values, random histories) comparing node order, links and hashes.",
        note="trusted: Lean kernel, hand transcription of qlisttbl.c (validated on explored histories), gcc/ASan; name hash "
             "carried on op lines and cross-checked; strcasecmp = ASCII folding (C locale); the saved file's time-stamp "
             "comment is stripped. One defect of the pinned tree repaired first (load returned 0).",
        technique="Lean 4 proof (list induction per operation, loop invariants for the sort, history induction) + differential correspondence",
        design="7/C08"),
}

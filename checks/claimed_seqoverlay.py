"""Text for gen_manifest.py's CLAIMED table: the list / queue / stack / grow buffer / vector part
of the cross-container properties C11, C12, C15 (kept here by the overlay builder so that the
integrator can merge it into the entries of those properties; not imported by anything)."""

CLAIMED_PART = {
    "C15": dict(
        text="qlist/qqueue/qstack/qgrow/qvector: Lean 4 theorems (Props/C15Seq.lean) over allocation-plan forms of "
             "every allocating operation and constructor (Seq/Fault.lean: same order of malloc/calloc/realloc calls "
             "as the C functions, attempt counts compared with the allocator wrapper's on every call): for EVERY plan "
             "a call either reports ENOMEM and returns the very same state or is exactly the plain operation "
             "(*_fault_atomic, *_step_fault_atomic), which never reports ENOMEM; a constructor that returns NULL has "
             "nothing allocated (*_ctor_fault, incl. the thread-safe variants); every history from the constructor "
             "with an arbitrary plan per call ends in a well-formed container whose contents are the ideal "
             "sequence's on the calls that did not report ENOMEM, which returned what the ideal returns "
             "(list/queue/stack/grow/vector_history_under_faults: fault_then_normal by induction over histories). "
             "Tied to the code by the fault enumeration (every allocating operation x prefix states x failure at the "
             "1st..last+1 allocation, single and all-from-k, thread-safe and plain) and random histories with random "
             "failures; oracle = ideal Python sequence accepting a correct completion or ENOMEM with unchanged "
             "contents, ledger after every call.",
        note="one defect of the pinned tree repaired: qvector() leaked the element buffer when the mutex could not "
             "be created. qlist_getnext(newmem) relies on malloc() to set errno = ENOMEM (POSIX); modelled as is.",
    ),
    "C11": dict(
        text="qlist/qqueue/qstack/qgrow/qvector: ledger theorems (Props/C11Seq.lean): blocks owned = handle + mutex + "
             "2 per element (list family; + wrapper handle) resp. handle + mutex + buffer iff capacity > 0 (vector), "
             "a function of the abstract contents; +2 / -2 per successful insertion / removal, unchanged by refused "
             "calls; constructors hand over exactly the ledger's blocks or nothing; exact after every history under "
             "arbitrary allocation plans. The harness prints the library's live block count after EVERY operation of "
             "the C09/C10/C11/C12/C15 streams (compared with the model's ledger, and by the oracle with the ideal "
             "contents) and `end live=0` after the free function.",
    ),
    "C12": dict(
        text="qlist/qqueue/qstack/qgrow/qvector: caller buffers are overwritten (0xAA) and freed right after every "
             "add/push/set; every copy handed out by getat/getfirst/getlast(newmem), pop*, popstr/getstr, toarray, "
             "tostring, getnext(newmem) is kept with a private duplicate and re-compared after later mutations, "
             "clear and after the container was freed (`bad=0`), under ASan.",
    ),
}

"""C18 — hash functions equal their published algorithms for every input.

Oracle (judge): hashlib.md5 and pure-Python MurmurHash3 (x86_32, x64_128) / FNV-1 (32, 64) written
from the publications (Appleby's MurmurHash3.cpp; Fowler/Noll/Vo's description), evaluated on the
implementation's transcript.  The oracle knows nothing of qlibc's code or of the Lean model.
"""
import hashlib, os, struct, subprocess
import vlib
from vlib import Check, Stream, hexs

M32, M64 = 0xFFFFFFFF, 0xFFFFFFFFFFFFFFFF


# ---------------------------------------------------------------- reference algorithms

def fnv1(data, bits):
    """FNV-1: hash = offset_basis; for each octet: hash = hash * FNV_prime; hash = hash xor octet"""
    if bits == 32:
        h, prime, mask = 0x811C9DC5, 0x01000193, M32
    else:
        h, prime, mask = 0xCBF29CE484222325, 0x100000001B3, M64
    for c in data:
        h = (h * prime) & mask
        h ^= c
    return h


def rotl32(x, r):
    return ((x << r) | (x >> (32 - r))) & M32


def rotl64(x, r):
    return ((x << r) | (x >> (64 - r))) & M64


def fmix32(h):
    h ^= h >> 16
    h = (h * 0x85ebca6b) & M32
    h ^= h >> 13
    h = (h * 0xc2b2ae35) & M32
    h ^= h >> 16
    return h


def fmix64(k):
    k ^= k >> 33
    k = (k * 0xff51afd7ed558ccd) & M64
    k ^= k >> 33
    k = (k * 0xc4ceb9fe1a85ec53) & M64
    k ^= k >> 33
    return k


def murmur3_x86_32(data, seed=0):
    c1, c2 = 0xcc9e2d51, 0x1b873593
    n = len(data)
    h1 = seed
    nblocks = n // 4
    for i in range(nblocks):
        k1 = struct.unpack_from("<I", data, 4 * i)[0]
        k1 = (k1 * c1) & M32
        k1 = rotl32(k1, 15)
        k1 = (k1 * c2) & M32
        h1 ^= k1
        h1 = rotl32(h1, 13)
        h1 = (h1 * 5 + 0xe6546b64) & M32
    tail = data[4 * nblocks:]
    k1 = 0
    r = n & 3
    if r >= 3:
        k1 ^= tail[2] << 16
    if r >= 2:
        k1 ^= tail[1] << 8
    if r >= 1:
        k1 ^= tail[0]
        k1 = (k1 * c1) & M32
        k1 = rotl32(k1, 15)
        k1 = (k1 * c2) & M32
        h1 ^= k1
    h1 ^= n & M32
    return fmix32(h1)


def murmur3_x64_128(data, seed=0):
    c1, c2 = 0x87c37b91114253d5, 0x4cf5ad432745937f
    n = len(data)
    h1 = h2 = seed
    nblocks = n // 16
    for i in range(nblocks):
        k1, k2 = struct.unpack_from("<QQ", data, 16 * i)
        k1 = (k1 * c1) & M64; k1 = rotl64(k1, 31); k1 = (k1 * c2) & M64; h1 ^= k1
        h1 = rotl64(h1, 27); h1 = (h1 + h2) & M64; h1 = (h1 * 5 + 0x52dce729) & M64
        k2 = (k2 * c2) & M64; k2 = rotl64(k2, 33); k2 = (k2 * c1) & M64; h2 ^= k2
        h2 = rotl64(h2, 31); h2 = (h2 + h1) & M64; h2 = (h2 * 5 + 0x38495ab5) & M64
    tail = data[16 * nblocks:]
    k1 = k2 = 0
    r = n & 15
    for j in range(r - 1, 7, -1):          # tail[14] .. tail[8]
        k2 ^= tail[j] << (8 * (j - 8))
    if r >= 9:
        k2 = (k2 * c2) & M64; k2 = rotl64(k2, 33); k2 = (k2 * c1) & M64; h2 ^= k2
    for j in range(min(r, 8) - 1, -1, -1):  # tail[7] .. tail[0]
        k1 ^= tail[j] << (8 * j)
    if r >= 1:
        k1 = (k1 * c1) & M64; k1 = rotl64(k1, 31); k1 = (k1 * c2) & M64; h1 ^= k1
    h1 ^= n; h2 ^= n
    h1 = (h1 + h2) & M64; h2 = (h2 + h1) & M64
    h1 = fmix64(h1); h2 = fmix64(h2)
    h1 = (h1 + h2) & M64; h2 = (h2 + h1) & M64
    return struct.pack("<QQ", h1, h2)


def self_test():
    """published vectors for the oracle itself (SMHasher verification values, FNV test suite)"""
    def smhasher(fn, nbytes):
        buf = b""
        for i in range(256):
            buf += fn(bytes(range(i)), 256 - i)
        return struct.unpack("<I", fn(buf, 0)[:4])[0]
    assert smhasher(lambda d, s: struct.pack("<I", murmur3_x86_32(d, s)), 4) == 0xB0F57EE3
    assert smhasher(murmur3_x64_128, 16) == 0x6384BA69
    assert fnv1(b"", 32) == 0x811c9dc5 and fnv1(b"a", 32) == 0x050c5d7e and fnv1(b"foobar", 32) == 0x31f0b262
    assert fnv1(b"a", 64) == 0xaf63bd4c8601b7be and fnv1(b"foobar", 64) == 0x340d8765a4dda9c2


def lcg_bytes(size, seed):
    x, out = seed & M32, bytearray(size)
    for i in range(size):
        x = (x * 1103515245 + 12345) & M32
        out[i] = (x >> 16) & 0xFF
    return bytes(out)


def pattern_block(seed):
    """the 251-byte block of the harness' `big` op"""
    return lcg_bytes(251, seed)


def md5_pattern(n, seed):
    """hashlib.md5 of the `big` buffer (block * k + block[:r]) without materialising it"""
    blk = pattern_block(seed)
    big = blk * 8192
    h = hashlib.md5()
    k, r = divmod(n, len(big))
    for _ in range(k):
        h.update(big)
    k2, r2 = divmod(r, 251)
    h.update(blk * k2 + blk[:r2])
    return h.hexdigest()


_REF = {}


def ref_binary():
    """checks/hashref.c (MurmurHash3 / FNV-1 from the publications, native speed) compiled with plain
    gcc -O2; cross-checked against the pure-Python references of this file before use"""
    if "bin" in _REF:
        return _REF["bin"]
    src = os.path.join(os.path.dirname(os.path.abspath(__file__)), "hashref.c")
    tag = hashlib.sha256(open(src, "rb").read()).hexdigest()[:12]
    out = os.path.join(vlib.BUILD, "hashref-" + tag)
    os.makedirs(vlib.BUILD, exist_ok=True)
    if not os.path.exists(out):
        r = vlib.sh(["gcc", "-O2", "-o", out + ".tmp%d" % os.getpid(), src])
        if r.returncode != 0:
            raise RuntimeError("checks/hashref.c does not compile: " + r.stderr[:500])
        os.rename(out + ".tmp%d" % os.getpid(), out)
    for n, seed in [(0, 1), (1, 2), (3, 3), (15, 4), (16, 5), (17, 6), (250, 7), (251, 8), (252, 9), (1000, 10), (4099, 11)]:
        blk = pattern_block(seed)
        x = blk * (n // 251) + blk[:n % 251]
        got = ref_values(out, n, seed, ["fnv32", "fnv64", "m32", "m128"])
        want = {k: expect(k, x) for k in ("fnv32", "fnv64", "m32", "m128")}
        if got != want:
            raise RuntimeError("checks/hashref.c disagrees with the Python references at n=%d: %r vs %r" % (n, got, want))
    _REF["bin"] = out
    return out


def ref_values(binary, n, seed, kinds):
    r = subprocess.run([binary, str(n), str(seed)] + list(kinds), capture_output=True, text=True, timeout=600)
    if r.returncode != 0:
        raise RuntimeError("hashref failed (rc=%d)" % r.returncode)
    return dict(l.split("=", 1) for l in r.stdout.split())


def unhex(w):
    return b"" if w == "-" else bytes.fromhex(w)


def expect(kind, x):
    """the published algorithm's result in the harness' canonical spelling (non-empty input)"""
    if kind == "md5":
        return hashlib.md5(x).hexdigest()
    if kind == "fnv32":
        return "%08x" % fnv1(x, 32)
    if kind == "fnv64":
        return "%016x" % fnv1(x, 64)
    if kind in ("murmur32", "m32"):
        return "%08x" % murmur3_x86_32(x)
    if kind in ("murmur128", "m128"):
        return murmur3_x64_128(x).hex()
    raise KeyError(kind)


class TheCheck(Check):
    prop = "C18"
    module = "hash"
    harness = "hash"
    wraps = ("read",)
    rule = ("hash operations executed by the C functions (ASan+UBSan build; data in exactly sized malloc blocks at "
            "alignment offsets 0-7, every call repeated at another alignment with trailing garbage) and by the Lean "
            "model; distinct_nontrivial = distinct (operation, length, alignment, content class) keys with length > 0")
    exhaustive_note = "every length 1..600 x alignment offset 0..7 x 5 content classes (fresh content per op), all five functions"
    assumptions = ["hand model of the loops of qhash.c / md5c.c validated on the explored inputs only",
                   "constants, MD5 step table, shift lists regenerated from the source (translator/md5steps.py: gcc -E + regex) and trusted as a translator",
                   "huge inputs (2^29 .. 2^32-64 bytes) are checked implementation-vs-oracle only (hashlib.md5; checks/hashref.c for murmur/FNV, itself cross-checked against the Python references each run); the model's bit-count bookkeeping is compared at those lengths without data (md5len)",
                   "little-endian x86-64; murmur: nbytes < 2^31 (int block arithmetic); MD5: nbytes + 64 <= 2^32 (unsigned int inputLen); regular file that does not change during qhashmd5_file, read() returns >= 1 byte before EOF"]

    def regenerate(self):
        from translator import md5steps
        out = os.path.join(vlib.LEAN, "QlibcModel/Generated/HashConsts.lean")
        self.translator_error = None
        try:
            text = md5steps.render(md5steps.extract(vlib.REPO))
        except SystemExit as e:
            # the generated file keeps its last content (the model of the last translatable
            # source); the failure is a broken obligation of this run, see extra()
            self.translator_error = str(e)
            raise
        if not os.path.exists(out) or open(out).read() != text:
            open(out, "w").write(text)
        return [out]

    # ------------------------------------------------------------ streams
    def content(self, cls, n):
        rng = self.rng
        if cls == "rand":
            return bytes(rng.getrandbits(8) for _ in range(n))
        if cls == "zero":
            return bytes(n)
        if cls == "ff":
            return b"\xff" * n
        if cls == "nul":                       # random bytes with embedded NULs (first/last/inside)
            b = bytearray(rng.randrange(1, 256) for _ in range(n))
            for _ in range(1 + n // 16):
                b[rng.randrange(n)] = 0
            if rng.random() < 0.3:
                b[0] = 0
            if rng.random() < 0.3:
                b[-1] = 0
            return bytes(b)
        if cls == "hi":                        # every byte >= 0x80 (signedness of char)
            return bytes(rng.randrange(0x80, 0x100) for _ in range(n))
        raise KeyError(cls)

    def streams(self):
        self_test()
        rng = self.rng
        sts = []
        self.files = {}
        corpus = os.path.join(vlib.ROOT, "corpus", "C18")
        for f in sorted(os.listdir(corpus)) if os.path.isdir(corpus) else []:
            ops = [l.strip() for l in open(os.path.join(corpus, f)) if l.strip()]
            sts.append(Stream("corpus:" + f, ops, history=any(o.startswith("mkfile") for o in ops)))
        quick = self.tier == "quick"
        # 1. every length 1..600 x all 8 alignment offsets x content class; all five functions per op
        #    (`all`), fresh content per op.  Thorough: additionally every length 601..2048 and every
        #    3rd up to 4096 (alignment and class rotating; the list-based model is O(n^2)).
        classes = ["rand", "zero", "ff", "nul", "hi"]
        for cls in classes:
            ops = []
            for n in range(1, 601):
                for off in range(8):
                    ops.append("all %d %s" % (off, hexs(self.content(cls, n))))
            sts.append(Stream("lengths-1-600:%s" % cls, ops, note="every length x alignment offsets 0-7"))
        if not quick:
            ops = []
            for n in list(range(601, 2049)) + list(range(2049, 4097, 3)):
                ops.append("all %d %s" % (n % 8, hexs(self.content(classes[n % 5], n))))
            sts.append(Stream("lengths-601-4096", ops))
        # 2. single-function ops + the empty string (outside the property's quantifier: compared
        #    with the model only) + larger random sizes
        ops = []
        for kind in ("md5", "fnv32", "fnv64", "murmur32", "murmur128"):
            ops.append("%s 0 -" % kind)
            for n in list(range(1, 40)) + [55, 56, 57, 63, 64, 65, 119, 120, 121, 127, 128, 129]:
                ops.append("%s %d %s" % (kind, rng.randrange(8), hexs(self.content(rng.choice(classes), n))))
        for _ in range(10 if quick else 100):
            n = rng.choice([rng.randrange(600, 5000), rng.randrange(600, 5000), rng.randrange(5000, 16000)])
            ops.append("all %d %s" % (rng.randrange(8), hexs(self.content(rng.choice(classes), n))))
        sts.append(Stream("single-ops-and-large", ops))
        # 3. MD5 contexts under chunked updates: every split of short messages into two chunks
        #    around the 64-byte boundary, random multi-chunk splits (empty chunks included)
        ops = []
        for total in (1, 55, 56, 63, 64, 65, 119, 120, 128, 130):
            x = self.content("rand", total)
            for cut in range(0, total + 1, 1 if quick and total <= 65 else 7 if quick else 1):
                ops.append("md5chunks %s %s" % (hexs(x[:cut]), hexs(x[cut:])))
        for _ in range(150 if quick else 2000):
            k = rng.randrange(1, 8)
            chunks = [self.content(rng.choice(classes), n) if n else b"" for n in
                      (rng.choice([0, 1, rng.randrange(1, 70), rng.randrange(1, 70), rng.randrange(60, 200)]) for _ in range(k))]
            ops.append("md5chunks " + " ".join(hexs(c) for c in chunks))
        ops.append("md5chunks")
        sts.append(Stream("md5-chunked-updates", ops))
        # 3b. the 64-bit bit count: contexts whose count is preset (public struct fields) close to
        #     the carry from count[0] into count[1] and close to the wrap at 2^64
        ops = []
        for _ in range(120 if quick else 1500):
            total = 0
            chunks = [self.content("rand", rng.choice([1, rng.randrange(1, 70), rng.randrange(1, 300)])) for _ in range(rng.randrange(1, 5))]
            total = sum(len(c) for c in chunks)
            c0 = (rng.choice([1 << 32, 1 << 32, 1 << 31]) - 8 * rng.randrange(0, total + 3)) & M32
            c1 = rng.choice([0, 1, rng.getrandbits(32), M32, M32])
            ops.append("md5cnt %d %d %s" % (c0, c1, " ".join(hexs(c) for c in chunks)))
        sts.append(Stream("md5-bit-count-carry", ops))
        # 3c. huge inputs (implementation vs oracle only: no Lean model line).  A single MD5Update of
        #     >= 2^29 bytes is where `count[1] += inputLen >> 29` is non-zero; the murmur functions use
        #     `int` block arithmetic (specified below 2^31 bytes).  Buffers are exactly sized, pattern
        #     = 251-byte seeded block repeated.
        P29, P30, P31 = 1 << 29, 1 << 30, 1 << 31
        sd = lambda: rng.randrange(1, 1 << 31)
        ops = ["big %d %d md5" % (P29 - 1, sd()), "big %d %d md5 m32 m128" % (P29, sd()),
               "big %d %d md5" % (P29 + 12345, sd())]
        if not quick:
            ops += ["big %d %d fnv32 fnv64" % (P29, sd()),
                    "big %d %d md5 m32 m128" % (P30 + 7, sd()),
                    "big %d %d md5 fnv32 fnv64 m32 m128" % (P31 - 1, sd()),
                    "big %d %d md5" % (P31 + 5, sd()), "big %d %d md5" % (3 * P30, sd()),
                    "big %d %d md5" % ((1 << 32) - 64, sd()),
                    # FNV-1 takes a size_t: lengths at and beyond 2^32 (a 32-bit loop counter stops early)
                    "big %d %d fnv32 fnv64" % ((1 << 32) - 1, sd()), "big %d %d fnv32 fnv64" % (1 << 32, sd()),
                    "big %d %d fnv32 fnv64" % ((1 << 32) + 1000, sd())]
        sts.append(Stream("huge-inputs", ops, nomodel=True, note="impl vs oracle only; exactly sized buffers"))
        # 3d. the length bookkeeping of ONE MD5Update call (model: countUpdate/bufIndex without data):
        #     many cheap lengths from preset counts, and lengths >= 2^29 (the `>> 29` term)
        ops = []
        for _ in range(150 if quick else 1500):
            ln = rng.choice([0, 1, rng.randrange(0, 64), rng.randrange(0, 5000), rng.randrange(0, 1 << 16)])
            c0 = rng.choice([0, rng.getrandbits(32), ((1 << 32) - 8 * rng.randrange(0, ln + 3)) & M32])
            ops.append("md5len %d %d %d" % (c0, rng.choice([0, rng.getrandbits(32), M32]), ln))
        big_lens = [P29] if quick else [P29 - 1, P29, P29 + 64, P30 + 9, P31, 3 * P30 + 11, (1 << 32) - 64]
        for ln in big_lens:
            ops.append("md5len %d %d %d" % (((1 << 32) - 8 * rng.randrange(1, 64)) & M32, rng.choice([5, M32]), ln))
        sts.append(Stream("md5-length-bookkeeping", ops))
        # 4. file ranges with short reads
        ops = []
        for fi in range(2 if quick else 6):
            size = [100 * 1024, 70000, 1, 64, 32768, 65536 + 17][fi]
            seed = rng.randrange(1 << 31)
            ops.append("mkfile %d %d" % (size, seed))
            for _ in range(40 if quick else 150):
                sel = rng.randrange(6)
                if sel == 0:
                    off, nb = 0, 0
                elif sel == 1:
                    off, nb = rng.randrange(size), 0
                elif sel == 2:                   # beyond the end: must be refused
                    off = rng.randrange(size + 1); nb = size - off + rng.randrange(1, 5)
                else:
                    off = rng.choice([rng.randrange(size), rng.randrange(size),
                                      min(size - 1, rng.choice([0, 1, 2, 63, 64, 65, 32767, 32768, 32769])),
                                      size - 1 - min(size - 1, rng.choice([0, 1, 63, 64]))])
                    nb = rng.randrange(1, size - off + 1)
                    if rng.random() < 0.5:
                        nb = min(nb, rng.choice([1, 2, 55, 56, 63, 64, 65, 1000, 32767, 32768, 32769, 40000, 65536, 65537]))
                sched = [rng.choice([1, 2, 63, 64, 65, 100, 4096, 32767, 32768, 40000]) for _ in range(rng.randrange(0, 12))]
                ops.append("md5file %d %d%s" % (off, nb, "".join(" %d" % k for k in sched)))
            ops.append("md5file %d 0" % size)
            if size >= 70000:
                # concurrent callers on different ranges of the same file (the function takes no lock)
                for _ in range(2 if quick else 6):
                    rs = []
                    for _r in range(4):
                        off = rng.randrange(size - 40000)
                        rs += [off, rng.randrange(33000, size - off + 1)]
                    ops.append("md5filemt 4 %d %s" % (6 if quick else 20, " ".join(map(str, rs))))
        sts.append(Stream("md5-file-ranges", ops, history=True, note="short reads via --wrap=read"))
        # 5. every function called from several threads at once, each thread on its own input
        ops = []
        for ln in ([1, 55, 64, 300, 5000, 20000] if quick else [1, 3, 15, 16, 55, 56, 64, 65, 300, 5000, 70000, 300000]):
            x = bytes(rng.randrange(256) for _ in range(ln))
            ops.append("allmt %d %d %s" % (4 if quick else 8, 40 if ln < 5000 else 8, hexs(x)))
        # implementation vs oracle only: the references decide every digest; the Lean model of MD5 on
        # 300 KB lists x 8 rotations needs more than the driver's time limit in the thorough tier
        sts.append(Stream("concurrent-callers", ops, nomodel=True, note="pure functions: no hidden shared state"))
        return sts

    # ------------------------------------------------------------ oracle
    def judge_history(self, ops, impl_lines):
        self._file = None                      # (size, bytes) of the data file of this history
        return Check.judge_history(self, ops, impl_lines)

    def judge_file(self, w, l):
        if w[0] == "mkfile":
            size, seed = int(w[1]), int(w[2])
            self._file = (size, lcg_bytes(size, seed))
            return None
        if getattr(self, "_file", None) is None:
            return None
        size, data = self._file
        off, nb = int(w[1]), int(w[2])
        if off + nb > size:
            want = "false"
        else:
            rng_ = data[off:] if nb == 0 else data[off:off + nb]
            want = "ok " + hashlib.md5(rng_).hexdigest()
            if not rng_:
                return None                    # empty range: outside the property
        if l != want:
            return ("qhashmd5_file(offset=%d, nbytes=%d) of a %d-byte file gives `%s`, RFC 1321 MD5 of that "
                    "range is `%s`" % (off, nb, size, l, want))
        return None

    def judge(self, op, line):
        w = op.split()
        kind = w[0]
        if kind in ("mkfile", "md5file"):
            return self.judge_file(w, line)
        if kind in ("allmt", "md5filemt"):
            # called from several threads at once every call still returns the published function
            # of ITS arguments (no hidden shared state)
            parts = line.split(" | ")
            T = int(w[1])
            if parts[0] != "ok" or len(parts) != T + 1:
                return "incomplete result line (the harness died during this operation?): `%s`" % line[:160]
            if "UNSTABLE" in line:
                t = next(i for i, p_ in enumerate(parts[1:]) if "UNSTABLE" in p_)
                return "thread %d of %d concurrent callers got different results for the SAME arguments in different rounds: %s" % (t, T, parts[1 + t][:120])
            if kind == "allmt":
                x = unhex(w[3])
                for t in range(T):
                    xt = x[t % len(x):] + x[:t % len(x)]
                    got = dict(f.split("=", 1) for f in parts[1 + t].split() if "=" in f)
                    for k in ("md5", "fnv32", "fnv64", "m32", "m128"):
                        if got.get(k) != expect(k, xt):
                            return "%s of %d bytes called from thread %d of %d concurrent callers gives `%s`, the published algorithm gives `%s`" % (k, len(xt), t, T, got.get(k), expect(k, xt))
            else:
                if getattr(self, "_file", None) is None:
                    return None
                size, data = self._file
                rs = [(int(a), int(b)) for a, b in zip(w[3::2], w[4::2])]
                for t in range(T):
                    off, nb = rs[t % len(rs)]
                    rng_ = data[off:] if nb == 0 else data[off:off + nb]
                    want = "false" if off + nb > size else hashlib.md5(rng_).hexdigest()
                    if parts[1 + t] != want:
                        return ("qhashmd5_file(offset=%d, nbytes=%d) of a %d-byte file, called from thread %d of %d concurrent "
                                "callers, gives `%s`, RFC 1321 MD5 of that range is `%s`" % (off, nb, size, t, T, parts[1 + t], want))
            return None
        if "DEP:" in line:
            return "result depends on the buffer's address or on the bytes after the buffer: %s" % line[:200]
        if kind in ("md5", "fnv32", "fnv64", "murmur32", "murmur128"):
            x = unhex(w[2])
            if not x:
                return None
            want = expect(kind, x)
            if kind in ("md5", "murmur128"):
                want = "ok " + want
            if line != want:
                return "%s of %d bytes gives `%s`, the published algorithm gives `%s`" % (kind, len(x), line, want)
        elif kind == "all":
            x = unhex(w[2])
            if not x:
                return None
            got = dict(f.split("=", 1) for f in line.split() if "=" in f)
            widths = {"md5": 32, "fnv32": 8, "fnv64": 16, "m32": 8, "m128": 32}
            if any(len(got.get(k, "")) != wd for k, wd in widths.items()):
                return "incomplete result line (the harness died during this operation?): `%s`" % line[:160]
            for k in ("md5", "fnv32", "fnv64", "m32", "m128"):
                want = expect(k, x)
                if got.get(k) != want:
                    return "%s of %d bytes gives `%s`, the published algorithm gives `%s`" % (k, len(x), got.get(k), want)
        elif kind == "big":
            n, seed, kinds = int(w[1]), int(w[2]), w[3:]
            got = dict(f.split("=", 1) for f in line.split() if "=" in f)
            key = (n, seed, tuple(kinds))
            cache = self.__dict__.setdefault("_bigcache", {})
            if key not in cache:
                want = {}
                if "md5" in kinds:
                    want["md5"] = md5_pattern(n, seed)
                others = [k for k in kinds if k != "md5"]
                if others:
                    want.update(ref_values(ref_binary(), n, seed, others))
                cache[key] = want
            for k in kinds:
                if got.get(k) != cache[key][k]:
                    return ("%s of %d bytes (one call, exactly sized buffer, pattern seed %d) gives `%s`, the published "
                            "algorithm gives `%s`" % (k, n, seed, got.get(k), cache[key][k]))
        elif kind == "md5len":
            # RFC 1321 3.2 / md5.h: the count is the number of bits modulo 2^64; index = bytes mod 64
            c0, c1, n = int(w[1]), int(w[2]), int(w[3])
            cnt = (c0 + (c1 << 32) + 8 * n) & M64
            want = "cnt %d %d idx %d" % (cnt & M32, cnt >> 32, (cnt >> 3) & 63)
            if line != want:
                return ("bit count after one MD5Update of %d bytes from count (%d, %d) is `%s`, expected `%s` "
                        "(8 * bytes modulo 2^64)" % (n, c0, c1, line, want))
        elif kind == "md5cnt":
            # "number of bits, modulo 2^64 (lsb first)": after every update count = start + 8 * bytes fed
            cnt = int(w[1]) + (int(w[2]) << 32)
            parts = line.split(" | ")
            for chunk, part in zip(w[3:], parts[1:]):
                f = part.split()
                cnt = (cnt + 8 * len(unhex(chunk))) & M64
                if f[:2] != ["upd", "ctx"] or len(f) != 6 or int(f[3]) + (int(f[4]) << 32) != cnt:
                    return "bit count after feeding %d more bytes is `%s`, expected %d (mod 2^64)" % (len(unhex(chunk)), " ".join(f[3:5]), cnt)
        elif kind == "md5chunks":
            x = b"".join(unhex(c) for c in w[1:])
            if not x:
                return None
            last = line.split(" | ")[-1].split()
            if last[:1] != ["final"] or last[1:] != [hashlib.md5(x).hexdigest()]:
                return "MD5 of %d bytes fed in %d chunks gives `%s`, RFC 1321 gives %s" % (len(x), len(w) - 1, " ".join(last)[:80], hashlib.md5(x).hexdigest())
        return None

    def nontrivial_key(self, op, line):
        w = op.split()
        if w[0] in ("all", "md5", "fnv32", "fnv64", "murmur32", "murmur128"):
            x = unhex(w[2])
            if not x:
                return "trivial"
            cls = "zero" if not any(x) else "ff" if all(c == 255 for c in x) else "nul" if 0 in x else "other"
            return (w[0], len(x), w[1], cls)
        if w[0] in ("big", "md5len"):
            return op
        return op[:80]

    def classify(self, op, detail):
        w = op.split()
        kind = w[0]
        if kind == "all":
            for k, name in (("md5 ", "md5"), ("fnv32 ", "fnv32"), ("fnv64 ", "fnv64"), ("m32 ", "murmur32"), ("m128 ", "murmur128")):
                if detail.startswith(k):
                    return "qhash:" + name
            return "qhash:all"
        if kind == "big":
            for k, name in (("md5 ", "md5"), ("fnv32 ", "fnv32"), ("fnv64 ", "fnv64"), ("m32 ", "murmur32"), ("m128 ", "murmur128")):
                if detail.startswith(k):
                    return "qhash:" + name + ":huge"
            return "qhash:huge"
        return "qhash:" + kind

    # ------------------------------------------------------------ spec validation
    def extra(self, impl_dir):
        """differential run of the Lean *specifications* (driver module `hashspec`) against this
        file's Python references: validates Hash/Spec.lean beyond its #guard vectors"""
        if getattr(self, "translator_error", None):
            self.violation("corr", "translator", "K-gen: the current source no longer has the shape the model "
                           "transcribes (%s); Generated/HashConsts.lean is stale" % self.translator_error,
                           {"stream": "translator/md5steps.py"})
        if not os.path.exists(vlib.driver_path()):
            return
        rng = self.rng
        ops = []
        for _ in range(150 if self.tier == "quick" else 1500):
            n = rng.choice([rng.randrange(1, 20), rng.randrange(1, 200), rng.randrange(1, 700)])
            ops.append("all 0 " + hexs(self.content(rng.choice(["rand", "zero", "ff", "nul", "hi"]), n)))
        out, rc, err = vlib.run_model("hashspec", "\n".join(ops) + "\n")
        self.evals += len(ops)
        bad = None
        if rc != 0 or len(out) != len(ops):
            bad = "spec driver failed: rc=%d %s" % (rc, err[-200:])
        else:
            for op, l in zip(ops, out):
                d = self.judge(op, l)
                if d:
                    bad = "Lean specification disagrees with the Python reference: " + d
                    break
        self.cov["streams"]["spec-vs-python"] = {"ops": len(ops), "ok": bad is None}
        if bad:
            self.violation("corr", "spec-validation", bad, {"stream": "spec-vs-python"})

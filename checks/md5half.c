/* Search for two keys whose MD5 digests agree in one HALF (the first or the last 8 of the 16 bytes):
 * what a key comparison that looks at only part of the stored digest (qhasharr: truncated keys are
 * identified by length, first 16 bytes and MD5) needs in order to take two keys for one.
 *
 *   md5half first|last <16-byte prefix> [nthreads]
 *
 * Keys are C strings `<prefix><16 lowercase hex digits>`; they are hashed WITH their terminator
 * (33 bytes), as qhasharr_put(tbl, key, ...) hashes them.  MD5 written from RFC 1321, not from
 * qlibc.  Parallel collision search with distinguished points (van Oorschot / Wiener): the map
 * x -> selected 8 bytes of MD5(key(x)) is iterated from many starting points until a value with 20
 * zero low bits appears; two trails ending in the same distinguished point contain a collision of
 * the map, which is located by walking both again.  About sqrt(pi/2 * 2^64) = 5.4e9 digests.
 *
 * Output: `<key1> <key2> <md5(key1+NUL) hex> <md5(key2+NUL) hex>`.
 * The pairs found are stored as constants in checks/harr_common.py (MD5_HALF_PAIRS); the checks verify
 * them with hashlib at start-up and never need to run this search. */
#include <pthread.h>
#include <stdint.h>
#include <stdio.h>
#include <stdlib.h>
#include <string.h>

static const uint32_t K[64] = {
    0xd76aa478, 0xe8c7b756, 0x242070db, 0xc1bdceee, 0xf57c0faf, 0x4787c62a, 0xa8304613, 0xfd469501,
    0x698098d8, 0x8b44f7af, 0xffff5bb1, 0x895cd7be, 0x6b901122, 0xfd987193, 0xa679438e, 0x49b40821,
    0xf61e2562, 0xc040b340, 0x265e5a51, 0xe9b6c7aa, 0xd62f105d, 0x02441453, 0xd8a1e681, 0xe7d3fbc8,
    0x21e1cde6, 0xc33707d6, 0xf4d50d87, 0x455a14ed, 0xa9e3e905, 0xfcefa3f8, 0x676f02d9, 0x8d2a4c8a,
    0xfffa3942, 0x8771f681, 0x6d9d6122, 0xfde5380c, 0xa4beea44, 0x4bdecfa9, 0xf6bb4b60, 0xbebfbc70,
    0x289b7ec6, 0xeaa127fa, 0xd4ef3085, 0x04881d05, 0xd9d4d039, 0xe6db99e5, 0x1fa27cf8, 0xc4ac5665,
    0xf4292244, 0x432aff97, 0xab9423a7, 0xfc93a039, 0x655b59c3, 0x8f0ccc92, 0xffeff47d, 0x85845dd1,
    0x6fa87e4f, 0xfe2ce6e0, 0xa3014314, 0x4e0811a1, 0xf7537e82, 0xbd3af235, 0x2ad7d2bb, 0xeb86d391};
static const int S[64] = {7, 12, 17, 22, 7, 12, 17, 22, 7, 12, 17, 22, 7, 12, 17, 22, 5, 9, 14, 20, 5, 9, 14, 20, 5, 9, 14, 20, 5, 9, 14, 20,
                          4, 11, 16, 23, 4, 11, 16, 23, 4, 11, 16, 23, 4, 11, 16, 23, 6, 10, 15, 21, 6, 10, 15, 21, 6, 10, 15, 21, 6, 10, 15, 21};

static inline uint32_t rotl(uint32_t x, int r) { return (x << r) | (x >> (32 - r)); }

/* MD5 of a message of at most 55 bytes (one block) */
static void md5_short(const uint8_t *msg, size_t n, uint8_t out[16]) {
    uint8_t blk[64]; uint32_t M[16];
    memset(blk, 0, sizeof blk); memcpy(blk, msg, n); blk[n] = 0x80;
    uint64_t bits = (uint64_t) n * 8; memcpy(blk + 56, &bits, 8);      /* little endian host */
    memcpy(M, blk, 64);
    uint32_t a0 = 0x67452301, b0 = 0xefcdab89, c0 = 0x98badcfe, d0 = 0x10325476;
    uint32_t A = a0, B = b0, C = c0, D = d0;
    for (int i = 0; i < 64; i++) {
        uint32_t F; int g;
        if (i < 16) { F = (B & C) | (~B & D); g = i; }
        else if (i < 32) { F = (D & B) | (~D & C); g = (5 * i + 1) & 15; }
        else if (i < 48) { F = B ^ C ^ D; g = (3 * i + 5) & 15; }
        else { F = C ^ (B | ~D); g = (7 * i) & 15; }
        F = F + A + K[i] + M[g];
        A = D; D = C; C = B; B = B + rotl(F, S[i]);
    }
    a0 += A; b0 += B; c0 += C; d0 += D;
    memcpy(out, &a0, 4); memcpy(out + 4, &b0, 4); memcpy(out + 8, &c0, 4); memcpy(out + 12, &d0, 4);
}

static char prefix[17];
static int use_last;
#ifndef DPBITS
#define DPBITS 20           /* -DDPBITS=8 -DVALBITS=32: a self-test that finishes at once (4 agreeing bytes) */
#endif
#ifndef VALBITS
#define VALBITS 64
#endif
#define DPMASK ((1ULL << DPBITS) - 1)
#define VALMASK (VALBITS == 64 ? ~0ULL : ((1ULL << (VALBITS % 64)) - 1))

static void make_key(uint64_t x, uint8_t key[33]) {
    static const char hx[] = "0123456789abcdef";
    memcpy(key, prefix, 16);
    for (int i = 0; i < 16; i++) key[16 + i] = (uint8_t) hx[(x >> (60 - 4 * i)) & 15];
    key[32] = 0;
}
static inline uint64_t step(uint64_t x) {
    uint8_t key[33], d[16]; uint64_t y;
    make_key(x, key); md5_short(key, 33, d);
    memcpy(&y, d + (use_last ? 8 : 0), 8);
    return y & VALMASK;
}

/* table of distinguished points */
typedef struct { uint64_t dp, start, len; int used; } ent_t;
#define TSIZE (1u << 20)
static ent_t table[TSIZE];
static pthread_mutex_t mu = PTHREAD_MUTEX_INITIALIZER;
static volatile int done = 0;
static uint64_t res_a, res_b;

static uint64_t splitmix(uint64_t *s) {
    uint64_t z = (*s += 0x9e3779b97f4a7c15ULL);
    z = (z ^ (z >> 30)) * 0xbf58476d1ce4e5b9ULL; z = (z ^ (z >> 27)) * 0x94d049bb133111ebULL; return z ^ (z >> 31);
}

/* two trails (start, len) ending in the same point: the two different values with the same image */
static int locate(uint64_t s1, uint64_t l1, uint64_t s2, uint64_t l2, uint64_t *a, uint64_t *b) {
    while (l1 > l2) { s1 = step(s1); l1--; }
    while (l2 > l1) { s2 = step(s2); l2--; }
    if (s1 == s2) return 0;                     /* one trail runs into the other's start */
    while (l1 > 0) {
        uint64_t n1 = step(s1), n2 = step(s2);
        if (n1 == n2) { *a = s1; *b = s2; return 1; }
        s1 = n1; s2 = n2; l1--;
    }
    return 0;
}

static void *worker(void *arg) {
    uint64_t seed = 0x1234567ULL * (uint64_t) ((intptr_t) arg + 1) + (use_last ? 77 : 0);
    while (!done) {
        uint64_t start = splitmix(&seed), x = start, len = 0;
        while (!done && len < (20ULL << DPBITS)) {
            x = step(x); len++;
            if ((x & DPMASK) == 0) break;
        }
        if (done || (x & DPMASK) != 0) continue;
        pthread_mutex_lock(&mu);
        uint32_t h = (uint32_t) ((x >> DPBITS) * 0x9e3779b1u) & (TSIZE - 1);
        while (table[h].used && table[h].dp != x) h = (h + 1) & (TSIZE - 1);
        if (table[h].used) {
            ent_t e = table[h];
            pthread_mutex_unlock(&mu);
            uint64_t a, b;
            if (e.start != start && locate(e.start, e.len, start, len, &a, &b)) {
                pthread_mutex_lock(&mu);
                if (!done) { done = 1; res_a = a; res_b = b; }
                pthread_mutex_unlock(&mu);
            }
        } else {
            table[h].used = 1; table[h].dp = x; table[h].start = start; table[h].len = len;
            pthread_mutex_unlock(&mu);
        }
    }
    return NULL;
}

int main(int argc, char **argv) {
    if (argc < 3 || strlen(argv[2]) != 16) { fprintf(stderr, "usage: md5half first|last <16-byte prefix> [threads]\n"); return 2; }
    use_last = !strcmp(argv[1], "last");
    memcpy(prefix, argv[2], 17);
    int nt = argc > 3 ? atoi(argv[3]) : 16;
    pthread_t th[64];
    if (nt > 64) nt = 64;
    for (int i = 0; i < nt; i++) pthread_create(&th[i], NULL, worker, (void *) (intptr_t) i);
    for (int i = 0; i < nt; i++) pthread_join(th[i], NULL);
    uint8_t k1[33], k2[33], d1[16], d2[16];
    make_key(res_a, k1); make_key(res_b, k2); md5_short(k1, 33, d1); md5_short(k2, 33, d2);
    printf("%s %s ", (char *) k1, (char *) k2);
    for (int i = 0; i < 16; i++) printf("%02x", d1[i]);
    printf(" ");
    for (int i = 0; i < 16; i++) printf("%02x", d2[i]);
    printf("\n");
    return 0;
}

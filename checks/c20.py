"""C20 — configuration parsers deliver exactly what the file says.

Documents are generated as VALUES of the two grammars (checks/confgen.py), rendered under a random
layout, and fed to the real parsers (harness/conf.c) and to the Lean model (module `conf`).
`judge` is the property's own oracle: the expected entry list / callback stream / count / error
line is computed from the grammar value and the option table — not by re-parsing the text."""
import os
import vlib
from vlib import Check, Stream
from checks import confgen as G
from checks.confgen import hexs, Opt, Arg, Node


class TheCheck(Check):
    prop = "C20"
    module = "conf"
    harness = "conf"
    wraps = ("popen", "pclose", "open")
    rule = ("grammar-generated INI / Apache-style documents x option tables x parser flags, executed by "
            "qconfig_parse_str / qaconf parse() (ASan+UBSan+LSan build, exactly sized buffers, controlled getenv, "
            "popen stubbed) and by the Lean model; distinct_nontrivial = distinct documents")
    assumptions = [
        "hand model of qconfig.c / qaconf.c validated on the explored documents only",
        "constants (MAX_LINESIZE, QAC_* values, expansion bounds) regenerated from the source (translator/confconsts.py)",
        "qconfig_parse_file is modelled over a path->content function (harness: wrapped open, virtual files); the round trip of documents spread over @INCLUDE files is checked by oracle + correspondence, no theorem (ini_roundtrip is about qconfig_parse_str)",
        "section ids and `level`: nesting depth <= 255 (uint8_t level; deeper nesting is a parse error after the fix)",
        "behaviour inside an UNREGISTERED section (stale section id) is not documented and not judged",
        "C locale (strcasecmp folds ASCII letters only)",
        "theorems: ac_bool, ac_number, ac_tokenize, ini_roundtrip (with ${name}/${%ENV}/${!cmd} references; literal "
        "pieces and substituted texts `$`-free, no nested references) at full strength; ac_accept_iff/ac_callbacks only "
        "for flat documents and callbacks that do not refuse (ac_accept_iff_partial) - nested sections, close callbacks, "
        "refusing callbacks, nested references and literal `$` are carried by the correspondence only",
    ]

    def __init__(self, tier, seed):
        super().__init__(tier, seed)
        self.expect = {}

    def regenerate(self):
        from translator import confconsts
        out = os.path.join(vlib.LEAN, "QlibcModel/Generated/ConfConsts.lean")
        text = confconsts.render(confconsts.extract(vlib.REPO))
        if not os.path.exists(out) or open(out).read() != text:
            open(out, "w").write(text)
        return [out]

    def nontrivial_key(self, op, line):
        return hash(op)

    # ---------------------------------------------------------------- streams
    def ac(self, table, flags, defcb, nodes, tag_ws=0.0):
        doc, nlines = G.render_ac(self.rng, nodes, tag_ws)
        op = G.ac_op(flags, defcb, doc, table)
        r_ = self.rng.random()
        if r_ < 0.12:
            op = "acpipe" + op[2:]       # the same bytes through a pipe (not seekable): the same reading
        elif r_ < 0.30:
            op = "acre" + op[2:]         # a parser object that has parsed (the same path) before: the same reading
        self.expect[op] = ("ac", G.ac_expected(table, flags, defcb, nodes, nlines, G.harness_cb_refuses))
        return op

    def defcb_refusing_stream(self, n):
        """a default handler that returns an error string (harness: defcb = 2) for `!fail` arguments: its
        refusal must be reported at that line like a registered callback's, on every path — unregistered
        directive / section tag (top level and nested), registered option without callback; the error
        string is the parser's to free (LeakSanitizer). The Lean model has no refusing default handler:
        implementation vs oracle only."""
        rng = self.rng
        ops = []
        for _ in range(n):
            flags = rng.randrange(4)
            table = G.gen_table(rng)
            nodes = G.gen_doc(rng, table, flags, pmut=0.02)

            def plant(ns, depth):
                for _ in range(rng.choice([0, 1, 1, 2])):
                    k = rng.random()
                    arg = [G.restyle(rng, b"!fail")] if rng.random() < 0.6 else [G.restyle(rng, b"ok")]
                    if k < 0.6:
                        node = Node("opt", rng.choice([b"Nope", b"zzz"]), arg + [G.gen_str_arg(rng) for _ in range(rng.randrange(0, 2))])
                    else:
                        nm = rng.choice([b"Nope", b"Q"])
                        node = Node("sec", nm, arg, [Node("opt", b"inner", [G.gen_str_arg(rng)])], nm)
                    # never behind a section that is not closed: in the file everything behind it is inside it
                    lim = next((i for i, x in enumerate(ns) if x.kind == "sec" and x.close is None), len(ns))
                    ns.insert(rng.randrange(lim + 1), node)
                for x in ns:
                    if x.kind == "sec" and x.body is not None and depth < 3 and G.lower(x.name) in [G.lower(o.name) for o in table]:
                        plant(x.body, depth + 1)
            plant(nodes, 0)
            doc, nlines = G.render_ac(rng, nodes, 0.05)
            op = G.ac_op(flags, 2, doc, table)
            self.expect[op] = ("ac", G.ac_expected(table, flags, True, nodes, nlines, G.harness_cb_refuses, def_refuses=True))
            ops.append(op)
        return ops

    def long_line_stream(self):
        """lines longer than the parser's line buffer (MAX_LINESIZE - 1 = 4095 bytes): a comment of any length
        is ignored as a whole - also when the text behind the 4095th byte looks like a registered directive -,
        a directive or section tag that does not fit is an error of that line; lengths 4094, 4095, 4096,
        8190, 8191, 10000; at top level and inside sections; with and without final newline (render_ac)"""
        rng = self.rng
        ops = []
        A = 2
        t = [Opt(b"Sec", 1, True, A, 0), Opt(b"Any", G.TAKEALL, True, 0, 0), Opt(b"Flag", 1 | G.A1_BOOL, True, 0, A)]
        tails = [b"Any injected 1", b"Flag on", b"<Sec x>", b"</Sec>", b"Nope", b"Any \"open"]
        for total in (4094, 4095, 4096, 8190, 8191, 10000):
            for place in ("top", "sec", "sec2"):
                for tail in tails:
                    c = Node("comment", text=b" c")
                    c.longtail, c.longat = tail, total - len(tail)
                    body = [Node("opt", b"Any", [Arg(b"1", "bare")]), c, Node("opt", b"Any", [Arg(b"2", "single")])]
                    doc = {"top": body,
                           "sec": [Node("sec", b"Sec", [Arg(b"s", "bare")], body + [Node("opt", b"Flag", [Arg(b"Off", "bare")])], b"Sec")],
                           "sec2": [Node("sec", b"Sec", [Arg(b"s", "bare")],
                                         [Node("sec", b"Sec", [Arg(b"t", "bare")], body, b"Sec")], b"Sec"), Node("opt", b"Any")]}[place]
                    ops.append(self.ac(t, 0, False, doc))
                # a directive of that length: arguments `ab` separated by one blank
                for style in ("bare", "double"):
                    n = max(1, (total - 3) // 3)
                    args = [Arg(b"ab", "bare") for _ in range(n)]
                    if style == "double":
                        args = [Arg(b"a" * (total - 6), "double")]
                    d = Node("opt", b"Any", args)
                    body = [Node("opt", b"Any", [Arg(b"1", "bare")]), d, Node("opt", b"Any", [Arg(b"2", "bare")])]
                    doc = {"top": body,
                           "sec": [Node("sec", b"Sec", [Arg(b"s", "bare")], body, b"Sec")],
                           "sec2": [Node("sec", b"Sec", [Arg(b"s", "bare")], [Node("sec", b"Sec", [Arg(b"t", "bare")], body, b"Sec")], b"Sec")]}[place]
                    ops.append(self.ac(t, 0, False, doc))
        return ops

    def systematic(self):
        rng = self.rng
        ops = []
        # every bool spelling in three casings (+ a mixed one), in each checked position and via AA_BOOL
        for w in G.TRUE_WORDS + G.FALSE_WORDS + G.BAD_BOOLS:
            for v in {w, w.upper(), w.capitalize(), w[:1] + w[1:].upper()}:
                for pos in range(1, 8):
                    take = G.TAKEALL | (G.A1_BOOL << (pos - 1) if pos <= 5 else G.AA_BOOL)
                    t = [Opt(b"Flag", take, True, 0, G.SECTION_ALL)]
                    args = [G.restyle(rng, b"s%d" % i) for i in range(1, pos)] + [G.restyle(rng, v)]
                    ops.append(self.ac(t, 0, False, [Node("opt", b"Flag", args)]))
        # number forms against INT and FLOAT
        for w in G.INTS + G.FLOATS + G.BAD_NUMS:
            for ty in (G.A1_INT, G.A1_FLOAT):
                for pos in (1, 3, 5):
                    t = [Opt(b"Num", pos | (ty << (pos - 1)), True, 0, G.SECTION_ALL)]
                    args = [G.restyle(rng, b"x")] * (pos - 1) + [G.restyle(rng, w)]
                    ops.append(self.ac(t, 0, False, [Node("opt", b"Num", args)]))
            for aa in (G.AA_INT, G.AA_FLOAT):
                t = [Opt(b"Nums", G.TAKEALL | aa, True, 0, G.SECTION_ALL)]
                for n in (1, 5, 6, 7):
                    ops.append(self.ac(t, 0, False, [Node("opt", b"Nums", [G.restyle(rng, b"1")] * (n - 1) + [G.restyle(rng, w)])]))
        # take counts 0..7 / TAKEALL against 0..7 arguments
        for take in list(range(0, 8)) + [G.TAKEALL]:
            for n in range(0, 8):
                t = [Opt(b"T", take, True, 0, G.SECTION_ALL)]
                ops.append(self.ac(t, 0, False, [Node("opt", b"T", [G.gen_str_arg(rng) for _ in range(n)])]))
        # argument counts around and beyond 256: the count comparison must not be done modulo 2^8
        # (a fixed-arity directive written with take + 256*k arguments is an offence); lines of
        # ~520..1100 bytes, below MAX_LINESIZE
        for take in (0, 1, 2, 3, 5, 254, G.TAKEALL):
            wide = {take + 256, take + 512, 254, 255, 256, 257, 258}
            if take not in (254, G.TAKEALL):
                wide.add(take)
            for n in sorted(wide):
                t = [Opt(b"W", take, True, 0, G.SECTION_ALL), Opt(b"After", 0, True, 0, G.SECTION_ALL)]
                args = [Arg(rng.choice([b"a", b"7", b"z"]), "bare") for _ in range(n)]
                ops.append(self.ac(t, 0, False, [Node("opt", b"After"), Node("opt", b"W", args), Node("opt", b"After")]))
        # scopes: option allowed in {ALL, ROOT, A, B, A|B, A|ROOT} placed at root / in A / in B / in A>B
        A, B = 2, 4
        for secs in (0, 1, A, B, A | B, A | 1):
            for place in ("root", "A", "B", "AB"):
                for flags in (0, 1):
                    t = [Opt(b"SecA", 1, True, A, 0), Opt(b"SecB", 1, True, B, 0), Opt(b"Opt", 0, True, 0, secs)]
                    o = Node("opt", b"opt" if flags else b"Opt")
                    doc = {"root": [o], "A": [Node("sec", b"SecA", [Arg(b"x", "bare")], [o], b"SecA")],
                           "B": [Node("sec", b"SecB", [Arg(b"y", "double")], [o], b"SecB")],
                           "AB": [Node("sec", b"SecA", [Arg(b"x", "bare")],
                                       [Node("sec", b"SecB", [Arg(b"y", "single")], [o], b"secb" if flags else b"SecB")], b"SecA")]}[place]
                    ops.append(self.ac(t, flags, False, doc))
        # a file that starts with the bytes EF BB BF (a UTF-8 byte order mark): they are part of the first
        # word - nothing is skipped, nothing is re-read; regular file and pipe
        BOM = b"\xef\xbb\xbf"
        for flags in range(4):
            for defcb in (False, True):
                for first in (BOM + b"Known", BOM, b"Known"):
                    t = [Opt(b"Known", G.TAKEALL, True, 0, 0)]
                    n1, n2 = Node("opt", first, [Arg(b"1", "bare")]), Node("opt", b"Known", [Arg(b"2", "bare")])
                    n1.line, n2.line = 1, 2
                    doc = first + b" 1\nKnown 2\n"
                    for head in ("ac", "acpipe"):
                        op = head + G.ac_op(flags, defcb, doc, t)[2:]
                        self.expect[op] = ("ac", G.ac_expected(t, flags, defcb, [n1, n2], 2, G.harness_cb_refuses))
                        ops.append(op)
        # unknown directives under the four flag / default-handler combinations
        for flags in range(4):
            for defcb in (False, True):
                t = [Opt(b"Known", G.TAKEALL, True, 0, 0)]
                doc = [Node("opt", b"Known", [Arg(b"1", "bare")]), Node("opt", b"known" if flags & 1 else b"Unknown", []),
                       Node("opt", b"Other", [Arg(b"a b", "double")]), Node("opt", b"Known", [])]
                ops.append(self.ac(t, flags, defcb, doc))
        return ops

    def tokenizer_stream(self, n):
        """TAKEALL option: arbitrary arguments in all quoting styles and layouts"""
        rng = self.rng
        ops = []
        t = [Opt(b"Any", G.TAKEALL, True, 8, 0)]
        for _ in range(n):
            args = [G.gen_str_arg(rng) for _ in range(rng.randrange(0, 8))]
            if rng.random() < 0.5:
                ops.append(self.ac(t, 0, False, [Node("opt", b"Any", args)]))
            else:
                ops.append(self.ac(t, 0, False, [Node("sec", b"Any", args, [], b"Any")], tag_ws=0.3))
        return ops

    def streams(self):
        rng = self.rng
        quick = self.tier == "quick"
        sts = []
        corpus = os.path.join(vlib.ROOT, "corpus", "C20")
        for f in sorted(os.listdir(corpus)) if os.path.isdir(corpus) else []:
            sts.append(Stream("corpus:" + f, [l.strip() for l in open(os.path.join(corpus, f)) if l.strip()]))
        sts.append(Stream("ac-systematic", self.systematic(), note="bool spellings x casings x positions, number forms, "
                          "take counts x argument counts, scopes x placements, unknown x flags"))
        sts.append(Stream("ac-defcb-refusing", self.defcb_refusing_stream(1500 if quick else 30000), nomodel=True,
                          note="implementation vs oracle only (no refusing default handler in the model)"))
        sts.append(Stream("ac-long-lines", self.long_line_stream(), note="comments / directives of 4094..10000 bytes"))
        sts.append(Stream("ac-tokenize", self.tokenizer_stream(5000 if quick else 60000)))
        for name, pmut, n in (("ac-conforming", 0.0, 5000 if quick else 60000), ("ac-offending", 0.12, 8000 if quick else 100000)):
            ops = []
            for _ in range(n):
                flags = rng.randrange(4)
                defcb = rng.random() < 0.2
                table = G.gen_table(rng, big_ids=rng.random() < 0.2)
                nodes = G.gen_doc(rng, table, flags, pmut=pmut)
                ops.append(self.ac(table, flags, defcb, nodes, tag_ws=0.1))
            sts.append(Stream(name, ops))
        ops = []
        for _ in range(10000 if quick else 120000):
            sep = rng.choice(b"====: #[")
            env = {b"HOME": b"/home/q", b"USER": b"qlibc", b"EMPTY": b"", b"X_1": b" a  b ", b"P": b"/usr:/bin"}
            nodes = G.gen_ini(rng, sep, env, lookalike=0.05)
            op = G.ini_op(sep, G.render_ini(rng, nodes, sep), env)
            self.expect[op] = ("ini", G.ini_expected(nodes, env))
            ops.append(op)
        sts.append(Stream("ini-grammar", ops))
        # the same grammar spread over files: `@INCLUDE` lines are a layout of the document
        ops = []
        for _ in range(3000 if quick else 40000):
            sep = rng.choice(b"====: #[")
            # lines that merely look like a directive (`@INCLUDES=..`, a bare `@INCLUDE`, `@INCLUDE<TAB>x`, the
            # directive after blanks / in a comment / in lower case) are ordinary entries and comments
            nodes = G.gen_ini(rng, sep, {}, lookalike=0.2)
            if rng.random() < 0.15:      # the directive text inside a value is just text
                nodes.append(G.IniNode("entry", name=b"zz", parts=[("lit", b"see @INCLUDE " + rng.choice(G.INC_NAMES[:6]))]))
            mainpath = rng.choice([b"/V/main.conf", b"/V/main.conf", b"main.conf", b"/V/etc/q.conf"])
            files = G.split_includes(rng, G.render_ini_lines(rng, nodes, sep), mainpath)
            op = G.inif_op(sep, mainpath, files)
            # (no MAIN file behind a pipe: qfile_load sizes its read by fstat and delivers an empty text
            #  for a FIFO - an observation about qfile.c outside C20, see DESIGN.md 12.3)
            self.expect[op] = ("ini", G.ini_expected(nodes, {}))
            ops.append(op)
        sts.append(Stream("ini-include-grammar", ops))
        # formatted names / messages of every length around the block sizes of DYNAMIC_VSPRINTF, command
        # outputs around the block sizes of qfile_read, documents of more than 2^16 lines
        ops = []
        for doc, ents in G.name_length_docs(rng, extra=20) + G.cmd_length_docs(big=(1048576, 1048577)):
            op = G.ini_op(0x3d, doc, {})
            self.expect[op] = ("ini", ents)
            ops.append(op)
        sts.append(Stream("ini-long-names-and-command-output", ops))
        ops = []
        for kind, total, pl, fl, dc, doc, table, errline in G.errmsg_cases(rng, full=not quick):
            op = G.ac_op(fl, dc, doc, table, pathlen=pl)
            ex = G.Expect()
            ex.ret, ex.errline, ex.why = -1, errline, kind
            if kind == "refused":
                ex.events = [("M", G.OPTION, 1, 1, 0, [], [b"a", b"!fail"])]
            self.expect[op] = ("ac", ex)
            ops.append(op)
        for fl, doc, table, ret, errline in G.line_count_cases():
            op = G.ac_op(fl, 0, doc, table)
            ex = G.Expect()
            ex.ret, ex.errline, ex.why = ret, errline, "offence on the last line"
            self.expect[op] = ("ac", ex)
            ops.append(op)
        sts.append(Stream("ac-message-lengths-and-line-numbers", ops,
                          note="every error kind x message length around 1024 * 2^k; 65534..70001 lines"))
        from checks import mtpure
        sts.append(mtpure.stream(self))      # hidden shared state shows only with concurrent callers
        return sts

    # ---------------------------------------------------------------- oracle
    def judge(self, op, line):
        if line.startswith("timeout"):
            return "parser did not return"
        e = self.expect.get(op)
        if e is None:
            return None
        if e[0] == "ini":
            got = G.parse_ini_result(line)
            if got is None:
                return "no table (%s) for a well-formed document" % line[:40]
            if got != e[1]:
                for i, (a, b) in enumerate(zip(got, e[1])):
                    if a != b:
                        return "entry #%d is %r=%r, the file says %r=%r" % (i, a[0], a[1], b[0], b[1])
                return "%d entries, the file has %d" % (len(got), len(e[1]))
            return None
        return G.ac_compare(e[1], G.parse_ac_result(line))

    def classify(self, op, detail):
        w = op.split()
        if w[0] in ("ini", "inif", "inifp"):
            return "qconfig:" + ("crash" if "died" in detail else "entries")
        if "bool" in detail:
            return "qaconf:bool"
        return "qaconf:" + ("crash" if "died" in detail else "accept" if "ccepted" in detail or "rejected" in detail else "callbacks")

"""C03 — tree table traversal returns every key exactly once in ascending order."""
from checks.treecommon import TreeCheck
from vlib import Stream, hexs


class TheCheck(TreeCheck):
    prop = "C03"
    aspects = ("walk",)
    rule = ("histories of put/remove/complete walks/abandoned walks/nearest searches followed by walks, including "
            "more than 256 traversal starts and root changes between walks; distinct_nontrivial = distinct "
            "(operation, result, shape incl. traversal ids and parent pointers) triples")

    def streams(self):
        big = self.tier != "quick"
        rng = self.rng
        sts = self.corpus_streams()
        # all reachable shapes of a small universe, each followed by an abandoned walk, a search and a full walk
        sts.append(self.bfs_stream(5 if not big else 7, 100000,
                                   lambda keys: ["cursor0", "next", "next", "near %s" % hexs(keys[1]), "walk", "cursor0"] + ["next"] * (len(keys) + 1),
                                   name="bfs-walk"))
        # epoch wrap: many traversal starts, insertions in between
        for rounds in ((300,) if not big else (300, 700)):
            ops = ["new 0"]
            ks = [b"k%03d" % i for i in range(40)]
            rng.shuffle(ks)
            ops += ["put %s 76" % hexs(k) for k in ks[:5]]
            for i in range(rounds):
                c = rng.randrange(6)
                if c == 0:
                    ops += ["cursor0"] + ["next"] * rng.randrange(0, 4)          # abandoned
                elif c == 1:
                    ops.append("put %s 77" % hexs(rng.choice(ks)))
                elif c == 2:
                    ops.append("rm %s" % hexs(rng.choice(ks)))
                elif c == 3:
                    ops.append("near %s" % hexs(rng.choice(ks)))
                ops.append("walk")
            sts.append(Stream("epoch-%d" % rounds, ops, history=True))
        # deterministic wrap-around probes: w complete walks, an insertion, a walk - for every w
        # around the multiples of 128 (each walk advances the 8-bit counter twice)
        ops = []
        for w in list(range(124, 131)) + ([253, 254, 255, 256, 257] if big else [255]):
            ops += ["new 0", "put 61 76", "put 63 76"] + ["walk"] * w + ["put 62 76", "put 64 76", "walk", "cursor0", "next", "walk"]
        # a complete walk, k abandoned walks (each advances the counter once), a complete walk:
        # stamps of the first walk must not be mistaken for the last walk's epoch
        for k in list(range(251, 258)) + ([507, 508, 509, 510, 511, 512] if big else [509, 510]):
            ops += ["new 0"] + ["put %s 76" % hexs(b"w%02d" % i) for i in range(6)] + ["walk"]
            ops += ["cursor0", "next"] * k + ["walk", "put 7a 76", "walk"]
            # the same with keys inserted between the stamped ones after the first walk (rotations
            # lift fresh, unstamped nodes above stamped ones before the counter wraps)
            ops += ["new 0"] + ["put %s 76" % hexs(b"w%02d" % i) for i in (10, 5, 20, 15, 30)] + ["walk"]
            ops += ["put %s 77" % hexs(b"w%02d" % i) for i in (7, 12, 17, 25, 3)]
            ops += ["cursor0", "next"] * k + ["walk"]
        # every insertion order of 3 keys, split at every point by a complete walk, followed by k
        # one-step walks and a complete walk: a key inserted after the first walk may be rotated
        # ABOVE nodes that still carry that walk's stamp when the counter wraps
        import itertools
        for perm in itertools.permutations([b"05", b"07", b"10"]):
            for split in (1, 2):
                for k in (252, 253, 254):
                    ops += ["new 0"] + ["put %s 76" % hexs(x) for x in perm[:split]] + ["walk"]
                    ops += ["put %s 77" % hexs(x) for x in perm[split:]] + ["cursor0", "next"] * k + ["walk"]
        sts.append(Stream("wrap-probes", ops, history=True))
        # the counter wraps at the END of a complete walk (a abandoned walks shift the parity, w complete
        # walks bring the end-of-travel step to 255 -> 0), then k abandoned walks bring the counter round
        # to the stamps the last complete walk left behind, then a complete walk (seed C03-m9)
        ops = []
        for a in (0, 1):
            for w in ((127, 128) if not big else (126, 127, 128, 129)):
                for k in ((253, 254, 255) if not big else range(251, 258)):
                    ops += ["new 0"] + ["put %s 76" % hexs(b"e%02d" % i) for i in range(7)]
                    ops += ["cursor0", "next"] * a + ["walk"] * w + ["cursor0", "next"] * k + ["walk", "put 7a 76", "walk"]
        sts.append(Stream("wrap-at-end-probes", ops, history=True))
        sts.append(Stream("random", self.random_history(700 if not big else 8000, 30 if not big else 300, 0,
                                                        ops=("put", "put", "rm", "walk", "abandon", "fullnext", "near"), quiet=False if not big else True), history=True))
        return sts

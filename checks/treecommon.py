"""Generators and property oracles shared by the tree-table checks C01-C04."""
import math, os, re
import vlib
from vlib import Check, Stream, hexs

NODE = re.compile(r"[()]|[^\s()]+")


class NullVal:
    """a stored NULL data pointer with a non-zero size (put(tbl, key, NULL, n)): no block, copies are NULL"""
    def __init__(self, n): self.n = n
    def __bool__(self): return False
    def __eq__(self, o): return isinstance(o, NullVal) and o.n == self.n
    def __hash__(self): return hash(("N", self.n))
    def __repr__(self): return "NULL/%d" % self.n


def unval(w):
    return NullVal(int(w[1:])) if w.startswith("N") else unhex(w)


def kv(t):
    k, v = t.split("=")
    return (unhex(k), unval(v))


def unhex(w):
    return b"" if w == "-" else bytes.fromhex(w)


def parse_shape(s):
    """'(L k=v c tid next R)' -> nested tuples (l, key, val, red, tid, next, r) / None"""
    toks = NODE.findall(s)
    pos = [0]

    def node():
        t = toks[pos[0]]
        if t == ".":
            pos[0] += 1
            return None
        assert t == "(", t
        pos[0] += 1
        l = node()
        kv = toks[pos[0]]; col = toks[pos[0] + 1]; tid = toks[pos[0] + 2]; nxt = toks[pos[0] + 3]
        pos[0] += 4
        r = node()
        assert toks[pos[0]] == ")"
        pos[0] += 1
        k, v = kv.split("=")
        return (l, unhex(k), unval(v), col == "r", int(tid), nxt, r)
    return node()


def state_of(line):
    """parse '... num=N tid=T chk=C <shape>' from a result line"""
    m = re.search(r"num=(\d+) tid=(\d+) chk=(\d+) live=(-?\d+) (.*)$", line)
    if not m:
        return None
    shp = m.group(5).strip()
    return {"num": int(m.group(1)), "tid": int(m.group(2)), "chk": int(m.group(3)), "live": int(m.group(4)),
            "shape": None if shp == "-" else shp}


def inorder(t, out):
    if t is None:
        return out
    inorder(t[0], out); out.append((t[1], t[2])); inorder(t[6], out)
    return out


def llrb_violation(t):
    """independent reading of C02's invariant on a dumped tree; returns text or None"""
    if t is None:
        return None
    if t[3]:
        return "root is red"

    def rec(n):
        if n is None:
            return 1, None
        l, r = n[0], n[6]
        lr = l is not None and l[3]
        rr = r is not None and r[3]
        if n[3] and (lr or rr):
            return 0, "red node %s has a red child" % n[1].hex()
        if rr and not lr:
            return 0, "right-leaning lone red link below %s" % n[1].hex()
        hl, e = rec(l)
        if e:
            return 0, e
        hr, e = rec(r)
        if e:
            return 0, e
        if hl != hr:
            return 0, "black heights differ below %s" % n[1].hex()
        return hl + (0 if n[3] else 1), None
    return rec(t)[1]


def keyfn(mode):
    import functools
    if mode == 1:
        return functools.cmp_to_key(lambda a, b: (a < b) - (a > b))
    if mode == 2:
        return lambda k: k.lower()
    if mode == 3:
        return lambda k: k.rstrip(b" ")
    return lambda k: k


def ident(mode, k):
    return k.lower() if mode == 2 else k.rstrip(b" ") if mode == 3 else k


class Ideal:
    """ideal sorted map under the selected comparator: ident(key) -> [stored key, value]"""
    def __init__(self, mode=0):
        self.mode, self.d = mode, {}

    def sorted_items(self):
        ks = sorted(self.d, key=keyfn(self.mode) if self.mode != 2 else None)
        return [tuple(self.d[k]) for k in ks]

    def floor(self, probe):
        """equal key, else greatest smaller, else smallest; None when empty"""
        items = self.sorted_items()
        if not items:
            return None
        kf = keyfn(self.mode)
        p = kf(probe)
        best = None
        for k, v in items:
            if kf(k) <= p:
                best = (k, v)
        return best if best is not None else items[0]


class TreeOracle:
    """replays a history on the ideal map and judges the implementation's transcript.
    aspects: which property clauses raise (C01 map, C02 shape, C03 walk, C04 nearest)"""
    def __init__(self, aspects):
        self.aspects = aspects
        self.reset(0)

    def reset(self, mode):
        self.armed = False
        self.ideal = Ideal(mode)
        self.walk = None            # progress of a step-wise walk: list of remaining items
        self.unfinished = False     # a walk was left unfinished since the last reset of the iterator

    def step(self, op, line):
        line = re.sub(r"^allocs=(\d+|\*) ", "", line)
        w, f = op.split(), line.split()
        a = self.aspects
        I = self.ideal
        if line.startswith("fault") or line.startswith("dead"):
            return "operation `%s` ended in %s" % (op, line)
        st = state_of(line)
        kind = w[0]
        err = None
        if kind == "errno":
            return None if line == "ok" else "harness rejected the operation"
        if kind in ("hugetree", "bigtree"):
            # self-checking pass of the harness over a private table with a value / key of >= 2^31 bytes
            return None if line == "ok live=0" else "self-checking pass `%s`: %s" % (op, line[:200])
        if kind == "inv":
            # documented invalid arguments: every call fails with EINVAL and the table is unchanged
            bad = [x for x in f[1:13] if x != "0:EINVAL"]
            if len(f) < 13 or bad:
                return "a call with a NULL / zero-length key did not fail with EINVAL (result:errno per call): %s" % " ".join(f[1:13])
            self.armed = self.armed
            return self.post(op, st, a)
        strmap = {"puts": "put", "putf": "put", "gets": "get", "getss": "get", "rms": "rm"}
        if kind in strmap:
            # string-level entry points = object-level ones on key+NUL / value+NUL
            w = [strmap[kind], hexs(unhex(w[1]) + b"\0")] + ([hexs(unhex(w[2]) + b"\0")] if len(w) > 2 else [])
            if kind in ("gets", "getss"):
                f = f + ["cost=0"]
            kind = strmap[kind]
        armed, self.armed = self.armed, False
        if kind in ("fault", "faultfrom"):
            self.armed = True
            return None
        if kind in ("quiet", "dump", "size", "cursor0", "walk", "clear"):
            self.armed = armed          # no library call window: the armed failure stays pending
        if kind == "end":
            m = re.match(r"end live=(-?\d+) bad=(\d+)", line)
            self.reset(0)
            if not m:
                return "malformed end line"
            if "ledger" in a and int(m.group(1)) != 0:
                return "%s blocks allocated by the container are still live after it was released" % m.group(1)
            if "copies" in a and int(m.group(2)) != 0:
                return "%s returned copies changed after later mutations / release of the container" % m.group(2)
            return None
        if armed and kind in ("put", "putnull", "get", "min", "max", "next", "near", "new"):
            # an allocation may have failed inside this call (C15): the call must either complete
            # correctly or report failure and leave the contents alone
            failed = (kind in ("put", "putnull") and f[0] == "false") or (kind == "get" and f[0] == "null") or \
                     (kind in ("min", "max", "near") and f[0] == "ENOMEM") or (kind == "next" and f[0] == "enomem") or \
                     (kind == "new" and f[0] == "null")
            if kind == "new":
                self.reset(int(w[1]) % 10)
                return None
            if failed:
                if kind == "get":
                    return None
                err = self.post(op, st, a)
                if kind == "next":
                    pass                    # the node stays unvisited: the walk bookkeeping is unchanged
                return err
        if kind == "new":
            self.reset(int(w[1]) % 10)
        elif kind in ("put", "putnull"):
            k = unhex(w[1])
            v = unhex(w[2]) if kind == "put" else (NullVal(int(w[2])) if int(w[2]) else b"")
            i = ident(I.mode, k)
            if i in I.d:
                I.d[i][1] = v           # every put replaces, also by an empty value
            else:
                I.d[i] = [k, v]
            if self.walk:
                self.unfinished = True
            self.walk = None
            if "map" in a and f[0] != "true":
                err = "put reported failure"
        elif kind == "rm":
            i = ident(I.mode, unhex(w[1]))
            present = i in I.d
            I.d.pop(i, None)
            if self.walk:
                self.unfinished = True
            self.walk = None
            if "map" in a and (f[0] == "true") != present:
                err = "remove returned %s for a key that was %s" % (f[0], "present" if present else "absent")
        elif kind == "clear":
            if self.walk:
                self.unfinished = True
            I.d.clear(); self.walk = None
        elif kind == "get":
            i = ident(I.mode, unhex(w[1]))
            want = I.d[i][1] if i in I.d and I.d[i][1] else None
            got = unhex(f[1]) if f[0] == "data" else None
            if "map" in a and got != want:
                err = "get returned %r, the ideal map holds %r" % (got, want)
            n = len(I.d)
            cost = int(f[-1].split("=")[1])
            if "shape" in a and cost > max(1, math.floor(2 * math.log2(n + 1))) and n > 0:
                err = "lookup among %d keys used %d comparisons > 2*log2(n+1)" % (n, cost)
        elif kind == "size":
            if "map" in a and int(f[0]) != len(I.d):
                err = "size %s, ideal map has %d keys" % (f[0], len(I.d))
        elif kind in ("min", "max"):
            items = I.sorted_items()
            want = None if not items else (items[0][0] if kind == "min" else items[-1][0])
            got = unhex(f[1]) if f[0] == "key" else None
            if "map" in a and got != want:
                err = "find_%s returned %r, expected %r" % (kind, got, want)
        elif kind == "walk":
            items = [kv(t) for t in f[2:f.index("|")]]
            if "walk" in a and items != I.sorted_items():
                err = "walk returned %d items %r, the table holds %r" % (len(items), items[:6], I.sorted_items()[:6])
            self.walk = None; self.unfinished = False
        elif kind == "cursor0":
            if self.walk:
                self.unfinished = True
            self.walk = ("fresh", list(I.sorted_items()))
        elif kind == "near":
            want = I.floor(unhex(w[1]))
            got = kv(f[1]) if f[0] == "found" else None
            if "nearest" in a and got != (tuple(want) if want else None):
                err = "nearest(%r) returned %r, expected %r" % (unhex(w[1]), got, want)
            if self.walk:
                self.unfinished = True
            # continuing from the returned cursor must visit every key exactly once (if quiescent)
            self.walk = ("near", list(I.sorted_items())) if want else None
        elif kind == "next":
            if self.walk is None:
                # a cursor used after a modification (outside the properties): whatever it did, a walk
                # may now be left unfinished in the current epoch - unless it just reported the end
                self.unfinished = (f[0] != "done")
            else:
                mode, remaining = self.walk
                if f[0] == "item":
                    it = kv(f[1])
                    if mode == "fresh":
                        if "walk" in a and (not remaining or remaining[0] != it):
                            err = "getnext returned %r, expected %r" % (it, remaining[0] if remaining else "end of walk")
                        if remaining:
                            remaining.pop(0)
                    else:
                        if it in remaining:
                            remaining.remove(it)
                        elif "nearest" in a and not self.unfinished:
                            err = "walk continued from nearest returned %r twice or a key that is not stored" % (it,)
                elif f[0] == "done":
                    if remaining and ((mode == "fresh" and "walk" in a) or (mode == "near" and "nearest" in a and not self.unfinished)):
                        err = "walk ended although %d keys were not visited: %r" % (len(remaining), remaining[:4])
                    self.walk = None; self.unfinished = False
        if err is None:
            err = self.post(op, st, a)
        return err

    def post(self, op, st, a):
        """checks on the state reported after an operation"""
        I = self.ideal
        err = None
        if st is not None:
            if "ledger" in a:
                want = 1 + sum(3 if v else 2 for _, v in I.d.values())
                if st["live"] != want:
                    return "after `%s` the container holds %d live blocks, its contents account for %d" % (op, st["live"], want)
            if ("map" in a or "atomic" in a) and st["num"] != len(I.d):
                err = "key count %d, ideal map has %d" % (st["num"], len(I.d))
            if "shape" in a:
                if st["chk"] != 0:
                    err = "qtreetbl_check() = %d after `%s`" % (st["chk"], op)
                elif st["shape"] is not None:
                    t = parse_shape(st["shape"])
                    e = llrb_violation(t)
                    if e:
                        err = "after `%s`: %s" % (op, e)
                    else:
                        ks = [k for k, _ in inorder(t, [])]
                        if ks != [k for k, _ in I.sorted_items()]:
                            err = "after `%s`: keys in search order %r differ from the ideal map's %r" % (op, ks[:6], [k for k, _ in I.sorted_items()][:6])
            if err is None and "map" in a and st["shape"] is not None:
                # the stored keys AND values (bytes and lengths, read through the public node fields)
                # are exactly the ideal map's after every operation
                items = inorder(parse_shape(st["shape"]), [])
                if items != [tuple(x) for x in I.sorted_items()]:
                    bad = [(x, y) for x, y in zip(items, [tuple(x) for x in I.sorted_items()]) if x != y][:2]
                    err = "after `%s` the table's contents differ from the ideal map's: %r" % (op, bad or (len(items), len(I.d)))
            if err is None and "atomic" in a and st["shape"] is not None:
                t = parse_shape(st["shape"])
                items = inorder(t, [])
                if items != [tuple(x) for x in I.sorted_items()]:
                    err = "after `%s` the table holds %r, expected %r" % (op, items[:6], I.sorted_items()[:6])
                elif st["chk"] != 0 or llrb_violation(t):
                    err = "after `%s` the tree is not a valid LLRB tree (check=%d)" % (op, st["chk"])
        return err


class TreeCheck(Check):
    module = "tree"
    harness = "tree"
    lib = "libqw.a"          # allocator traffic of the library is counted (harness/allocwrap.h)
    aspects = ()
    assumptions = ["hand model of qtreetbl.c validated on the explored histories only (differential, after every operation: "
                   "shape, colours, keys, values, traversal ids, parent pointers)",
                   "memcmp/malloc behave as modelled; comparator is a total preorder"]

    def judge_history(self, ops, impl_lines):
        o = TreeOracle(self.aspects)
        for i, (op, l) in enumerate(zip(ops, impl_lines)):
            e = o.step(op, l)
            if e:
                return i, e
        return None

    def nontrivial_key(self, op, line):
        st = state_of(line)
        return (op.split()[0], line.split()[0], st["shape"] if st else None)

    def classify(self, op, detail):
        return "qtreetbl:" + op.split()[0]

    def regenerate(self):
        from translator import treeconfig
        return [treeconfig.write(vlib.REPO, os.path.join(vlib.LEAN, "QlibcModel/Generated/TreeConfig.lean"))]

    # ---- generators
    def keys(self, n):
        base = [b"k%02d\0" % i for i in range(n)]
        return base

    def bfs_stream(self, nkeys, maxstates, extra_probe=None, name="bfs"):
        """all tree states reachable with `nkeys` keys by put/remove, discovered by driving the
        real implementation level by level; every edge becomes `new; path; edge [; probes]`"""
        keys = self.keys(nkeys)
        edges = ["put %s 7631" % hexs(k) for k in keys] + ["rm %s" % hexs(k) for k in keys]
        impl_dir = vlib.build_impl("asan")
        hbin = vlib.build_harness(self.harness, impl_dir, "asan", self.wraps, lib=self.lib)
        seen = {"."}
        frontier = [[]]
        all_ops = []
        nstates = 1
        while frontier and nstates < maxstates:
            batch, index = [], []
            for path in frontier:
                for e in edges:
                    index.append((path, e, len(batch) + len(path) + 1))
                    batch += ["new 0"] + path + [e]
            out, rc, err = vlib.run_proc([hbin], "\n".join(batch) + "\n")
            nxt = []
            for path, e, pos in index:
                if pos >= len(out):
                    break
                st = state_of(out[pos])
                shp = st["shape"] if st else None
                seg = ["new 0"] + path + [e]
                if extra_probe:
                    seg += extra_probe(keys)
                all_ops += seg
                if shp is not None and shp not in seen:
                    seen.add(shp); nstates += 1
                    nxt.append(path + [e])
            if rc != 0:
                break
            frontier = nxt
        self.extra_cov = dict(getattr(self, "extra_cov", {}), bfs_states=nstates, bfs_keys=nkeys,
                              bfs_complete=not frontier)
        return Stream("%s-%dkeys" % (name, nkeys), all_ops, history=True,
                      note="%d distinct tree shapes reached; every put/remove edge from each" % nstates)

    @staticmethod
    def nulldata_ops(faults=False):
        """entries stored with a NULL data pointer and a non-zero size (accepted by put, kept as is):
        every accessor on them, replacement in both directions, optionally under allocation faults"""
        ks = [b"a", b"b", b"c", b"d", b"e"]
        ops = ["new 0"]
        for i, k in enumerate(ks):
            ops.append("putnull %s %d" % (hexs(k), (1, 8, 32)[i % 3]) if i % 2 == 0 else "put %s 76" % hexs(k))
        probes = ks + [b"\0", b"bb", b"z"]
        arms = ["fault 1", "fault 2", "faultfrom 1"] if faults else [None]
        for arm in arms:
            for k in probes:
                for o in ("get", "near"):
                    ops += ([arm] if arm else []) + ["%s %s" % (o, hexs(k))]
            ops += ["near %s" % hexs(b"a")] + ["next"] * 7 + ["cursor0"] + ["next"] * 6 + ["walk", "min", "max", "size", "dump"]
        ops += ["put %s 7777" % hexs(b"a"), "putnull %s 8" % hexs(b"b"), "putnull %s 4" % hexs(b"a"), "putnull %s 0" % hexs(b"c"),
                "putnull %s 16" % hexs(b"f"), "dump"]
        for k in probes + [b"f"]:
            ops += ["get %s" % hexs(k), "near %s" % hexs(k), "next", "next"]
        ops += ["rm %s" % hexs(b"a"), "rm %s" % hexs(b"f"), "walk", "clear", "putnull %s 3" % hexs(b"q"), "near %s" % hexs(b"q"), "next", "next"]
        return ops

    @staticmethod
    def stringapi_ops(big=False):
        """putstr / putstrf / getstr / get / remove by C string, formatted values around the sizes at
        which the formatting buffer grows, and the documented invalid-argument calls"""
        lens = [0, 1, 5, 200, 255, 256, 257] + list(range(1020, 1030)) + list(range(2044, 2052)) + [4095, 4096, 4097]
        if big:
            lens += list(range(1000, 1050)) + [8191, 8192, 8193, 16384, 70000]
        ks = [b"a", b"b", b"c", b"d"]
        ops = ["new 0", "inv 6b"]
        for i, n in enumerate(lens):
            k = ks[i % 4]
            v = bytes(0x41 + (j * 7 + n) % 26 for j in range(n))
            ops += ["%s %s %s" % ("putf" if i % 3 else "puts", hexs(k), hexs(v)), "getss %s" % hexs(k), "gets %s" % hexs(k)]
            if i % 5 == 4:
                ops += ["rms %s" % hexs(k), "gets %s" % hexs(k), "rms %s" % hexs(k), "inv %s" % hexs(k)]
        ops += ["walk", "inv 6b", "clear", "inv 6b", "putf 61 7a", "getss 61", "dump"]
        return ops

    @staticmethod
    def fault_walk_ops(big=False):
        """allocation failures INSIDE walks (C15: the failed call can be repeated; C03/C04: the walk
        still visits every key exactly once), at every value of the 8-bit traversal epoch around its
        wrap-around: a failed first call then an abandoned walk then a fresh walk; a failed call in
        the middle of a walk / of a search continuation, retried"""
        ks = [b"w%02d" % i for i in range(7)]
        puts = ["put %s 76" % hexs(k) for k in ks]
        n = len(ks)
        ops = []
        # a failed first getnext, the retry delivers keys, the walk is abandoned, a fresh walk follows
        for j in (1, 2, 4):
            ops += ["new 0"] + puts
            for rnd in range(3):
                ops += ["cursor0", "fault 1", "next"] + ["next"] * j + ["cursor0"] + ["next"] * (n + 1)
            ops += ["walk"]
        # failures in the middle of a walk and of a search continuation, around the wrap-around
        for extra in (0, 1):
            for w in (range(122, 131) if not big else range(100, 140)):
                ops += ["new 0"] + puts + ["near %s" % hexs(ks[0])] + ["next"] * (n + extra)
                ops += ["walk"] * w
                ops += ["cursor0", "next", "next", "fault 1", "next", "fault 2", "next"] + ["next"] * (n + 1)
                ops += ["near %s" % hexs(ks[2]), "fault 1", "next", "next", "fault 1", "next"] + ["next"] * (n + 1)
                ops += ["walk"]
        return ops

    @staticmethod
    def epoch_sweep_ops(big=False):
        """every round inserts a FRESH key (its stamp is the calloc'ed 0), removes an old one and then
        either walks from a zero cursor or searches and continues: the epoch advances by one or two
        per round, so over 600 rounds every value of the 8-bit counter (and of any narrower stamp
        field) meets a freshly inserted node, in both parities"""
        ops = ["new 0"] + ["put %s 76" % hexs(b"e%03d" % i) for i in range(5)]
        nxt, old = 5, 0
        for rnd in range(800 if not big else 2400):
            ops += ["put %s 77" % hexs(b"e%03d" % nxt), "rm %s" % hexs(b"e%03d" % old)]
            nxt += 1; old += 1
            # exactly as many getnext calls as a complete walk needs (5 keys: a surplus call on an
            # exhausted cursor would start - and advance the epoch of - another walk)
            if rnd % 3 == 0:
                ops += ["cursor0"] + ["next"] * 6
            elif rnd % 3 == 1:
                ops += ["near %s" % hexs(b"e%03d" % old)] + ["next"] * 5
            else:       # two searches in a row, each continued to the end (no walk is ever left unfinished here)
                ops += ["near %s" % hexs(b"e%03d" % (old + 2))] + ["next"] * 5 + ["near %s" % hexs(b"e%03d" % old)] + ["next"] * 5
        ops += ["walk"]
        return ops

    def corpus_streams(self):
        sts = super().corpus_streams()
        sts.append(Stream("string-level-api", self.stringapi_ops(self.tier != "quick"), history=True))
        if "walk" in self.aspects or "nearest" in self.aspects:
            sts.append(Stream("faults-inside-walks", self.fault_walk_ops(self.tier != "quick"), history=True))
            sts.append(Stream("epoch-sweep", self.epoch_sweep_ops(self.tier != "quick"), history=True,
                              note="a fresh key, then a walk / a search with continuation, at EVERY value of the 8-bit epoch (both parities)"))
        # user comparators that identify keys of different lengths (3) / that leave errno set (4)
        rng = self.rng
        kg3 = lambda n_: [bytes(rng.choice(b"ab") for _ in range(rng.randrange(1, 3))) + b" " * rng.randrange(0, 4) for _ in range(n_)]
        for mode, kg in ((3, kg3), (4, None)):
            sts.append(Stream("random-comparator%d" % mode,
                              self.random_history(500 if self.tier == "quick" else 5000, 24, mode,
                                                  ops=("put", "put", "rm", "get", "near", "nearnext", "walk", "min", "max", "size"),
                                                  quiet=False, keygen=kg), history=True))
        # the same table created thread-safe (single-threaded use must not differ: error reports, errno)
        ts = [o.replace("new 0", "new 10") for o in self.nulldata_ops(faults=True) + self.fault_walk_ops(False)[:400]]
        sts.append(Stream("threadsafe-option", ts, history=True))
        if "shape" in self.aspects:
            sts.append(Stream("big-tree", ["bigtree"], history=False, nomodel=True,
                              note="self-checking pass: 850000 keys in an order that makes the spine below the root's right child as "
                                   "long as the balance invariant allows, removal of the key above it and of every 997th key"))
        if self.tier != "quick":
            sts.append(Stream("huge", ["hugetree 2147483649", "hugetree 4294967312"], history=False, nomodel=True,
                              note="self-checking passes over a private table with one value and one key of 2^31+1 / 2^32+16 bytes: "
                                   "sizes reported by get / getnext / find_nearest, replacement, removal, order of the 1-byte prefix key"))
        sts.append(Stream("null-data-values", self.nulldata_ops(), history=True))
        return sts

    def random_history(self, n, nkeys, mode=0, ops=("put", "put", "rm", "get", "size", "min", "max"), quiet=True, keygen=None):
        rng = self.rng
        if keygen is None:
            pool = [bytes(rng.randrange(256) for _ in range(rng.choice([1, 2, 3, 8, 20, 64]))) for _ in range(nkeys)]
            pool += [p[:-1] for p in pool[:nkeys // 4] if len(p) > 1] + [p + b"\0" for p in pool[:nkeys // 4]]
        else:
            pool = keygen(nkeys)
        out = ["new %d" % mode] + (["quiet 1"] if quiet else [])
        for i in range(n):
            if rng.random() < 0.04:
                # the errno value the caller brings into the following calls: no result may depend on it
                out.append("errno %s" % rng.choice(["0", "ENOMEM", "ERANGE", "EINTR", "ENOENT", "EINVAL", "EAGAIN", "ENOBUFS"]))
            o = rng.choice(ops)
            k = rng.choice(pool)
            if o == "put":
                if rng.random() < 0.06:
                    out.append("putnull %s %d" % (hexs(k), rng.choice([1, 8, 32])))   # NULL data with a size
                    continue
                v = bytes(rng.randrange(256) for _ in range(rng.choice([0, 1, 1, 3, 40])))
                if k.endswith(b"\0") and b"\0" not in k[:-1] and b"\0" not in v and rng.random() < 0.5:
                    out.append("%s %s %s" % (rng.choice(["puts", "putf"]), hexs(k[:-1]), hexs(v)))   # string-level put
                    continue
                out.append("put %s %s" % (hexs(k), hexs(v)))
            elif o in ("rm", "get", "near"):
                if o != "near" and k.endswith(b"\0") and b"\0" not in k[:-1] and rng.random() < 0.5:
                    out.append("%s %s" % ({"rm": "rms", "get": "gets"}[o], hexs(k[:-1])))
                    continue
                if rng.random() < 0.02:
                    out.append("inv %s" % hexs(k))
                if rng.random() < 0.15:
                    k = bytes(rng.randrange(256) for _ in range(rng.randrange(1, 5)))
                out.append("%s %s" % (o, hexs(k)))
            elif o == "abandon":
                out.append("cursor0")
                out += ["next"] * rng.randrange(0, 6)
            elif o == "fullnext":
                out.append("cursor0")
                out += ["next"] * (min(nkeys, 40) + 2)
            elif o == "nearnext":
                # a search (mostly for a stored key) continued with getnext until the end
                out.append("near %s" % hexs(k))
                out += ["next"] * (min(nkeys, 40) + 2)
            else:
                out.append(o)
            if quiet and i % 97 == 0:
                out.append("dump")
        if quiet:
            out.append("dump")
        return out

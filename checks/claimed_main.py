"""CLAIMED entries (MANIFEST) for the checks built by the integrator."""

CLAIMED = {
    "C16": dict(
        text="Lean 4 theorems over the model of qencode.c (tables regenerated from the source on every run): "
             "decode∘encode = id for URL/Base64/hex for all byte strings, RFC 4648 format, URL alphabet, "
             "decoder spellings, query-string round trip (query_roundtrip_any_sep: for EVERY pair of distinct separators that "
             "are not NUL and never emitted by qurl_encode - sep_admissible decides this from the regenerated table - not only "
             "'=' and '&'); model tied to the code by a differential "
             "correspondence run (all strings of length 0-2, sampled length 3, random up to 8 KiB; query parsing with every "
             "pair of separators from {=,&,;,space,NUL,0x80,0xff,%,+} against an independent reference reading). Query text stored IN the destination table (unique keys) with pairs that re-define its entry: exact reference reading, ASan; allocation ledger of qparse_queries (1 + 5 per pair, nothing left); a different ambient errno is planted before every library call.",
        note="trusted: Lean kernel, translator/tables.py (gcc -E + regex), the hand transcription of the loops "
             "(validated only on explored inputs), gcc/ASan; x86-64 signed char.",
        technique="Lean 4 proof (induction over byte lists, decide +kernel over regenerated tables) + "
                  "K-gen tables + differential correspondence",
        design="7/C16"),
    "C17": dict(
        text="Lean 4 theorems: for EVERY NUL-free input the in-place URL/Base64/hex decoders (raw-buffer models with "
             "checked reads/writes and fuel) return ok, never touch a byte outside `s ++ [0]`, produce at most |s| bytes and "
             "terminate the result; the query-string parser is total; makeword_raw_safe: the raw-buffer model of _q_makeword "
             "(checked reads/writes) returns ok for EVERY NUL-free string and EVERY stop byte incl. '\\0' and equals the "
             "list-level split; makeword_nul_stop: with stop '\\0' the whole string is the word and nothing is left. "
             "Correspondence: exhaustive strings over each "
             "format's significant alphabet + random inputs in exactly sized heap buffers under ASan/UBSan. "
             "Parser half (Props/C17Parsers.lean): the raw-buffer Apache-style tokenizer returns for every line with no "
             "out-of-bounds access, the Apache-style parse and the INI-style parse (incl. bounded ${} expansion of self- "
             "and mutually referential values) return a result or an error for EVERY input; correspondence: exhaustive "
             "short strings over each grammar's significant bytes, grammar-aware mutated documents, lines around "
             "MAX_LINESIZE, deep nesting, under ASan with a per-call watchdog. qconfig_parse_file's @INCLUDE loop "
             "(model over an abstract file system path -> content): iniParseFile_total - a table or an error for every file "
             "system incl. self- and mutually including files (budget _MAX_INCLUDES regenerated from the source); "
             "correspondence over real temporary files: cycles, missing files, paths around PATH_MAX, directives not at the "
             "beginning of a line, repeated directive text, lines that only LOOK like the directive (no blank, other case, "
             "other continuation, directive at end of input), separators =,:,space,NUL,#,[ for parse_str/parse_file, "
             "_q_makeword / qparse_queries with stop bytes incl. NUL, 0x80, 0xff, %, +. "
             "Formatted texts and command output: fmt_total / fmt_dup_total (the retry loop of DYNAMIC_VSPRINTF behind qaconf's "
             "error message and qconfig's `section.key` names terminates for EVERY formatted length and returns exactly the "
             "text; that the macro of the current header is this loop - 1024, doubled - is the regenerated obligation "
             "Shapes.Conf.fmt_macro_as_modelled), qfile_read_total (qfile_read behind qsyscmd / `${!command}`: for every stream "
             "content and every nbytes no access outside the current block, result = the bytes taken + terminator); "
             "correspondence: `section.key` names and error messages (each error kind, the harness sizes the file path) of "
             "EVERY total length 1020..1029, 2044..2053, 4080..4110, 8180..8200, stubbed command output of 1000..1030, "
             "2040..2056, 4090..4100, 8190..8194 bytes, 1 MiB +-1 and 2^21-1 .. 2^22+1 bytes, qfile_read with every kind of "
             "nbytes around the block sizes, documents of 65534..70001 lines, all under the per-call watchdog. Ambient state the models do not have: before "
             "EVERY library call the harnesses plant an errno value (0, ENOMEM, ERANGE, EINTR, ENOENT, EINVAL, EAGAIN, ENOBUFS, "
             "chosen from the operation text), a sample of the Apache-style documents and of the main files of "
             "qconfig_parse_file is read through a PIPE (not seekable, fstat size 0), documents start with EF BB BF; "
             "qparse_queries on a query text that lives in the destination table and is re-defined by one of its pairs.",
        note="trusted: Lean kernel, hand transcription of the decoder loops (validated on explored inputs), gcc/ASan; "
             "wall-clock termination of compiled code is observed by timeouts, the theorem is about fuel; the include loop's buffer accesses are "
             "list operations in the model (its PATH_MAX overflow was found by the harness under ASan); popen of ${!cmd} "
             "is stubbed on both sides (the stub's FILE* goes through the real qsyscmd / qfile_read). Thirteen defects of the pinned "
             "tree repaired first (the last: qfile_read wrote the terminator of a one-byte read behind its block).",
        technique="Lean 4 proof (loop invariants on an in-place buffer, induction on fuel) + differential correspondence under ASan",
        design="7/C17"),
}


CLAIMED.update({
    "C01": dict(
        text="Lean 4 theorems over a mechanism-level model of qtreetbl.c (LLRB 2-3-4 put_obj/remove_obj/fix/move_red_*, "
             "generic in the comparator: any total preorder; qtreetbl_byte_cmp proved to be one): put succeeds, keeps the "
             "table invariant and equals the ideal sorted-map insert/replace; get, size, find_min/find_max, clear equal "
             "the ideal map's; remove succeeds exactly for present keys and equals the ideal delete (the LLRB shape "
             "invariant is needed for this: the bottom case drops a child unseen); operations on one key never change "
             "another; history_refines: EVERY finite history from a fresh table returns exactly the ideal sorted map's "
             "outputs and never faults (induction over the operation list). Model tied to the code by a differential correspondence run "
             "after EVERY operation (shape, colours, keys, values, traversal ids, parent pointers, live allocation "
             "count): BFS over all tree shapes reachable with a bounded key universe, exhaustive short sequences, "
             "random histories under three comparators, values incl. empty ones and NULL data with a size, the string-level "
             "entry points (putstr/putstrf with every formatted length 0..2100/get/getstr/remove by C string) and the "
             "documented invalid-argument calls (EINVAL, nothing changes).",
        note="trusted: Lean kernel, hand transcription of qtreetbl.c (validated on explored histories), gcc/ASan, "
             "malloc/memcmp as modelled. The theorems hold for every `keeps the old value` predicate of put; the code is the "
             "instance replaceAlways (history_refines_exact, get_after_put). One defect of the pinned tree repaired first "
             "(a put of an EMPTY value over an existing key kept the old value).",
        technique="Lean 4 proof (Nipkow-style inorder refinement + LLRB invariant by induction on fuel) + differential correspondence",
        design="7/C01"),
    "C02": dict(
        text="Lean 4 theorems: insertion (also one whose allocation fails) and removal (present or absent key) on a valid "
             "2-3-4 left-leaning red-black search tree never fault and yield a valid tree (put_post, remove_llrb: inductive "
             "class contract per helper, induction on fuel); reachable_llrb: after every operation of every history the "
             "tree is valid with an exact key count; qtreetbl_check() = 0 iff the tree is valid (check_agrees); "
             "height <= 2*log2(n+1) and hence lookups use at most 2*log2(n+1) comparisons (height_bound, find_cost). "
             "The LLRB variant macro is re-read from the source on every run. Correspondence: every tree state reachable "
             "with a bounded key universe (BFS driven through the C code), ordered and random histories; after every "
             "operation the dumped tree is checked by an independent LLRB predicate and by qtreetbl_check().",
        note="trusted: Lean kernel, hand transcription of qtreetbl.c (validated on explored histories), translator/treeconfig.py.",
        technique="Lean 4 proof (inductive balance invariant, case analysis per fix-up shape) + K-gen variant flag + differential correspondence",
        design="7/C02"),
    "C19": dict(
        text="Lean 4 theorems: the raw-buffer model of qstring.c (trim family, unquote, replace in all four modes with the "
             "maxstrlen bound, bounded copies, line reader, tokenizer, reverse, case conversion, dup_between) computes "
             "exactly the reference functions for all NUL-free strings and all sizes, with every write inside the "
             "contract's buffer; the in-place replace fit condition is exact; qstr_comma_number for every int incl. INT_MIN "
             "inside its 15-byte block (comma_number_eq/_fits), qstrtest, qstr_is_ip4addr = four parts of one to three "
             "digits <= 255 (is_ip4addr_eq), qstr_is_email = the declarative isEmail (is_email_eq), qstrdupf / qstrcatf "
             "over the DYNAMIC_VSPRINTF doubling loop (dupf_eq, catf_eq: old content kept, exactly |out|+1 bytes written), "
             "qstrunique's shape; qstrcpy / qstrncpy with source and destination in ONE block, any offsets in either "
             "direction (strcpy_overlap_eq / strncpy_overlap_eq / *_bounded: the bytes at dst are the ORIGINAL source "
             "bytes, clamped, then NUL; nothing outside [dst, dst+n] changes). Tied to the code by an exhaustive (strings "
             "of length <= 5 over the significant alphabet, all buffer sizes 1..n+2, all short (source, token, word) "
             "triples) plus random differential correspondence under ASan with exactly sized / guarded buffers.",
        note="trusted: Lean kernel, hand transcription of qstring.c (validated on explored inputs), strstr/strncmp modelled "
             "by their C-standard definitions (also snprintf/vsnprintf/atoi/strchr/strdup/strcat/<ctype.h>), gcc/ASan; strings "
             "NUL-free, sizes < 2^64, empty search token excluded; qstr_conv_encoding (iconv) not modelled; leading zeros in "
             "IPv4 parts and the e-mail grammar are modelled as the code has them (the documentation names no grammar). "
             "Four defects of the pinned tree repaired first (comma_number(INT_MIN), three in qstr_is_ip4addr).",
        technique="Lean 4 proof (list induction, loop invariants on raw buffers with checked accesses) + differential correspondence",
        design="7/C19"),
})

CLAIMED.update({
    "C03": dict(
        text="Lean 4 theorems over the pointer-machine model of qtreetbl_getnext (node identifiers, 8-bit epoch stamps, "
             "parent pointers written during the descent, reset with wrap-around handling): under EpochInv (every stamp "
             "<= the table's epoch, identifiers distinct) a walk from a zero cursor returns exactly the in-order key/value "
             "sequence - every key once, ascending under a search order - then the end, never dangling, within the fuel; "
             "EpochInv is preserved by put, remove, clear, complete walks, walks abandoned after any number of steps, "
             "nearest searches with continuations and by the epoch reset INCLUDING wrap-around (epoch_inv_step), hence "
             "traversal_any_history: after ANY history a walk returns exactly the contents. Correspondence: every state "
             "reachable with a bounded key universe followed by abandoned walk/search/full walk, >256 traversal starts "
             "crossing the wrap-around, deterministic wrap probes, random histories; stamps and parent pointers of every "
             "node compared after every call.",
        note="trusted: Lean kernel, hand transcription (validated on explored histories). traversal_any_history is "
             "conditional on the history's put/remove calls returning ok, which C01/C02 prove separately under the table "
             "invariant. A cursor kept across a modification or across an epoch wrap-around is outside the property. "
             "One defect of the pinned tree repaired first (epoch wrap).",
        technique="Lean 4 proof (zipper invariant over the pointer machine, induction on subtrees and histories) + differential correspondence",
        design="7/C03"),
    "C04": dict(
        text="Lean 4 theorems over the model of qtreetbl_find_nearest (descent writing parent pointers with the root's "
             "cleared first, climb while the probe is below the node): with distinct identifiers alone the search never "
             "faults and terminates within height+2 steps (every pointer followed was written by this descent); under a "
             "search order it returns exactly the floor entry (equal key, else greatest smaller, else the minimum; "
             "not-found iff empty); the answer depends only on the in-order contents (history independence); when no walk "
             "was left unfinished, continuing with getnext from the returned cursor visits every key exactly once and "
             "ends. Correspondence: every probe (each key, each gap, below min, above max) against every state reachable "
             "with a bounded universe and after random histories incl. abandoned walks, under a per-call watchdog.",
        note="trusted: Lean kernel, hand transcription (validated on explored histories), watchdog for wall-clock "
             "termination of the compiled code. One defect of the pinned tree repaired first (stale root parent link).",
        technique="Lean 4 proof (BST path reasoning over a zipper, fuel bound) + differential correspondence",
        design="7/C04"),
    "C11": dict(
        text="The logic part of memory safety is a set of Lean theorems: every model function whose C original can "
             "dereference NULL, follow a dangling pointer, index out of bounds, loop forever or memcpy overlapping ranges "
             "returns Except Fault, and is proved to return ok for ALL histories/inputs (tree put/remove/walk/nearest, "
             "list walk and index walk, vector block move with the primitive the current source calls, in-place decoders, "
             "hash reads, string writes - audited as obligations of this check), plus the allocation ledger facts. "
             "Machine-level safety is sampled: every stream of every container runs on an ASan+UBSan+LSan build with "
             "exactly sized caller buffers, the library's allocator traffic is counted (objcopy-renamed malloc family) "
             "and the live-block count is compared with the model's ledger after EVERY operation and must be 0 after "
             "release.",
        note="PARTIAL by nature: Lean proves nothing about the machine code; sanitizers sample the explored histories. "
             "Ledger streams and ledger theorems cover the tree table, list/queue/stack/grow/vector (Props/C11Seq.lean) "
             "and hash table/list table (Props/C11Map.lean): the library's live-block count is compared with the model's "
             "ledger after every operation and must be 0 after release. Static hash table: guard zones and byte-exact "
             "image comparison (C07), exactly sized heap regions under ASan, and the handle / copies of get/getstr/getnext / "
             "putstrf buffers in the ledger (Props/C11Harr.lean: harr_history_ledger, harr_handle_ledger).",
        technique="Lean 4 proof of fault-freedom obligations + sanitizer build + allocation-ledger correspondence",
        design="7/C11"),
    "C12": dict(
        text="Byte-exactness for all contents is a corollary of the refinement theorems (stated over arbitrary byte lists "
             "with lengths: embedded/trailing NUL, zero-filled elements) plus stored_bytes_exact; independence of caller "
             "buffers and of returned copies is an address-level fact tied by correspondence: harnesses scribble and free "
             "the caller's key/value buffers right after every put, keep every copy handed out by a copying accessor with "
             "a private duplicate and re-compare after later replace/remove/clear and after the container is released "
             "(a retained internal pointer is a use-after-free under ASan).",
        note="Address-level layer (Props/C12Mem.lean): a block-heap model of the library's copy discipline (qmemdup/strdup "
             "on insertion, fresh copies for newmem/pop/find_min/static get, owned block for newmem=false) with theorems "
             "for ALL interleavings of container operations and caller scribble/free actions: owned blocks are live, "
             "distinct and disjoint from every caller block (owned_disjoint), observations do not depend on caller "
             "scribbles (noninterference, put_get_reads_bytes_at_put_time), returned copies survive replace/remove/"
             "release (copy_survives), newmem=false aliases the stored block (nocopy_aliases), release frees everything "
             "(release_frees_all). The heap model is generic (not generated from each container's code); that each C call "
             "site follows the discipline is tied by the scribble / retained-copy correspondence, which runs for the tree "
             "table, list/queue/stack/grow/vector and hash table/list table harnesses (`end live=0 bad=0`).",
        technique="Lean 4 refinement corollaries + scribble/retained-copy correspondence under ASan",
        design="7/C12"),
    "C15": dict(
        text="Lean 4 theorems for the tree table under ANY allocation plan (which attempt fails): put returns without "
             "fault, the table invariant (order, LLRB shape, count) holds, and a reported failure leaves contents and count "
             "exactly as before (a failed insertion only restructures); copying get returns nothing or the stored value; "
             "remove needs no allocation; equal contents imply equal live blocks (no leak). The plan forms mirror the "
             "order of calloc/qmemdup calls and are tied to the code by fault enumeration: for every allocating operation "
             "x prefix states x failure at the 1st..4th allocation (single, and all-from-k) the C call is run with exactly "
             "that allocation failing (objcopy-renamed allocator), and result, allocation count, full state and live "
             "blocks must equal the model's. The same for list/queue/stack/grow/vector (Props/C15Seq.lean: every allocating "
             "operation and constructor, *_fault_atomic, ctor_fault, *_history_under_faults = fault_then_normal for all "
             "histories and plans) and for hash table/list table (Props/C15Map.lean: put/putstrf/get/getnext/getmulti/"
             "load/save/ctor, fault_then_normal).",
        note="theorems are about the allocation-plan models (hand transcriptions of the allocation order, validated by the "
             "fault enumeration: attempt counts compared on every call); static hash table: the handle, the copies of "
             "get/getstr/getnext and the putstrf buffers under every allocation plan (Props/C15Harr.lean: "
             "harr_call_fault_atomic, harr_fault_then_normal, harr_getnext_retry; fault enumeration at each allocation of "
             "every allocating call); mutex-init failures other than allocation are not modelled. "
             "Twelve defects of the pinned tree repaired first.",
        technique="Lean 4 proof (failure atomicity via the generalised insertion invariant) + fault-enumeration correspondence",
        design="7/C15"),
})

CLAIMED.update({
    "C20": dict(
        text="Lean 4 theorems over models of qconfig_parse_str and qaconf's _parse_inline (raw-buffer tokenizer, option "
             "lookup, scope/count/type checks, bool rewrite, callbacks): ac_tokenize (tokenize . render = args for every "
             "argument list, quoting style, escape choice and blank layout), ac_number and ac_bool (the documented "
             "classifiers, every spelling in any case, rewrite to 1/0), ini_roundtrip (documents with sections, comments, "
             "${name}/${%ENV}/${!cmd} references parse to exactly the expected entries in order, with section prefixes "
             "and marker entries, references resolved to the value in effect), ac_callbacks / ac_accept_iff (for every "
             "option table, flags, default handler and every document of directives and arbitrarily nested sections in "
             "every layout: the callback stream - otype, section id, accumulated section bits, level, parent chain, "
             "normalised argv, close callbacks with the opening directive's data - and the count, or the line of the "
             "first offence, equal the declarative reading of the documentation; accepted iff Conforms); ac_malformed (a "
             "section still open at end of input, or a closing tag that closes nothing followed by arbitrary text: rejected "
             "with -1, the error names the line of the first offence, callbacks exactly those of the prefix); "
             "ac_no_final_newline (same result, message included, with or without the final LF); ini_roundtrip incl. "
             "literal `$` (DollarOk) and references nested one level (for every separator that is neither white space nor NUL: "
             "hypotheses hsep, hs0 - with sepchar NUL the code builds EMPTY section prefixes, which the model reproduces); "
             "ac_reused_object_same_reading / ac_errmsg_names_this_call / ac_no_stale_errmsg (a qaconf object that has parsed before - "
             "any history of parses and reseterror calls - reads the next document exactly like a fresh one; object model Conf/AconfObj.lean, "
             "exercised call by call through the `acre` operation); "
             "ini_include_directive (the directive the model recognises is the source's _INCLUDE_DIRECTIVE, regenerated on "
             "every run: 9 bytes ending in a blank), include_free_is_parseStr (a file with no line beginning with the "
             "directive parses exactly as its text does, whatever look-alike lines it has) and include_splice (the first "
             "directive line is replaced by exactly the named file's content, path resolved against the including file's "
             "directory); ac_long_comment_ignored (a comment of ANY length, in any section, makes no "
             "callback and counts as one line) and ac_long_directive_rejected / ac_long_line_error (any other line longer "
             "than MAX_LINESIZE-1 bytes: -1, \"Line is too long.\" naming that line, callbacks of the prefix only); "
             "ac_line_number_range (error line and returned count are at most the size of the file, hence exactly the numbers "
             "the C fields hold for files below 2^(8w-1) bytes, w = the regenerated width of qaconf_t.lineno: 4); constants "
             "regenerated from the headers. Correspondence: "
             "grammar-generated conforming and offending documents x option tables (take counts, types, scopes, flags), "
             "nesting, all bool spellings, number forms; INI documents with look-alike directive lines and separators from "
             "{=,:,space,#,[}; `section.key` names and error messages of every total length around 1024 * 2^k (each error "
             "kind), `${!command}` output of every length around the block sizes of qfile_read compared with the value the "
             "file says, documents of 65534..65540 and 70001 lines with the first offence on the last line (message names "
             "that line) and as many directives (returned count); the same documents read through a pipe (12 % of the "
             "Apache-style ones, 15 % of the main files) and under a different ambient errno per call: same reading; a leading "
             "EF BB BF is part of the first word; reference oracle computed from the grammar value.",
        note="ac_accept_iff / ac_callbacks are proved for ARBITRARILY NESTED, properly closed sections incl. refusing "
             "callbacks (induction over the document tree); over-long lines (repaired: the rest of a line that does not fit "
             "is consumed): comments of any length are covered by every document-level theorem (FLineOk has no bound for "
             "comments), other lines of the ACCEPTED documents are shorter than MAX_LINESIZE-1 (hypothesis of FLineOk / "
             "OpenOk / CloseOk - longer ones are rejected, MDoc.tooLong); ini_roundtrip excludes nesting deeper than one level, an unclosed `${` and substituted texts "
             "containing `${`; a refusing DEFAULT handler is checked against the oracle only (model: non-refusing). "
             "trusted: Lean kernel, hand transcription (validated on explored documents), translator/confconsts.py, "
             "gcc/ASan; C locale. Six defects of the pinned tree repaired first (the last two: the default handler's "
             "error was ignored and leaked; the rest of an over-long line was parsed as the next line).",
        technique="Lean 4 proof (simulation of the raw tokenizer, classifier equalities, document induction) + K-gen constants + grammar-based differential correspondence",
        design="7/C20"),
})

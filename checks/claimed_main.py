"""CLAIMED entries (MANIFEST) for the checks built by the integrator."""

CLAIMED = {
    "C16": dict(
        text="Lean 4 theorems over the model of qencode.c (tables regenerated from the source on every run): "
             "decode∘encode = id for URL/Base64/hex for all byte strings, RFC 4648 format, URL alphabet, "
             "decoder spellings, query-string round trip; model tied to the code by a differential "
             "correspondence run (all strings of length 0-2, sampled length 3, random up to 8 KiB).",
        note="trusted: Lean kernel, translator/tables.py (gcc -E + regex), the hand transcription of the loops "
             "(validated only on explored inputs), gcc/ASan; x86-64 signed char.",
        technique="Lean 4 proof (induction over byte lists, decide +kernel over regenerated tables) + "
                  "K-gen tables + differential correspondence",
        design="7/C16"),
    "C17": dict(
        text="Lean 4 theorems: for EVERY NUL-free input the in-place URL/Base64/hex decoders (raw-buffer models with "
             "checked reads/writes and fuel) return ok, never touch a byte outside `s ++ [0]`, produce at most |s| bytes and "
             "terminate the result; the query-string parser is total. Correspondence: exhaustive strings over each "
             "format's significant alphabet + random inputs in exactly sized heap buffers under ASan/UBSan. "
             "The INI/Apache parser half is pending (not yet modelled) and is named as such in the evidence.",
        note="trusted: Lean kernel, hand transcription of the decoder loops (validated on explored inputs), gcc/ASan; "
             "wall-clock termination of compiled code is observed by timeouts, the theorem is about fuel; parser half "
             "(qconfig/qaconf) not yet covered by theorems.",
        technique="Lean 4 proof (loop invariants on an in-place buffer, induction on fuel) + differential correspondence under ASan",
        design="7/C17"),
}


CLAIMED.update({
    "C01": dict(
        text="Lean 4 theorems over a mechanism-level model of qtreetbl.c (LLRB 2-3-4 put_obj/remove_obj/fix/move_red_*, "
             "generic in the comparator: any total preorder; qtreetbl_byte_cmp proved to be one): put succeeds, keeps the "
             "table invariant and equals the ideal sorted-map insert/replace; get, size, find_min/find_max, clear equal "
             "the ideal map's; remove succeeds exactly for present keys and equals the ideal delete (the LLRB shape "
             "invariant is needed for this: the bottom case drops a child unseen); operations on one key never change "
             "another; history_refines: EVERY finite history from a fresh table returns exactly the ideal sorted map's "
             "outputs and never faults (induction over the operation list). Model tied to the code by a differential correspondence run "
             "after EVERY operation (shape, colours, keys, values, traversal ids, parent pointers, live allocation "
             "count): BFS over all tree shapes reachable with a bounded key universe, exhaustive short sequences, "
             "random histories under three comparators.",
        note="trusted: Lean kernel, hand transcription of qtreetbl.c (validated on explored histories), gcc/ASan, "
             "malloc/memcmp as modelled; put over an existing key with an EMPTY value keeps the old value (modelled as is).",
        technique="Lean 4 proof (Nipkow-style inorder refinement + LLRB invariant by induction on fuel) + differential correspondence",
        design="7/C01"),
    "C02": dict(
        text="Lean 4 theorems: insertion (also one whose allocation fails) and removal (present or absent key) on a valid "
             "2-3-4 left-leaning red-black search tree never fault and yield a valid tree (put_post, remove_llrb: inductive "
             "class contract per helper, induction on fuel); reachable_llrb: after every operation of every history the "
             "tree is valid with an exact key count; qtreetbl_check() = 0 iff the tree is valid (check_agrees); "
             "height <= 2*log2(n+1) and hence lookups use at most 2*log2(n+1) comparisons (height_bound, find_cost). "
             "The LLRB variant macro is re-read from the source on every run. Correspondence: every tree state reachable "
             "with a bounded key universe (BFS driven through the C code), ordered and random histories; after every "
             "operation the dumped tree is checked by an independent LLRB predicate and by qtreetbl_check().",
        note="trusted: Lean kernel, hand transcription of qtreetbl.c (validated on explored histories), translator/treeconfig.py.",
        technique="Lean 4 proof (inductive balance invariant, case analysis per fix-up shape) + K-gen variant flag + differential correspondence",
        design="7/C02"),
    "C19": dict(
        text="Lean 4 theorems: the raw-buffer model of qstring.c (trim family, unquote, replace in all four modes with the "
             "maxstrlen bound, bounded copies, line reader, tokenizer, reverse, case conversion, dup_between) computes "
             "exactly the reference functions for all NUL-free strings and all sizes, with every write inside the "
             "contract's buffer; the in-place replace fit condition is exact. Tied to the code by an exhaustive (strings "
             "of length <= 5 over the significant alphabet, all buffer sizes 1..n+2, all short (source, token, word) "
             "triples) plus random differential correspondence under ASan with exactly sized / guarded buffers.",
        note="trusted: Lean kernel, hand transcription of qstring.c (validated on explored inputs), strstr/strncmp modelled "
             "by their C-standard definitions, gcc/ASan; strings NUL-free, sizes < 2^64, empty search token excluded.",
        technique="Lean 4 proof (list induction, loop invariants on raw buffers with checked accesses) + differential correspondence",
        design="7/C19"),
})

"""C16 — encoders/decoders are exact inverses and emit the standard formats."""
import base64, itertools, os
import vlib
from vlib import Check, Stream, hexs

FORBIDDEN_LITERALS = set(b'%+&=?#"<>')


def url_ok_literal(c):
    return 0x21 <= c < 0x7f and c not in FORBIDDEN_LITERALS


def parse_dec(fields):
    """fields of `ok n hex nul` -> (bytes, n) or None"""
    if len(fields) != 4 or fields[0] != "ok":
        return None
    data = b"" if fields[2] == "-" else bytes.fromhex(fields[2])
    return data, int(fields[1]), fields[3]


def unhex(w):
    return b"" if w == "-" else bytes.fromhex(w)


def py_urlenc(x, safe):
    return b"".join(bytes([c]) if c in safe else b"%%%02x" % c for c in x)


def x2c(up, low):
    """_q_x2c: the two bytes after `%` as hex digits (char is signed; non-digits give what the arithmetic gives)"""
    def dg(c):
        sc = c - 256 if c > 127 else c
        return ((c & 0xdf) - 65 + 10) if sc >= 65 else (c - 48)
    return (16 * dg(up) + dg(low)) & 0xff


def py_urldec(x):
    """reference URL decoding for well-formed input: %hh (hex digits) -> byte, '+' -> blank; the C string ends
    at a decoded NUL"""
    out, i = bytearray(), 0
    while i < len(x):
        c = x[i]
        if c == 0x25 and i + 2 <= len(x) - 1:          # two more bytes before the terminator
            out.append(x2c(x[i + 1], x[i + 2])); i += 3
        elif c == 0x2b:
            out.append(0x20); i += 1
        else:
            out.append(c); i += 1
    return bytes(out).split(b"\0")[0]


def ledger_stream(rng, n):
    """allocation ledger of qparse_queries (harness/encodeq.c on libqw.a, no model line): 1 private copy of
    the query + per pair 2 words + 3 blocks of the entry; nothing left after the table is freed"""
    ops = []
    for _ in range(n):
        parts = [bytes(rng.choice(b"ab1%+ ") for _ in range(rng.randrange(0, 4))) + rng.choice([b"=", b"", b"=="]) +
                 bytes(rng.choice(b"xy2%+ ") for _ in range(rng.choice([0, 1, 5, 60]))) for _ in range(rng.randrange(0, 7))]
        ops.append("queryallocs %s 3d 26" % hexs(b"&".join(parts)))
    ops += ["queryallocs - 3d 26", "queryallocs 26 3d 26", "queryallocs 3d 3d 26", "queryallocs 612662 3d 26"]

    def oracle(ops_, lines):
        for i, (op, l) in enumerate(zip(ops_, lines)):
            q = unhex(op.split()[1])
            pairs = len(py_parse_queries(q, 0x3d, 0x26))
            f = l.split()
            if len(f) != 6 or f[0] != "ok":
                return i, "malformed ledger line " + l[:60]
            if int(f[1]) != pairs:
                return i, "%s pairs stored, the query has %d" % (f[1], pairs)
            if int(f[5]) != 0:
                return i, "%s blocks of the library are still allocated after the table was freed" % f[5]
            # (the NUMBER of allocations the call makes is not judged: an implementation detail - a
            #  missing private copy of the query text shows as a use-after-free in `queryalias`)
        return None
    return Stream("query-allocation-ledger", ops, nomodel=True, harness="encodeq", lib="libqw.a", wraps=(), oracle=oracle,
                  note="pairs stored; no block of the library left after the table is freed")


def py_parse_queries(q, eq, sep):
    """what qparse_queries is documented to deliver for the separators eq / sep (0 = the terminator itself:
    nothing is split): pairs in order; name trimmed; both URL-decoded"""
    out = []
    rest = q
    while rest:
        if sep and bytes([sep]) in rest:
            item, rest = rest.split(bytes([sep]), 1)
        else:
            item, rest = rest, b""
        if eq and bytes([eq]) in item:
            name, value = item.split(bytes([eq]), 1)
        else:
            name, value = item, b""
        out.append((py_urldec(name.strip(b" \t\r\n")), py_urldec(value)))
    return out


class TheCheck(Check):
    prop = "C16"
    module = "encode"
    harness = "encode"
    rule = ("round-trip / format operations on byte strings, executed by the C functions (ASan+UBSan, exactly "
            "sized buffers) and by the Lean model; distinct_nontrivial = distinct (operation, input) pairs whose "
            "input is non-empty")
    assumptions = ["hand model of the loops of qencode.c validated on the explored inputs only",
                   "tables are regenerated from the source (translator/tables.py, gcc -E) and trusted as a translator",
                   "x86-64: char is signed, 8 bits"]

    def regenerate(self):
        from translator import tables
        out = os.path.join(vlib.LEAN, "QlibcModel/Generated/EncodeTables.lean")
        text = tables.render(tables.extract(vlib.REPO))
        if not os.path.exists(out) or open(out).read() != text:
            open(out, "w").write(text)
        return [out]

    def nontrivial_key(self, op, line):
        return op if not op.endswith(" -") else "trivial"

    def streams(self):
        rng = self.rng
        sts = []
        # 1. corpus
        corpus = os.path.join(vlib.ROOT, "corpus", "C16")
        for f in sorted(os.listdir(corpus)) if os.path.isdir(corpus) else []:
            sts.append(Stream("corpus:" + f, [l.strip() for l in open(os.path.join(corpus, f)) if l.strip()]))
        # 2. exhaustive: every byte string of length 0..2
        ex = ["-"] + ["%02x" % a for a in range(256)] + ["%02x%02x" % (a, b) for a in range(256) for b in range(256)]
        for op in ("urlrt", "b64rt", "hexrt"):
            sts.append(Stream("exhaustive-len0-2:" + op, ["%s %s" % (op, h) for h in ex], note="all 65793 strings"))
        # length 3: all strings over 24 boundary bytes + a random sample of the full space
        alpha = [0, 1, 0x20, 0x25, 0x2b, 0x2d, 0x2f, 0x30, 0x39, 0x3a, 0x3d, 0x40, 0x41, 0x5a, 0x5c, 0x61, 0x66, 0x67,
                 0x7a, 0x7e, 0x7f, 0x80, 0xfe, 0xff]
        l3 = ["%02x%02x%02x" % t for t in itertools.product(alpha, repeat=3)]
        nrand = 20000 if self.tier == "quick" else 400000
        l3 += ["%06x" % rng.getrandbits(24) for _ in range(nrand)]
        for op in ("urlrt", "b64rt", "hexrt"):
            sts.append(Stream("len3:" + op, ["%s %s" % (op, h) for h in l3]))
        # 3. decoders: all hex-digit case spellings, '+'
        dig = lambda v: [("%x" % v), ("%X" % v)]
        sp = []
        for b in range(256):
            for u in dig(b >> 4):
                for l in dig(b & 15):
                    sp.append("urldec " + hexs(b"a%" + (u + l).encode() + b"z"))
                    sp.append("hexdec " + hexs((u + l).encode()))
        sp += ["urldec " + hexs(b"a+b+"), "urldec " + hexs(b"+"), "urldec " + hexs(b"%2B+%20")]
        sts.append(Stream("decode-spellings", sp))
        # 4. random strings of every length class up to several KiB
        n = 300 if self.tier == "quick" else 3000
        rs = []
        for i in range(n):
            ln = rng.choice([rng.randrange(1, 70), rng.randrange(1, 400), rng.randrange(1, 1500)]) if i % 60 else rng.randrange(4000, 8200)  # the list-based model is O(n^2)
            cls = rng.randrange(4)
            if cls == 0:
                x = bytes(rng.getrandbits(8) for _ in range(ln))
            elif cls == 1:
                x = bytes(rng.choice(b"%+&= az09\x00\xff") for _ in range(ln))
            elif cls == 2:
                x = bytes(rng.randrange(0x20, 0x7f) for _ in range(ln))
            else:
                x = bytes([rng.getrandbits(8)]) * ln
            rs.append("%s %s" % (rng.choice(["urlrt", "b64rt", "hexrt"]), hexs(x)))
        sts.append(Stream("random-strings", rs))
        # 5. query strings assembled from URL-encoded names and values (C-encoded: we use the
        #    harness' own qurl_encode output via the model-independent python encoder with the
        #    property's safe-set reading; both must parse back)
        qs = []
        safe = set(c for c in range(256) if url_ok_literal(c) and (chr(c).isalnum() or c in b"-._/:@\\"))
        for i in range(200 if self.tier == "quick" else 3000):
            k = rng.randrange(1, 6)
            pairs = []
            for _ in range(k):
                nm = bytes(rng.choice([rng.randrange(1, 256), rng.choice(b" \t=&%+az")]) for _ in range(rng.randrange(1, 8)))
                vl = bytes(rng.choice([rng.randrange(1, 256), rng.choice(b" \t=&%+az")]) for _ in range(rng.randrange(0, 10)))
                pairs.append((nm, vl))
            q = b"&".join(py_urlenc(n_, safe) + b"=" + py_urlenc(v_, safe) for n_, v_ in pairs)
            qs.append("query %s 3d 26" % hexs(q))
            self.qpairs = getattr(self, "qpairs", {})
            self.qpairs[qs[-1]] = pairs
        sts.append(Stream("query-roundtrip", qs))
        # 5b. names and values assembled from the tokens the CURRENT source mentions (string literals and
        #     character constants of qencode.c): a parser that treats one particular spelling specially
        #     (an entity, a keyword, an escape) meets it at the start / end / inside of a name and of a
        #     value, in the first and in later pairs (seed C16-m9)
        dic = vlib.source_dictionary(["src/utilities/qencode.c"])
        multi = [t for t in dic if len(t) >= 2 and 0 not in t][:40]
        single = [t for t in dic if len(t) == 1 and t != b"\x00" and not t.isalnum()]
        qd = []
        for t in multi + [a + b for a in single[:6] for b in single[:6]][:20]:
            for nm, vl in ((t, b"v"), (t + b"lt", t), (b"x" + t, b"a" + t + b"b"), (t + t, b"")):
                for pos in (0, 1, 2):
                    pairs = [(b"id", b"7")] * pos + [(nm, vl)] + [(b"z", b"9")]
                    q = b"&".join(py_urlenc(n_, safe) + b"=" + py_urlenc(v_, safe) for n_, v_ in pairs)
                    op = "query %s 3d 26" % hexs(q)
                    self.qpairs[op] = pairs
                    qd.append(op)
        sts.append(Stream("query-source-dictionary", qd, note="%d multi-byte tokens from the source" % len(multi)))
        # 6. the same with other separators (every pair from a set incl. '\0', bytes >= 0x80, '%', '+', blank
        #    and equalchar == sepchar): the reference reading is split at sepchar, then at the first
        #    equalchar, trim the name, URL-decode both (py_parse_queries); exact result expected
        SEPS = [0x3d, 0x26, 0x3b, 0x20, 0x00, 0x80, 0xff, 0x25, 0x2b]
        qs = []
        self.qref = {}
        for e in SEPS:
            for sp in SEPS:
                for i in range(6 if self.tier == "quick" else 80):
                    k = rng.randrange(1, 5)
                    parts = []
                    for _ in range(k):
                        nm = bytes(rng.choice(b"abXY09 _.%2B+") for _ in range(rng.randrange(0, 6))).replace(b"%", b"%41")
                        vl = bytes(rng.choice(b"abXY09 _.%+") for _ in range(rng.randrange(0, 7))).replace(b"%", b"%7e")
                        parts.append(nm + (bytes([e]) if e else b"") + vl)
                    q = (bytes([sp]) if sp else b"").join(parts)
                    if not q or 0 in q:
                        continue
                    op = "query %s %02x %02x" % (hexs(q), e, sp)
                    self.qref[op] = py_parse_queries(q, e, sp)
                    qs.append(op)
        sts.append(Stream("query-any-separator", qs))
        # 7. the query text is a value STORED IN the destination table (unique keys) and one of its pairs
        #    re-defines the entry that holds it: the parser must go on reading the text it was given
        #    (reference: the pairs of the text, put in order into a table that held key=text)
        al = []
        self.aref = {}
        keys = [b"q", b"query", b"a", b"k1"]
        for i in range(250 if self.tier == "quick" else 5000):
            key = rng.choice(keys)
            k = rng.randrange(1, 7)
            parts = []
            for j in range(k):
                nm = key if rng.random() < 0.4 else bytes(rng.choice(b"abq019_") for _ in range(rng.randrange(0, 5)))
                vl = bytes(rng.choice(b"abXY09 _.+%") for _ in range(rng.choice([0, 1, 3, 8, 40, 200]))).replace(b"%", b"%7e")
                parts.append(nm + b"=" + vl)
            q = b"&".join(parts)
            if not q:
                continue
            op = "queryalias %s %s 3d 26" % (hexs(q), hexs(key))
            t = [(key, q)]
            pairs = py_parse_queries(q, 0x3d, 0x26)
            for n, v in pairs:
                t = [e for e in t if e[0] != n] + [(n, v)]
            self.aref[op] = (len(pairs), t)
            al.append(op)
        sts.append(ledger_stream(rng, 300 if self.tier == "quick" else 5000))
        sts.append(Stream("query-aliased-text", al, note="qparse_queries(tbl, tbl->getstr(tbl, key, false), ...) with pairs that re-define key"))
        from checks import mtpure
        sts.append(mtpure.stream(self))      # hidden shared state shows only with concurrent callers
        if self.tier != "quick":
            sts.append(Stream("huge", ["hugecodec 5000011", "hugecodec 1073741827"], nomodel=True,
                              note="self-checking round trips of 5 MB and 2^30+3 bytes through each codec (hex text of 2^31+6 characters)"))
        return sts

    def judge(self, op, line):
        w = op.split()
        f = line.split()
        kind = w[0]
        if kind == "hugecodec":
            return None if line == "ok" else "self-checking pass `%s`: %s" % (op, line[:200])
        if line.startswith("fault"):
            return "decoder reported %s on %s" % (line, op)
        if kind in ("urlrt", "b64rt", "hexrt"):
            x = unhex(w[1])
            if len(f) != 5:
                return "malformed result"
            enc = unhex(f[0])
            dec = parse_dec(f[1:])
            if dec is None:
                return "decode failed: " + line
            if kind == "b64rt" and enc != base64.b64encode(x):
                return "Base64 output %r is not RFC 4648 for %r" % (enc, x)
            if kind == "hexrt" and enc != x.hex().encode():
                return "hex output %r is not two lowercase digits per byte" % enc
            if kind == "urlrt":
                i = 0
                for c in x:
                    if i < len(enc) and enc[i] == c and url_ok_literal(c):
                        i += 1
                    elif enc[i:i+1] == b"%" and enc[i+1:i+3].lower() == b"%02x" % c and len(enc[i+1:i+3]) == 2:
                        i += 3
                    else:
                        return "URL encoding of byte 0x%02x at output offset %d is neither a safe literal nor %%hh: %r" % (c, i, enc[i:i+3])
                if i != len(enc):
                    return "URL encoding has trailing bytes"
            if dec[0] != x or dec[1] != len(x) or dec[2] != "00":
                return "round trip of %r gives %r (n=%d, terminator %s)" % (x, dec[0], dec[1], dec[2])
        elif kind == "urldec" and w[1].startswith("6125") and len(w[1]) == 10:
            src = unhex(w[1])
            want = b"a" + bytes([int(src[2:4], 16)]) + b"z"
            dec = parse_dec(f)
            if dec is None or dec[0] != want:
                return "%%hh spelling %r decodes to %r, expected %r" % (src, dec and dec[0], want)
        elif kind == "hexdec" and len(w[1]) == 4:
            src = unhex(w[1])
            dec = parse_dec(f)
            if dec is None or dec[0] != bytes([int(src, 16)]):
                return "hex spelling %r decodes to %r" % (src, dec and dec[0])
        elif kind == "urldec" and unhex(w[1]) == b"a+b+":
            dec = parse_dec(f)
            if dec is None or dec[0] != b"a b ":
                return "'+' is not decoded to a blank"
        elif kind == "queryalias" and op in getattr(self, "aref", {}):
            n, want = self.aref[op]
            got = [tuple(unhex(p) for p in t.split("=")) for t in f[2:]]
            if f[0] != "ok" or int(f[1]) != n or got != want:
                return "query text stored in the destination table: expected %d pairs, table %r; got %s %r" % (n, want[:4], f[1] if len(f) > 1 else "?", got[:4])
        elif kind == "query" and op in getattr(self, "qref", {}):
            want = self.qref[op]
            got = [tuple(unhex(p) for p in t.split("=")) for t in f[2:]]
            if f[0] != "ok" or int(f[1]) != len(want) or got != want:
                return "qparse_queries with separators %s/%s: expected %r got %r" % (w[2], w[3], want, got)
        elif kind == "query":
            pairs = getattr(self, "qpairs", {}).get(op)
            if pairs is not None:
                got = [tuple(unhex(p) for p in t.split("=")) for t in f[2:]]
                if f[0] != "ok" or int(f[1]) != len(pairs) or got != [tuple(p) for p in pairs]:
                    return "query string does not parse back: expected %r got %r" % (pairs, got)
        return None

    def classify(self, op, detail):
        return "qencode:" + op.split()[0]

"""Overlay streams (C11 ledger / C12 private copies / C15 allocation failure) for the sequence
containers: qlist, qqueue, qstack, qgrow (harness/seq.c, model module `seq`) and qvector
(harness/vector.c, model module `vector`). Registered in checks/overlay.py.

Oracle: checks/seqideal.py `Judge(mode, ledger=True)` — the ideal Python list evaluated on the
implementation's transcript; after `fault k` / `faultfrom k` the next windowed call may complete
correctly or report ENOMEM with unchanged contents; `live=` must equal the block count of the
ideal contents after every operation; `end` must report `live=0 bad=0` (everything released, the
copies handed out earlier unchanged)."""
import os
import vlib
from vlib import Stream, hexs
from checks import seqideal

ARMS = ["fault 1", "fault 2", "fault 3", "faultfrom 1", "faultfrom 2"]
POOL = [b"a\0", b"bb", b"c\0c", b"dddd\0", b"e", b"\0", b"ff\0\0", b"g" * 8]


def _oracle(mode):
    def oracle(ops, lines):
        return seqideal.judge_stream(ops, lines, mode, ledger=True)
    return oracle


def S(name, ops, mode):
    return Stream("seq:" + name, ops, history=True, module=mode, harness=mode, lib="libqw.a", oracle=_oracle(mode))


# ------------------------------------------------------------------ C15: fault enumeration

def list_prefix(n, how):
    ops = []
    for i in range(n):
        e = hexs(POOL[i % len(POOL)])
        ops.append({"last": "addlast %s", "first": "addfirst %s"}.get(how, "addat %d %%s" % (i // 2)) % e)
    return ops


def enum_list(big):
    ops = []
    x = hexs(b"NEW\0")
    after = ["size", "datasize", "walk 1", "toarray", "tostring", "addlast 7a", "popfirst", "end"]
    targets = ["addfirst " + x, "addlast " + x, "addat 1 " + x, "addat -2 " + x, "addat 9 " + x, "addlast -", "addnull 0",
               "getfirst 1", "getlast 1", "getat 1 1", "getat -1 1", "getat 0 0", "getat 7 1",
               "popfirst", "poplast", "popat 1", "popat -2", "popat 7",
               "removefirst", "removeat 1", "reverse", "clear", "toarray", "tostring"]
    for n in (0, 1, 2, 3, 5) + ((8,) if big else ()):
        for how, ts in (("last", 0), ("mid", 1)):
            pre = ["new list %d" % ts] + list_prefix(n, how)
            for t in targets:
                for arm in ARMS:
                    ops += pre + [arm, t] + after
            # the size limit is tested before anything is allocated
            for arm in ARMS[:2]:
                ops += pre + ["setsize %d" % max(n, 1), "addlast " + x, arm, "addlast " + x] + after
            # getnext with newmem: failure in the k-th call, then retried to the end
            for k in range(n + 1):
                for arm in ("fault 1", "faultfrom 1", "fault 2"):
                    ops += pre + ["reset"] + ["next 1"] * k + [arm, "next 1"] + ["next 1"] * (n + 1 - k) + ["next 0", "end"]
    for ts in (0, 1):
        for arm in ARMS:
            ops += [arm, "new list %d" % ts, "addlast 61", "end"]
    return ops


def enum_qs(big):
    ops = []
    after = ["size", "get 1", "getat -1 1", "push 7a7a7a7a7a7a7a7a", "pop", "end"]
    for kind in ("queue", "stack"):
        for ts in (0, 1):
            for n in (0, 1, 2, 4):
                pres = {
                    "bytes": (["push " + hexs(POOL[i % len(POOL)]) for i in range(n)],
                              ["push 6162", "push -", "pop", "popat -1", "popat 1", "get 1", "get 0", "getat 1 1", "getat 5 1", "clear"]),
                    "strs": (["pushstr " + hexs(b"s%d" % i) for i in range(n)],
                             ["pushstr 7374", "pushstr -", "pushstr null", "popstr", "getstr", "pop"]),
                    "ints": (["pushint %d" % (i * 1000003 - 7) for i in range(n)],
                             ["pushint -5", "pushint 9223372036854775807", "popint", "getint", "pop", "get 1"]),
                }
                for _, (pre, targets) in sorted(pres.items()):
                    pre = ["new %s %d" % (kind, ts)] + pre
                    for t in targets:
                        for arm in ARMS:
                            ops += pre + [arm, t] + after
                for arm in ARMS[:2]:
                    ops += ["new %s %d" % (kind, ts)] + ["push 61"] * n + ["setsize %d" % max(n, 1), "push 62", arm, "push 63"] + after
            for arm in ARMS + ["fault 4", "faultfrom 3"]:
                ops += [arm, "new %s %d" % (kind, ts), "push 61", "end"]
    return ops


def enum_grow(big):
    ops = []
    after = ["size", "datasize", "toarray", "tostring", "addstr 7a", "end"]
    longstr = hexs(b"L" * 1100)            # DYNAMIC_VSPRINTF needs two buffers (1024, 2048)
    for ts in (0, 1):
        for n in (0, 1, 3):
            pre = ["new grow %d" % ts] + ["add " + hexs(POOL[i % len(POOL)]) for i in range(n)]
            for t in ("add 6162", "add -", "addstr 636465", "addstr -", "addstrf 6b -12", "addstrf - 0", "toarray", "tostring", "clear"):
                for arm in ARMS + ["fault 4"]:
                    ops += pre + [arm, t] + after
            for arm in ARMS + ["fault 4", "fault 5", "faultfrom 3", "faultfrom 4"]:
                ops += pre + [arm, "addstrf %s 7" % longstr, "size", "datasize", "end"]
        for arm in ARMS + ["fault 4", "faultfrom 3"]:
            ops += [arm, "new grow %d" % ts, "add 61", "end"]
    return ops


LONG_LENGTHS = list(range(1000, 1026)) + list(range(2040, 2051)) + list(range(4090, 4101)) + [5000, 10000]
from checks.c05 import VS_SOURCE
LONG_LENGTHS = LONG_LENGTHS + [n for n in VS_SOURCE if n not in LONG_LENGTHS and n > 1025]


def long_piece(L, digit=7):
    """`addstrf <s> <digit>` whose formatted output "%s=%d" is exactly L bytes long (L >= 3)"""
    body = bytes(97 + (i * 7 + L) % 26 for i in range(L - 2))
    return "addstrf %s %d" % (hexs(body), digit)


def vs_attempts(L):
    """malloc calls of DYNAMIC_VSPRINTF for a formatted length L: buffers 1024, 2048, ... until L < size"""
    n, size = 1, 1024
    while L >= size:
        n, size = n + 1, size * 2
    return n


def long_addstrf_histories(lengths):
    """formatted pieces around the buffer sizes of DYNAMIC_VSPRINTF's retry loop"""
    hs = []
    for L in lengths:
        hs.append(["new grow", long_piece(L), "datasize", "add 2b", long_piece(L, 3), "size", "tostring"])
    return hs


def enum_grow_long(lengths):
    """C15: every allocation position of addstrf for long formatted pieces: the retry loop's
    buffers (one malloc + free per round), then the two allocations of the insertion"""
    ops = []
    for L in lengths:
        n = vs_attempts(L) + 2
        arms = ["fault %d" % k for k in range(1, n + 2)] + ["faultfrom %d" % k for k in range(1, n + 1)]
        for arm in arms:
            ops += ["new grow %d" % (L & 1), "add 6161", arm, long_piece(L), "datasize", "end"]
    return ops


def velem(os_, k):
    return bytes((k * 37 + j * 11) % 256 if (k + j) % 5 else 0 for j in range(os_ - 1)) + bytes([k % 256])


def enum_vector(big):
    ops = []
    cfgs = [(os_, opt | ts, cap) for os_ in (1, 3) for opt in (8, 4, 2) for ts in (0, 1) for cap in (0, 2)]
    cfgs += [(2, opt | ts, cap) for opt in (6, 12, 10, 14, 0) for ts in (0, 1) for cap in (0, 1)]     # several policy bits / none
    if big:
        cfgs += [(8, opt | ts, cap) for opt in (8, 4, 2) for ts in (0, 1) for cap in (1, 5)]
    for os_, opt, cap in cfgs:
        new = "new %d %d %d" % (cap, os_, opt)
        x, y = hexs(velem(os_, 200)), hexs(velem(os_, 201))
        after = ["size", "walk 1", "toarray", "addlast " + y, "getat -1 1", "end"]
        for arm in ARMS + ["fault 4", "faultfrom 3"]:
            ops += [arm, new, "addlast " + x, "end"]
        for n in (0, 1, 2, 3, 4):
            pre = [new] + ["addlast " + hexs(velem(os_, i + 1)) for i in range(n)]
            targets = ["addfirst " + x, "addlast " + x, "addat 1 " + x, "addat -1 " + x, "addat 9 " + x, "addnull 0",
                       "getfirst 1", "getlast 1", "getat 1 1", "getat 0 0", "getat 9 1",
                       "popfirst", "poplast", "popat 1", "popat 9", "removefirst", "setat 0 " + x,
                       "toarray", "reverse", "clear", "lockprobe"] + ["resize %d" % m for m in range(n + 4)]   # every capacity: shrink, same, grow
            for t in targets:
                for arm in ARMS[:2] + ARMS[3:4]:
                    ops += pre + [arm, t] + after
            for k in range(n + 1):
                for arm in ("fault 1", "faultfrom 1"):
                    ops += pre + ["reset"] + ["next 1"] * k + [arm, "next 1"] + ["next 1"] * (n + 1 - k) + ["next 0", "end"]
            # growth after a failed growth, and a failed growth of a vector emptied by resize 0
            ops += pre + ["fault 1", "addlast " + x, "addlast " + x, "fault 1", "addfirst " + y, "addfirst " + y,
                          "resize 0", "fault 1", "addlast " + x, "addlast " + x] + after
    return ops


# ------------------------------------------------------------------ random histories (with / without failures)

def rand_elem(rng):
    ln = rng.choice([1, 1, 2, 3, 5, 8, 9, 17])
    c = rng.randrange(3)
    if c == 0:
        return bytes(rng.choice(b"ab\0\xff") for _ in range(ln))
    if c == 1:
        return bytes(rng.randrange(1, 256) for _ in range(ln - 1)) + b"\0"
    return bytes(rng.randrange(256) for _ in range(ln))


def maybe_arm(rng, h, p):
    if rng.random() < p:
        h.append(rng.choice(ARMS + ["fault 1", "fault 1"]))


def rand_list(rng, length, pfault):
    h = ["new list %d" % rng.randrange(2)]
    n = 0                           # rough size estimate (failed calls are not tracked)
    while len(h) < length:
        r = rng.random()
        idx = rng.randrange(-n - 2, n + 3)
        e = hexs(rand_elem(rng))
        if r < 0.12:
            # a walk with the caller's cursor: no modification in between (API contract)
            h.append("reset")
            for _ in range(rng.randrange(1, n + 3)):
                maybe_arm(rng, h, pfault)
                h.append("next %d" % (rng.random() < 0.8))
            continue
        if rng.random() < 0.02:
            h.append("inv")          # every documented-invalid call: nothing may change, nothing may leak
        if rng.random() < 0.01:
            h.append("lockprobe"); n += 1
        maybe_arm(rng, h, pfault)
        if r < 0.45:
            h.append(rng.choice(["addfirst " + e, "addlast " + e, "addat %d %s" % (idx, e)])); n += 1
        elif r < 0.60:
            h.append(rng.choice(["getat %d 1" % idx, "getfirst 1", "getlast 1", "getat %d 0" % idx]))
        elif r < 0.78:
            h.append(rng.choice(["popat %d" % idx, "popfirst", "poplast", "removeat %d" % idx, "removefirst"])); n = max(0, n - 1)
        elif r < 0.90:
            h.append(rng.choice(["toarray", "tostring", "walk 1", "walk 0", "size", "datasize"]))
        elif r < 0.94:
            h.append("reverse")
        elif r < 0.97:
            h.append("setsize %d" % rng.choice([0, 0, n, n + 2]))
        else:
            h.append("clear"); n = 0
    return h + ["walk 1", "toarray", "end"]


def rand_qs(rng, length, pfault):
    kind = rng.choice(["queue", "stack"])
    flavour = rng.choice(["ints", "strs"])
    h = ["new %s %d" % (kind, rng.randrange(2))]
    while len(h) < length:
        if rng.random() < 0.02:
            h.append("inv")
        maybe_arm(rng, h, pfault)
        r = rng.random()
        if flavour == "ints":
            # every element is 8 bytes long: popint/getint stay inside the API contract
            if r < 0.5:
                h.append("pushint %d" % rng.choice([0, -1, 7, rng.randrange(-2**63, 2**63)]))
            else:
                h.append(rng.choice(["popint", "getint", "pop", "get 1", "popat -1", "getat 0 1", "size"]))
        else:
            if r < 0.5:
                h.append(rng.choice(["push " + hexs(rand_elem(rng)), "pushstr " + hexs(bytes(rng.choice(b"xyz") for _ in range(rng.randrange(0, 5)))),
                                     "pushstr null", "push -"]))
            else:
                h.append(rng.choice(["pop", "popstr", "getstr", "get 1", "get 0", "popat 1", "getat -1 1", "size", "setsize %d" % rng.choice([0, 3])]))
        if rng.random() < 0.02:
            h.append("clear")
    return h + ["end"]


def rand_grow(rng, length, pfault):
    h = ["new grow %d" % rng.randrange(2)]
    while len(h) < length:
        if rng.random() < 0.02:
            h.append("inv")
        maybe_arm(rng, h, pfault)
        r = rng.random()
        if r < 0.6:
            h.append(rng.choice(["add " + hexs(rand_elem(rng)), "addstr " + hexs(bytes(rng.choice(b"pq\0") for _ in range(rng.randrange(0, 6)))),
                                 "addstrf %s %d" % (hexs(bytes(rng.choice(b"kv") for _ in range(rng.randrange(0, 4)))), rng.randrange(-99, 99)), "add -"]))
        elif r < 0.97:
            h.append(rng.choice(["toarray", "tostring", "size", "datasize"]))
        else:
            h.append("clear")
    return h + ["toarray", "end"]


def rand_vector(rng, length, pfault):
    os_ = rng.choice([1, 2, 3, 8, 17] * 4 + [257, 300])      # now and then elements larger than any block buffer
    opt = rng.randrange(16)          # every combination of the documented option bits
    h = ["new %d %d %d" % (rng.choice([0, 0, 1, 2, 5]), os_, opt)]
    n = 0
    while len(h) < length:
        if rng.random() < 0.02:
            h.append("inv")
        if rng.random() < 0.01:
            h.append("lockprobe"); n += 1
        maybe_arm(rng, h, pfault)
        idx = rng.randrange(-n - 2, n + 3)
        e = hexs(bytes(rng.choice([0, 0, 255, rng.randrange(256)]) for _ in range(os_)))
        r = rng.random()
        if r < 0.36:
            h.append(rng.choice(["addfirst " + e, "addlast " + e, "addat %d %s" % (idx, e)])); n += 1
        elif r < 0.50:
            h.append(rng.choice(["getat %d 1" % idx, "getfirst 1", "getlast 1", "getat %d 0" % idx]))
        elif r < 0.56:
            h.append(rng.choice(["setat %d %s" % (idx, e), "setlast " + e]))
        elif r < 0.72:
            h.append(rng.choice(["popat %d" % idx, "popfirst", "poplast", "removeat %d" % idx])); n = max(0, n - 1)
        elif r < 0.80:
            h.append("resize %d" % rng.choice([0, 1, n, n + 1, n + 3, max(0, n - 1)]))
        elif r < 0.88:
            h.append(rng.choice(["toarray", "walk 1", "walk 0", "size"]))
        elif r < 0.92:
            h.append("reverse")
        elif r < 0.94:
            h.append("clear"); n = 0
        elif r < 0.96:
            h.append("reset")
        else:
            h.append("next %d" % (rng.random() < 0.8))
    return h + ["walk 1", "toarray", "end"]


def copies_then_mutate():
    """C12: take copies with every copying accessor, then mutate / release the container"""
    seq, vec = [], []
    for ts in (0, 1):
        for n in range(0, 6):
            els = [hexs(POOL[i % len(POOL)]) for i in range(n)]
            seq += ["new list %d" % ts] + ["addlast " + e for e in els]
            seq += ["getat %d 1" % i for i in range(n)] + ["getfirst 1", "getlast 1", "toarray", "tostring", "walk 1", "reset"] + ["next 1"] * (n + 1)
            seq += ["addfirst 5a5a", "reverse"] + ["popfirst"] * (n // 2) + ["removelast", "clear", "addlast 5b", "end"]
            for kind in ("queue", "stack"):
                seq += ["new %s %d" % (kind, ts)] + ["pushstr " + hexs(b"s%d" % i) for i in range(n)]
                seq += ["getstr", "get 1"] + ["getat %d 1" % i for i in range(n)] + ["popstr"] * (n // 2) + ["push 5a", "pop", "clear", "end"]
                seq += ["new %s %d" % (kind, ts)] + ["pushint %d" % (i - 2) for i in range(n)] + ["getint", "get 1"] + ["popint"] * (n // 2) + ["pop", "end"]
            seq += ["new grow %d" % ts] + ["add " + e for e in els] + ["toarray", "tostring", "addstr 5a5a", "addstrf 6b 3", "toarray", "clear", "add 5b", "tostring", "end"]
            for os_, opt, cap in ((1, 8, 0), (3, 4, 2), (8, 2, 1)):
                vec += ["new %d %d %d" % (cap, os_, opt | ts)] + ["addlast " + hexs(velem(os_, i + 1)) for i in range(n)]
                vec += ["getat %d 1" % i for i in range(n)] + ["getfirst 1", "getlast 1", "toarray", "walk 1", "reset"] + ["next 1"] * (n + 1)
                vec += ["addfirst " + hexs(velem(os_, 90)), "reverse"] + ["popfirst"] * (n // 2) + ["setat 0 " + hexs(velem(os_, 91)), "removelast",
                                                                                               "resize 1", "resize 0", "addlast " + hexs(velem(os_, 92)), "clear", "end"]
    return seq, vec


# ------------------------------------------------------------------ provider

def corpus(prop):
    out = []
    cdir = os.path.join(vlib.ROOT, "corpus", prop)
    for f in sorted(os.listdir(cdir)) if os.path.isdir(cdir) else []:
        if f.startswith("seq_") and f.endswith(".ops"):
            mode = "vector" if f.startswith("seq_vector_") else "seq"
            ops = [l.strip() for l in open(os.path.join(cdir, f)) if l.strip() and not l.startswith("#")]
            out.append(S("corpus:" + f, ops + ["end"], mode))
    return out


def streams(check, prop):
    big = check.tier != "quick"
    rng = check.rng
    sts = corpus(prop)
    if prop == "C15":
        sts.append(S("fault-enum-list", enum_list(big), "seq"))
        sts.append(S("fault-enum-queue-stack", enum_qs(big), "seq"))
        sts.append(S("fault-enum-grow", enum_grow(big), "seq"))
        sts.append(S("fault-enum-grow-long-addstrf", enum_grow_long(LONG_LENGTHS), "seq"))
        sts.append(S("fault-enum-vector", enum_vector(big), "vector"))
        k = 10 if big else 1
        seq, vec = [], []
        for _ in range(40 * k):
            seq += rand_list(rng, 150, 0.3)
        for _ in range(40 * k):
            seq += rand_qs(rng, 80, 0.3)
        for _ in range(20 * k):
            seq += rand_grow(rng, 60, 0.3)
        for _ in range(60 * k):
            vec += rand_vector(rng, 120, 0.3)
        sts.append(S("random-faults", seq, "seq"))
        sts.append(S("random-faults-vector", vec, "vector"))
    else:
        # C11 / C12: ordinary histories; ledger after every operation, `end live=0 bad=0`,
        # every copy handed out is kept and re-checked when the container is released
        k = 10 if big else 1
        seq, vec = [], []
        for _ in range(60 * k):
            seq += rand_list(rng, 150, 0.0)
        for _ in range(50 * k):
            seq += rand_qs(rng, 80, 0.0)
        for _ in range(25 * k):
            seq += rand_grow(rng, 60, 0.0)
        for _ in range(80 * k):
            vec += rand_vector(rng, 120, 0.0)
        sts.append(S("random", seq, "seq"))
        sts.append(S("random-vector", vec, "vector"))
        sts.append(S("long-addstrf", [o for h in long_addstrf_histories(LONG_LENGTHS) for o in h + ["end"]], "seq"))
        if big:
            # self-checking passes of the harness over vectors of more than 2^31 bytes (no model line)
            sts.append(Stream("seq:huge-vector", ["huge 33554433 64", "huge 2049 1048576"], history=False, module="vector",
                              harness="vector", lib="libqw.a", oracle=_oracle("vector"), nomodel=True))
        cs, cv = copies_then_mutate()
        sts.append(S("copies-then-mutate", cs, "seq"))
        sts.append(S("copies-then-mutate-vector", cv, "vector"))
    return sts

"""C06 — static hash table is an exact bounded map with exact space accounting."""
from checks import harr_common as H
from checks.c07 import HarrCheck


class TheCheck(HarrCheck):
    prop = "C06"
    rule = ("operation histories executed by the real qhasharr.c and by the Lean model (same streams as C07); every API "
            "result, the (num, maxslots, usedslots) triple, a full walk and a get of every key after every operation are "
            "judged against an ideal bounded map with the exact space rule need(v) = 1 + ceil((|v|-32)+/66); "
            "distinct_nontrivial = distinct (operation kind, result class, number of slots changed) keys")
    assumptions = [
        "keys are identified by canon k = (length, k) for |k| <= 16 and (length, first 16 bytes, MD5) above; the theorems take the "
        "32-bit key hash as a function of this identity (i.e. they exclude two different long keys sharing length, prefix and MD5) "
        "and a 16-byte digest; nothing else is assumed about either hash function",
        "key length <= 65535 (pair.namesize is 16 bits)",
        "hand model of qhasharr.c validated on the explored histories only; the key's murmur3 hash and MD5 are parameters of the model, "
        "computed by an independent Python implementation and compared with what the C code stored (slot.hash, pair.namemd5)",
        "slot.count / hash / datasize / link and the header counters are modelled unbounded; theorem widths_suffice: on every well-formed image of fewer than 2^31 slots all stored values fit the fields of the CURRENT header (widths regenerated: HarrLayout sizeofCount/Hash/Datasize/Link/Maxslots, cross-checked by Shapes.Harr) iff no home slot carries more than 32767 keys, always for at most 32767 slots; widths_necessary names what narrower fields would violate; failing inputs for narrowed fields: one-home universes of 127..200 keys (quick), tables of 70000 / 140000 slots (thorough)",
    ]

    def streams(self):
        # the convenience entry points on top of put/get (formatted put with every length, getstr)
        from checks import harrmem
        return list(super().streams()) + harrmem.glue_streams(self)

    def judge_history(self, ops, impl_lines):
        return H.judge_c06(ops, impl_lines)

"""Parser half of C17 — the INI-style (qconfig.c) and Apache-style (qaconf.c) parsers terminate,
stay inside their buffers and deliver a result or an error on ARBITRARY input.

Exposes `parser_streams(check)` and `parser_judge(op, line)` for checks/c17.py (harness `conf`,
driver module `conf`, wraps popen/pclose); runnable standalone as a temporary check of C17:
    python3 -c "import sys; sys.argv=['x']; ..."    or    check.py via checks/c17_parsers.TheCheck
"""
import itertools, os
import vlib
from vlib import Check, Stream
from checks import confgen as G
from checks.confgen import hexs

HARNESS, MODULE, WRAPS = "conf", "conf", ("popen", "pclose", "open")

INI_ALPHA = b"${}=[]#\n a"
AC_ALPHA = b"</>'\"\\ \t#a1\n"

# two small option tables for the exhaustive Apache-style strings (names `a`, `1`)
AC_TABLES = [
    [G.Opt(b"a", G.TAKEALL, True, 2, G.SECTION_ALL), G.Opt(b"1", 1 | G.A1_BOOL, True, 0, G.SECTION_ALL)],
    [G.Opt(b"a", 1 | G.A1_INT, True, 4, G.SECTION_ROOT), G.Opt(b"1", G.TAKEALL | G.AA_FLOAT, False, 0, 4)],
]
INI_ENV = {b"a": b"${a}", b"b": b"a"}


def mutate(rng, doc, alpha):
    doc = bytearray(doc)
    for _ in range(rng.choice([1, 1, 2, 4])):
        k = rng.randrange(5)
        pos = rng.randrange(len(doc) + 1)
        if k == 0 and doc:
            del doc[rng.randrange(len(doc))]
        elif k == 1:
            doc.insert(pos, rng.choice(alpha))
        elif k == 2 and doc:
            doc[rng.randrange(len(doc))] = rng.choice(alpha)
        elif k == 3 and doc:
            a = rng.randrange(len(doc)); b = min(len(doc), a + rng.randrange(1, 12))
            doc[pos:pos] = doc[a:b]                       # duplicate a fragment
        elif doc:
            del doc[rng.randrange(len(doc)):]             # truncate
    return bytes(c for c in doc if c != 0)


def corpus_streams():
    d = os.path.join(vlib.ROOT, "corpus", "C17")
    out = []
    for f in sorted(os.listdir(d)) if os.path.isdir(d) else []:
        if f.startswith(("ini-", "aconf-")) and f.endswith(".ops"):
            out.append(Stream("corpus:" + f, [l.strip() for l in open(os.path.join(d, f)) if l.strip()]))
        elif f.startswith(("nomodel-ini-", "nomodel-aconf-")) and f.endswith(".ops"):
            # witnesses that use a harness mode the Lean model does not have (e.g. a refusing default handler)
            out.append(Stream("corpus:" + f, [l.strip() for l in open(os.path.join(d, f)) if l.strip()], nomodel=True))
    return out


def long_line_docs(rng):
    """lines around and beyond MAX_LINESIZE (4096): fgets delivers them in chunks"""
    docs = []
    # ... and N-1, N, N+1 around every integer constant of the CURRENT qaconf.c (after preprocessing)
    src = sorted({n + d for n in vlib.source_numbers(["src/extensions/qaconf.c"], lo=16, hi=20000) for d in (-1, 0, 1)})
    for n in [4093, 4094, 4095, 4096, 4097, 8189, 8190, 8191, 9000] + [n for n in src if n not in (4093, 4094, 4095, 4096, 4097, 8189, 8190, 8191, 9000)]:
        docs.append(b"a " + b"x" * (n - 2) + b"\nb 1\n")
        docs.append(b"a \"" + b"y" * (n - 4) + b"\" z\n")                 # quote spans the chunk boundary
        docs.append(b"<a " + b"1" * (n - 4) + b">\n</a>\n")
        docs.append(b"a " + b"\\" * (n - 2))                              # no newline at EOF
        docs.append(b" " * n + b"a 1\n")
        docs.append(b"a '" + b"\\'" * ((n - 3) // 2) + b"'\n")
    # comments and directives of 4094 .. 10000 bytes, at top level and inside sections, as the last line
    # with and without a final newline, and followed by more lines (the rest of an over-long line must
    # not be taken for the next line; one physical line = one line number)
    for n in (4094, 4095, 4096, 8190, 8191, 10000):
        lines = [b"#" + b"c" * (n - 5) + b" a 1", b" \t# " + b" " * (n - 8) + b"</a>", b"a " + b"x" * (n - 2),
                 b"a " + b"x " * ((n - 2) // 2), b"1 " + b" " * (n - 4) + b"on", b"<a " + b"1" * (n - 4) + b">",
                 b"a \"" + b"q" * (n - 4) + b"\"", b" " * n, b"</a" + b" " * (n - 4) + b">"]
        for ln in lines:
            for pre, post in ((b"", b""), (b"<a s>\n", b"</a>\n"), (b"<a s>\n1 on\n<a t>\n", b"1 off\n</a>\n</a>\n")):
                docs.append(pre + ln + b"\n" + post + b"a after\n")
                docs.append(pre + ln + b"\n" + post)
                docs.append(pre + ln)                      # end of file inside the line
    return docs


def self_ref_docs():
    """families of self-/mutually-referential INI documents"""
    d = [b"b=${b}\nc=${b}\n", b"a=${b}\nb=${a}\nc=${a}\n", b"q=${q}${q}\nr=${q}\n", b"p=${p}:/x\np2=${p}\n",
         b"a=${%a}\n", b"x=${\ny=${x}y}\n", b"u=${\nv=${u}w}\nw=${u}v}\nz=${w}${v}\n",
         b"[s]\nk=${s.k}\nj=${s.k}${s.k}${s.}\n", b"k=${k} ${k} ${k}\nl=${k}\nm=${l}${l}\n",
         b"t=" + b"${t}" * 40 + b"\nu=${t}\n", b"a=${a${a}}\nb=${a}\nc=${b${b}}\n"]
    for n in (1, 2, 3, 5, 8):
        ring = b"".join(b"v%d=${v%d}\n" % (i, (i + 1) % n) for i in range(n)) + b"z=${v0}\n"
        d.append(ring)
    return d


def spliced_cycle_docs(rng, n):
    """reference cycles that pass through a PLAIN-TEXT substitution: the replacement text has no `${`, yet
    next to the text around it it re-creates a token (a computed name `${${p}}` whose inner variable is
    defined later; a `$`, `{`, `}` or `${` that comes out of a variable). Every substitution round must
    count towards the expansion bound, whatever the replacement looks like; two- and three-step cycles."""
    fixed = [
        b"x=${${p}}\np=x\ny=${x}\n",                      # computed name, 2 steps (one plain)
        b"x=${a}{x}\na=$\ny=${x}\n",                      # spliced `$`
        b"x=$${b}x}\nb={\ny=${x}\n",                      # spliced `{`
        b"x=${x${c}\nc=}\ny=${x}\n",                      # spliced `}`
        b"x=${d}x}\nd=${\ny=${x}\n",                      # spliced `${`
        b"x=${${p}}\np=${q}\nq=x\ny=${x}\n",             # 3 steps, one of them plain
        b"x=${${p}${q}}\np=x\nq=\ny=${x}\n",             # name glued from two plain variables
        b"x=${a}{${b}}\na=$\nb=x\ny=${x}\n",             # `$` and the name both spliced
        b"[s]\nx=${${s.p}}\np=s.x\ny=${s.x}\n",          # the same inside a section
        b"x=${%E}{x}\ny=${x}\n",                           # the `$` comes from the environment
        b"x=${!D}{x}\ny=${x}\n",                           # ... or from a command (stub prints `[D]`: no cycle)
        b"x=${${p}}z\np=x\ny=${x}\nw=${y}${x}\n",        # growing: one byte per lap
    ]
    docs = list(fixed)
    names = [b"x", b"k1", b"v.w", b"n_"]
    for _ in range(n):
        x, p, q = rng.sample(names, 3)
        pre = b"sec." if rng.random() < 0.3 else b""       # full names inside a section
        X, P, Q = pre + x, pre + p, pre + q
        fill = bytes(rng.choice(b"ab =#") for _ in range(rng.randrange(0, 3)))
        kind = rng.randrange(6)
        if kind == 0:
            d = b"%s=%s${${%s}}\n%s=%s\ny=${%s}\n" % (x, fill, P, p, X, X)
        elif kind == 1:
            d = b"%s=${%s}{%s}%s\n%s=$\ny=${%s}\n" % (x, P, X, fill, p, X)
        elif kind == 2:
            d = b"%s=$${%s}%s}\n%s={\ny=%s${%s}\n" % (x, P, X, p, fill, X)
        elif kind == 3:
            d = b"%s=${%s${%s}\n%s=}\ny=${%s}%s\n" % (x, X, P, p, X, fill)
        elif kind == 4:
            d = b"%s=${${%s}}\n%s=${%s}\n%s=%s\ny=${%s}\n" % (x, P, p, Q, q, X, X)
        else:
            d = b"%s=${${%s}${%s}}\n%s=%s\n%s=%s\ny=${%s}\n" % (x, P, Q, p, X[:2], q, X[2:], X)
        docs.append((b"[sec]\n" if pre else b"") + d)
    return docs


PATH_MAX = 4096


def include_docs(rng, n):
    """(mainpath, files) for qconfig_parse_file: directive lines of every length around PATH_MAX (the
    text behind `@INCLUDE ` is PATH_MAX-12 .. PATH_MAX+2 bytes: file name padded with blanks, or a long
    path), relative / absolute / backslash paths, missing files, empty names, files that include
    themselves or each other (also several times per file), directives that are not at the beginning of
    a line, main files that do not exist"""
    out = []
    inc = {b"/V/inc.conf": b"k=v\n[s]\nj=${k}\n", b"./inc.conf": b"k=rel\n"}
    for main in (b"/V/main", b"main"):
        for ln in range(PATH_MAX - 12, PATH_MAX + 3):
            for name in (b"inc.conf", b"/V/inc.conf", b"\\inc.conf"):
                pad = ln - len(name)
                out.append((main, {main: b"a=1\n@INCLUDE " + name + b" " * pad + b"\nb=2\n", **inc}))
                out.append((main, {main: b"@INCLUDE " + b" " * (pad // 2) + name + b"\t" * (pad - pad // 2), **inc}))
            out.append((main, {main: b"@INCLUDE " + b"d/" * ((ln - 1) // 2) + b"f" * (ln - 2 * ((ln - 1) // 2)) + b"\nb=2\n", **inc}))
            out.append((main, {main: b"@INCLUDE /" + b"p" * (ln - 1) + b"\n", **inc}))
    # directory part of the main file close to PATH_MAX: dir + '/' + name must fit
    for dl in range(PATH_MAX - 14, PATH_MAX - 6):
        main = b"/" + b"q" * (dl - 1) + b"/m"
        out.append((main, {main: b"@INCLUDE inc.conf\nz=1\n", main[:-1] + b"inc.conf": b"k=deep\n"}))
    cyc = [
        (b"/V/main", {b"/V/main": b"x=1\n@INCLUDE main\n"}),
        (b"/V/main", {b"/V/main": b"@INCLUDE main\n@INCLUDE main\n"}),
        (b"/V/main", {b"/V/main": b"@INCLUDE a\n", b"/V/a": b"k=1\n@INCLUDE b\n", b"/V/b": b"@INCLUDE a\n@INCLUDE a\n"}),
        (b"/V/main", {b"/V/main": b"@INCLUDE a", b"/V/a": b"@INCLUDE /V/b", b"/V/b": b"@INCLUDE \\c", b"\\c": b"@INCLUDE a\nk=${k}x\n"}),
        (b"main", {b"main": b"k=" + b"v" * 3000 + b"\n@INCLUDE main\n"}),
        (b"/V/main", {b"/V/main": b"".join(b"@INCLUDE f%d\n" % i for i in range(300)), **{b"/V/f%d" % i: b"k%d=1\n" % i for i in range(300)}}),
        (b"/V/main", {b"/V/main": b"".join(b"@INCLUDE f\n" for i in range(256)) + b"z=1\n", b"/V/f": b"k=1\n"}),
        (b"/V/main", {b"/V/main": b"".join(b"@INCLUDE f\n" for i in range(257)) + b"z=1\n", b"/V/f": b"k=1\n"}),
    ]
    out += cyc
    misc = [
        (b"/V/none", {}), (b"", {}), (b"/V/main", {b"/V/main": b""}), (b"/V/main", {b"/V/main": b"@INCLUDE "}),
        (b"/V/main", {b"/V/main": b"@INCLUDE \n"}), (b"/V/main", {b"/V/main": b"@INCLUDE   \t \nk=1\n"}),
        (b"/V/main", {b"/V/main": b"@INCLUDE missing\nk=1\n"}), (b"/V/main", {b"/V/main": b"@INCLUDE /\n"}),
        (b"/V/main", {b"/V/main": b"k=1 @INCLUDE a\n @INCLUDE a\n@INCLUDEa\n@INCLUDE a", b"/V/a": b"j=2"}),
        (b"/V/main", {b"/V/main": b"@INCLUDE a\n@INCLUDE a.b\nv=@INCLUDE a\n", b"/V/a": b"j=2\n", b"/V/a.b": b"i=3\n"}),
        (b"/V/main", {b"/V/main": b"@INCLUDE e\nk=1\n", b"/V/e": b""}),
        (b"/V/main", {b"/V/main": b"[s]\n@INCLUDE a\nk=${s.j}\n", b"/V/a": b"j=2"}),
        (b"m", {b"m": b"@INCLUDE a\n", b"./a": b"r=1\n", b"a": b"wrong=1\n"}),
        (b"d/e/m", {b"d/e/m": b"@INCLUDE a\n@INCLUDE ../a\n", b"d/e/a": b"r=1\n", b"d/e/../a": b"s=1\n"}),
        (b"/m", {b"/m": b"@INCLUDE a\n", b"//a": b"r=1\n", b"/a": b"s=1\n"}),
    ]
    out += misc
    # grammar documents spread over files, then damaged
    for _ in range(n):
        sep = rng.choice(b"==: ")
        main = rng.choice([b"/V/main.conf", b"main.conf"])
        files = G.split_includes(rng, G.render_ini_lines(rng, G.gen_ini(rng, sep, {}), sep), main, p=0.3)
        keys = list(files)
        for _ in range(rng.choice([0, 1, 1, 2])):
            k = rng.choice(keys)
            r = rng.random()
            if r < 0.3 and k != main:
                del files[k]; keys.remove(k)                       # missing file
            elif r < 0.5:
                files[k] += b"@INCLUDE " + rng.choice(keys).rsplit(b"/", 1)[-1] + b"\n"   # a cycle
            else:
                files[k] = mutate(rng, files[k], b"@INCLUDE \n/\\ a=")
        out.append((main, files, sep))
    return out


def nesting_docs():
    docs = []
    for depth in (10, 254, 255, 256, 257, 300):
        docs.append(b"".join(b"<a %d>\n" % i for i in range(depth)) + b"a 1\n" + b"</a>\n" * depth)
    return docs


def parser_streams(check):
    rng, tier = check.rng, check.tier
    sts = corpus_streams()
    # --- exhaustive strings over the significant bytes
    n_ini = 5 if tier == "quick" else 6
    ops = []
    for ln in range(0, n_ini + 1):
        for t in itertools.product(INI_ALPHA, repeat=ln):
            ops.append(G.ini_op(0x3d, bytes(t), INI_ENV))
    sts.append(Stream("ini-exhaustive-len0-%d" % n_ini, ops, note="all %d strings over %r" % (len(ops), INI_ALPHA)))
    n_ac = 4 if tier == "quick" else 5
    ops = []
    k = 0
    for ln in range(0, n_ac + 1):
        for t in itertools.product(AC_ALPHA, repeat=ln):
            k += 1
            ops.append(G.ac_op(k % 4, (k // 4) % 2 == 1, bytes(t), AC_TABLES[(k // 8) % 2]))
            if k % 16 == 5:        # the same bytes read through a pipe (not seekable)
                ops.append("acpipe" + ops[-1][2:])
    sts.append(Stream("aconf-exhaustive-len0-%d" % n_ac, ops, note="all %d strings over %r" % (len(ops), AC_ALPHA)))
    nsample = 30000 if tier == "quick" else 400000
    ops = []
    for _ in range(nsample):
        ln = rng.choice([n_ac + 1, n_ac + 2, n_ac + 3, 8])
        ops.append(G.ac_op(rng.randrange(4), rng.random() < 0.3, bytes(rng.choice(AC_ALPHA) for _ in range(ln)), rng.choice(AC_TABLES)))
    sts.append(Stream("aconf-sampled-short", ops))
    ops = []
    for _ in range(nsample):
        ln = rng.choice([n_ini + 1, n_ini + 2, 9, 12, 16])
        ops.append(G.ini_op(0x3d, bytes(rng.choice(INI_ALPHA) for _ in range(ln)), INI_ENV))
    sts.append(Stream("ini-sampled-short", ops))
    # --- hand-made families
    sts.append(Stream("ini-self-referential", [G.ini_op(0x3d, d, INI_ENV) for d in self_ref_docs()]))
    inc = [G.inif_op(d[2] if len(d) > 2 else 0x3d, d[0], d[1]) for d in include_docs(rng, 600 if tier == "quick" else 15000)]
    # (a MAIN file that is a pipe is not used: qfile_load sizes its read by fstat and delivers an empty
    #  text for a FIFO / /dev/fd/N - an observation about qfile.c outside the parsers' properties, see
    #  DESIGN.md 12.3; qaconf reads pipes correctly and is exercised through `acpipe`)
    sts.append(Stream("ini-include-files", inc))
    # unusual separator characters: qconfig hands sepchar to _q_makeword unchanged ('\0': the terminator is
    # the stop byte; '#', '[': also the comment / section marks; blank: eaten by the trimming)
    ops = []
    for sepc in (0x3d, 0x3a, 0x20, 0x00, 0x23, 0x5b):
        for ln in range(0, 5 if tier == "quick" else 6):
            for t in itertools.product(b"=:#[ a\n]", repeat=ln):
                d = bytes(t)
                ops.append(G.ini_op(sepc, d, {}))
                if ln >= 3 and d[:1] != b"\n":
                    ops.append(G.inif_op(sepc, b"/V/m", {b"/V/m": d}))
        for d in (b"[s]\nk=v\n", b"[ s ]\n[]\nk:v\n", b"k v\n[s x]\nj  w\n", b"#c\n[#]\nk#v\n[[]\n[k[v]\n", b"a${b}\nb=1\n"):
            ops.append(G.ini_op(sepc, d, {}))
            ops.append(G.inif_op(sepc, b"m", {b"m": b"@INCLUDE i\n" + d, b"./i": d}))
    sts.append(Stream("ini-separators", ops))
    # lines that merely look like an include directive (only `@INCLUDE ` + path at the beginning of a line is one)
    look = [b"@INCLUDES = a b\n", b"@INCLUDE_DIR = /etc\n", b"@INCLUDE=x\n", b"@INCLUDE\n", b"@INCLUDE", b"@INCLUDE\tinc\n",
            b" @INCLUDE inc\n", b"\t@INCLUDE inc\n", b"#@INCLUDE inc\n", b"# @INCLUDE inc\n", b"k=v @INCLUDE inc\n",
            b"@include inc\n", b"@Include inc\n", b"@INCLUDE  inc\n", b"@INCLUDE \tinc\n", b"@INCLUDEinc\n", b"x@INCLUDE inc\n",
            b"@INCLUDE inc\n@INCLUDES=1\n", b"[s]\n@INCLUDE.d=1\n@INCLUDE inc\n"]
    ops = []
    for d in look:
        for main in (b"/V/m", b"m"):
            files = {main: b"a=1\n" + d + b"z=2\n", b"/V/inc": b"k=inc\n", b"./inc": b"k=rel\n"}
            ops.append(G.inif_op(0x3d, main, files))
            ops.append(G.inif_op(0x3d, main, {main: d, b"/V/inc": b"k=inc\n", b"./inc": b"k=rel\n"}))
    sts.append(Stream("ini-directive-lookalikes", ops))
    sts.append(Stream("ini-spliced-cycles", [G.ini_op(0x3d, d, {**INI_ENV, b"E": b"$"})
                                             for d in spliced_cycle_docs(rng, 150 if tier == "quick" else 3000)]))
    # formatted texts of every length around the block sizes of DYNAMIC_VSPRINTF (1024 doubled): the
    # `section.key` names of qconfig (qstrdupf) and qaconf's error message `<path>:<line> <text>` for each
    # error kind (the harness opens the file under a path of the requested length); a retry loop that never
    # reaches a fitting block shows as a watchdog timeout
    sts.append(Stream("ini-name-lengths", [G.ini_op(0x3d, d, {}) for d, _ in G.name_length_docs(rng)],
                      note="strlen(section) + 1 + strlen(key) = 1020..1029, 2044..2053, 4080..4110, 8180..8200 and random"))
    sts.append(Stream("aconf-error-message-lengths",
                      [G.ac_op(fl, dc, doc, table, pathlen=pl) for _k, _t, pl, fl, dc, doc, table, _l in G.errmsg_cases(rng)],
                      nomodel=(tier == "quick"),
                      note="every error kind x total message length 1020..1029, 2044..2053, 4080..4110, 8180..8200"
                           + ("; implementation under the watchdog only (C20 runs these against the model)" if tier == "quick" else "")))
    # `${!command}`: qsyscmd -> qfile_read reads the (stubbed) output into a growing block; output lengths
    # around 1024 * 2^k and beyond _MAX_VALUESIZE; qfile_read itself with every kind of nbytes
    sts.append(Stream("ini-command-output-lengths", [G.ini_op(0x3d, d, {}) for d, _ in G.cmd_length_docs(big=(1048576, 1048577))],
                      note="stubbed command output of 1000..1030, 2040..2056, 4090..4100, 8190..8194 bytes, 1 MiB, 1 MiB + 1"))
    huge = [G.ini_op(0x3d, b"a=1\nk=${!R%d}\nz=2\n" % n, {}) for n in (1048575, 2097151, 2097152, 2097153, 3000000, 4194304, 4194305)]
    sts.append(Stream("ini-command-output-megabytes", huge, nomodel=(tier == "quick"), note="2^20 - 1 .. 2^22 + 1 bytes of output"))
    sts.append(Stream("file-read-lengths", G.fread_ops(rng, G.FREAD_SMALL), note="streams of 0..4, 1021..1027 bytes x nbytes NULL/0/1/../n+1"))
    sts.append(Stream("file-read-lengths-large", G.fread_ops(rng, G.FREAD_LARGE), nomodel=(tier == "quick"),
                      note="2045..2051, 4093..4099, 8191..8193, 16384, 100000 bytes; judged against the documented result"))
    # more than 2^16 lines: the line of the first offence / the count is not taken modulo anything
    sts.append(Stream("aconf-line-numbers", [G.ac_op(fl, 0, doc, table) for fl, doc, table, _r, _l in G.line_count_cases()],
                      note="65534..65540 and 70001 lines, first offence on the last line; as many directives"))
    tbl = AC_TABLES[0]
    sts.append(Stream("aconf-long-lines", [G.ac_op(rng.randrange(4), False, d, tbl) for d in long_line_docs(rng)]))
    sts.append(Stream("aconf-nesting", [G.ac_op(0, False, d, tbl) for d in nesting_docs()]))
    # tokens the CURRENT parser sources mention (string literals, character constants) as names, values,
    # arguments, section names, inside references and quotes; values / names whose lengths sit around the
    # integer constants of the current qconfig.c
    dic = [t for t in vlib.source_dictionary(["src/extensions/qconfig.c", "src/extensions/qaconf.c"]) if 0 not in t and b"\n" not in t]
    toks = [t for t in dic if len(t) >= 2][:60] + [t for t in dic if len(t) == 1 and not t.isalnum()][:20]
    ini_d, ac_d = [], []
    for t in toks:
        for d in (b"k=" + t + b"\n", t + b"=v\n", b"[" + t + b"]\nk=v\n", b"k=${" + t + b"}\nj=${k}\n", b"k=x " + t + b" y\n" + t + b"\n",
                  b"a=1\n" + t + b" b=2\n", b"k=" + t + t + b"\n[s]\n" + t + b"\n"):
            ini_d.append(G.ini_op(0x3d, d, INI_ENV))
        for d in (b"a " + t + b"\n", t + b" 1\n", b"<a " + t + b">\n</a>\n", b"a \"" + t + b"\" z\n", b"<a s>\n1 " + t + b"\n</a>\n",
                  b"a '" + t + b"\n", b"1 " + t + b" " + t + b"\n"):
            ac_d.append(G.ac_op(rng.randrange(4), False, d, tbl))
    for n in sorted({n + d for n in vlib.source_numbers(["src/extensions/qconfig.c"], lo=16, hi=70000) for d in (-1, 0, 1)}):
        ini_d.append(G.ini_op(0x3d, b"k=" + b"v" * n + b"\nj=${k}\n", {}))
        ini_d.append(G.ini_op(0x3d, b"[" + b"s" * (n // 2) + b"]\n" + b"k" * (n - n // 2 - 1) + b"=v\n", {}))
        ini_d.append(G.ini_op(0x3d, b"k=" + b"${E}" * (n // 4) + b"\n", {b"E": b"x"}))
    sts.append(Stream("ini-source-dictionary", ini_d, note="%d tokens from the current sources" % len(toks)))
    sts.append(Stream("aconf-source-dictionary", ac_d))
    sts.append(Stream("ini-long-lines", [G.ini_op(0x3d, b"k=" + b"v" * n + b"${k}" * 3 + b"\nj=${k}${k}\n", {}) for n in (100, 5000, 8000)]))
    # --- grammar-aware random documents with byte mutations
    n = 1500 if tier == "quick" else 30000
    ops = []
    for _ in range(n):
        flags = rng.randrange(4)
        table = G.gen_table(rng)
        nodes = G.gen_doc(rng, table, flags, pmut=0.1)
        doc, _ = G.render_ac(rng, nodes, tag_ws=0.1)
        if rng.random() < 0.8:
            doc = mutate(rng, doc, AC_ALPHA)
        ops.append(G.ac_op(flags, rng.random() < 0.2, doc, table))
        if rng.random() < 0.2:
            ops[-1] = "acpipe" + ops[-1][2:]
    # a leading UTF-8 byte order mark (and prefixes of it) in front of everything, file and pipe
    for pre in (b"\xef\xbb\xbf", b"\xef\xbb", b"\xef", b"\xef\xbb\xbf\xef\xbb\xbf"):
        for body in (b"", b"a", b"a 1\n1 on\n", b"<a>\n</a>\n", b"\n", b"#c\na\n"):
            op = G.ac_op(0, False, pre + body, AC_TABLES[0])
            ops += [op, "acpipe" + op[2:]]
    sts.append(Stream("aconf-grammar-mutated", ops))
    ops = []
    for _ in range(n):
        sep = rng.choice(b"==:= ")
        env = {b"HOME": b"/home/q", b"E": b"", b"X": b"${Y}", b"Y": b"${X}", b"a": b"1"}
        doc = G.render_ini(rng, G.gen_ini(rng, sep, env), sep)
        if rng.random() < 0.8:
            doc = mutate(rng, doc, INI_ALPHA)
        ops.append(G.ini_op(sep, doc, env))
    sts.append(Stream("ini-grammar-mutated", ops))
    return sts


def parser_judge(op, line):
    """C17's oracle for the two parsers: the call returned (no watchdog timeout, no sanitizer abort —
    a missing line is reported by vlib as a crash) with a result or an error"""
    w = op.split(None, 1)[0]
    if w not in ("ini", "inif", "inifp", "ac", "acp", "acpipe", "acre", "fread"):
        return None
    if line.startswith("timeout"):
        return "parser did not return within the watchdog time"
    if line.startswith("fault"):
        return None          # only the model prints this
    if w == "fread":
        f = line.split()
        if line != "null" and not (len(f) == 4 and f[0] == "ok" and f[3] == "00"):
            return "qfile_read: neither NULL nor a terminated block: " + line[:80]
        want = G.fread_expected(op)
        if line != want:
            return "qfile_read returned %s, the stream holds %s" % (line[:60], want[:60])
        return None
    if w in ("acp", "acpipe", "acre"):
        w = "ac"
    if w == "inifp":
        w = "inif"
    if w in ("ini", "inif") and not (line.startswith("ok ") or line == "null"):
        return "neither a table nor NULL: " + line[:80]
    if w == "ac" and G.parse_ac_result(line) is None:
        return "neither a count nor an error: " + line[:80]
    return None


def parser_classify(op, detail):
    w = op.split()
    if w and w[0] in ("inif", "inifp"):
        return "qconfig_parse_file:" + ("timeout" if "watchdog" in detail or "imeout" in detail.lower() else
                                        "crash" if "died" in detail else "result")
    if w and w[0] == "ini":
        if "watchdog" in detail or "TIMEOUT" in detail or "timeout" in detail:
            # a document without any `${` cannot hang in the expansion
            return "qconfig._parsestr:self-referential-table-value" if "247b" in w[2] else "qconfig:timeout"
        return "qconfig:" + ("crash" if "died" in detail else "result")
    if w and w[0] in ("ac", "acp", "acpipe", "acre"):
        return "qaconf:" + ("timeout" if "watchdog" in detail or "imeout" in detail.lower() else "crash" if "died" in detail else "result")
    if w and w[0] == "fread":
        return "qfile_read:" + ("crash" if "died" in detail else "result")
    return "unclassified"


class TheCheck(Check):
    """temporary stand-alone form (the integrator's checks/c17.py merges these streams)"""
    prop = "C17Parsers"      # stand-alone: builds and audits Props/C17Parsers.lean; findings are filed under C17
    module = MODULE
    harness = HARNESS
    wraps = WRAPS
    rule = ("documents fed to qconfig_parse_str / qaconf parse() in exactly sized heap buffers (ASan+UBSan+LSan, "
            "per-call alarm) and to the Lean model; distinct_nontrivial = distinct documents")
    assumptions = ["parser half of C17 only; qconfig_parse_file: include loop modelled at list level over path->content (iniParseFile_total); its buffer handling is covered by ASan on the include streams",
                   "files contain no NUL byte in the generated streams (the model handles them like fgets does)"]

    def regenerate(self):
        from translator import confconsts
        out = os.path.join(vlib.LEAN, "QlibcModel/Generated/ConfConsts.lean")
        text = confconsts.render(confconsts.extract(vlib.REPO))
        if not os.path.exists(out) or open(out).read() != text:
            open(out, "w").write(text)
        return [out]

    def streams(self):
        return parser_streams(self)

    def judge(self, op, line):
        return parser_judge(op, line)

    def classify(self, op, detail):
        return parser_classify(op, detail)

    def nontrivial_key(self, op, line):
        return hash(op)

"""C07 — static hash table image is self-contained, relocatable and always well-formed."""
import os
import vlib
from vlib import Check, Stream
from checks import harr_common as H


class HarrCheck(Check):
    module = "hasharr"
    harness = "hasharr"
    lean_targets = ("QlibcModel.HashArr.WFCheckComplete",)
    # (capacity, keys, value lengths, state bound): all close (every reachable image is visited)
    bfs_quick = [(3, 4, (1, 33, 99), 3000), (4, 4, (1, 33), 3000), (4, 3, (1, 33, 99), 3000), (5, 3, (1, 99), 3000)]
    bfs_thorough = bfs_quick + [(5, 4, (1, 33, 99), 20000), (6, 4, (1, 33), 20000), (5, 5, (1, 33), 20000)]

    def __init__(self, tier, seed):
        super().__init__(tier, seed)
        self.bfs_notes = []

    def regenerate(self):
        from translator import harr_layout
        out = os.path.join(vlib.LEAN, "QlibcModel/Generated/HarrLayout.lean")
        vals = harr_layout.extract(vlib.REPO)
        text = harr_layout.render(vals)
        if not os.path.exists(out) or open(out).read() != text:
            open(out, "w").write(text)
        H.set_layout(vals)
        return [out]

    def streams(self):
        rng = self.rng
        for st in H.corpus_streams(self.prop):
            yield st
        for st in H.glue_streams(rng, self.tier):
            yield st
        for st in H.digest_streams(rng, self.tier):
            yield st
        for st in H.width_streams(rng, self.tier):
            yield st
        for st in H.scenario_streams(rng, self.tier):
            yield st
        for st in H.relocation_streams(rng, self.tier):
            yield st
        for j, (cap, nk, vl, bound) in enumerate(self.bfs_quick if self.tier == "quick" else self.bfs_thorough):
            if self.nviol() >= self.MAX_VIOLATIONS:
                break
            for st in H.bfs_streams(self, rng, cap, nk, vl, bound, "bfs%d" % j):
                yield st
        for st in H.random_streams(rng, self.tier):
            yield st
        self.extra_cov = {"bfs": self.bfs_notes}
        self.exhaustive_note = any("closed" in n for n in self.bfs_notes)

    MAX_VIOLATIONS = 2

    def nviol(self):
        # correspondence breaks do not end the search for an input on which the property itself
        # fails: only concrete property violations / crashes do (vlib stops comparing with the
        # model after `max_corr` breaks, the oracle keeps judging the implementation)
        return len([v for v in self.violations if v[0] in ("property", "crash")])

    def run_stream(self, st, have_driver):
        # once the property has been contradicted on minimised inputs, further streams add nothing
        # (and every failing stream costs a delta-debugging run)
        if self.nviol() >= self.MAX_VIOLATIONS:
            self.cov["streams"][st.name] = {"ops": len(st.ops), "skipped": "earlier violations"}
            return
        super().run_stream(st, have_driver)

    def nontrivial_key(self, op, line):
        w = op.split()
        res = line.split(" | ")[0]
        # (operation kind, result class, number of slots the operation changed)
        nd = line.split(" | ")[2].count("=") if line.count(" | ") >= 2 else 0
        return "%s/%s/%d" % (w[0], " ".join(res.split()[:2])[:24], min(nd, 6))

    def classify(self, op, detail):
        return "qhasharr:" + op.split()[0]


class TheCheck(HarrCheck):
    prop = "C07"
    rule = ("operation histories executed by the real qhasharr.c (ASan+UBSan, region between guard zones, byte copy "
            "re-attached after every op, history continued through the copy every 32nd op) and by the Lean model; the "
            "whole decoded slot array (stale bytes included) is compared after every op; distinct_nontrivial = distinct "
            "(operation kind, result class, number of slots changed) keys")
    assumptions = [
        "'nothing written outside the region / no process addresses / a byte copy elsewhere behaves identically' is true by "
        "type in the value-semantic model; for the C code it is carried by the correspondence (guard zones, byte-exact image "
        "comparison, relocated copy observed through a second handle after every operation, ASan)",
        "hand model of qhasharr.c validated on the explored histories only; slot layout regenerated from the header (translator/harr_layout.py)",
        "slot.count / hash / datasize / link and the header counters are modelled unbounded; theorem widths_suffice: on every well-formed image of fewer than 2^31 slots all stored values fit the fields of the CURRENT header (widths regenerated: HarrLayout sizeofCount/Hash/Datasize/Link/Maxslots, cross-checked by Shapes.Harr) iff no home slot carries more than 32767 keys, always for at most 32767 slots; widths_necessary names what narrower fields would violate; failing inputs for narrowed fields: one-home universes of 127..200 keys (quick), tables of 70000 / 140000 slots (thorough)",
    ]

    def judge_history(self, ops, impl_lines):
        return H.judge_c07(ops, impl_lines)

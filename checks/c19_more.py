"""C19, second part: qstr_comma_number, qstr_is_ip4addr, qstr_is_email, qstrtest, qstrdupf, qstrcatf,
qstrunique (deterministic part). Streams and the property's oracle for these operations; used by
checks/c19.py.

Oracle policy. Where the documentation fixes the result (thousands separators of an int; dotted
decimal IPv4; printf formats; <ctype.h> classes in the C locale) the oracle demands it. Where it
does not (leading zeros in an IPv4 part; what exactly "email-address formatted" means) the oracle
judges only the clear cases and leaves the rest to the correspondence with the Lean model, whose
reference definition (Str/Spec.lean) the theorems are about."""
import hashlib, itertools, os, re, shutil, subprocess
import vlib
from vlib import Stream, hexs

KINDS = ("comma", "ip4", "email", "test", "dupf", "catf", "unique", "cpyov", "ncpyov", "dupfx", "catfx", "locale")
FILL = 0xAA
INT_MIN, INT_MAX = -2 ** 31, 2 ** 31 - 1


def unhex(w):
    return b"" if w == "-" else bytes.fromhex(w)


def cstr(b):
    i = b.find(b"\0")
    return b if i < 0 else b[:i]


# ------------------------------------------------------------------ references

def ref_comma(n):
    return format(n, ",").encode()


def ip4_verdict(s):
    """True / False where dotted decimal leaves no doubt, None for spellings with leading zeros"""
    parts = s.split(b".")
    if len(parts) != 4:
        return False
    doubt = False
    for p in parts:
        if not re.fullmatch(rb"[0-9]+", p):
            return False
        if int(p) > 255:
            return False
        if len(p) > 1 and p[0:1] == b"0":
            doubt = True
    return None if doubt else True


ORD = rb"[A-Za-z0-9_-]"
EMAIL_CLEAR = re.compile(rb"(?:%s)+(?:\.(?:%s)+)*@(?:%s)+(?:\.(?:%s)+)+" % (ORD, ORD, ORD, ORD))


def email_verdict(s):
    """True for plainly well-formed addresses (dot-separated words on both sides, a dot in the
    domain, more than three ordinary characters), False for plainly malformed ones, else None"""
    if re.search(rb"[^A-Za-z0-9_.@-]", s) or s.count(b"@") != 1 or b"." not in s:
        return False
    if b"@." in s or b".." in s[s.index(b"@"):] or s.startswith(b"@"):
        return False
    if EMAIL_CLEAR.fullmatch(s) and len(re.findall(ORD, s)) > 3:
        return True
    return None


CTYPE = {
    "digit": lambda c: 0x30 <= c <= 0x39,
    "upper": lambda c: 0x41 <= c <= 0x5a,
    "lower": lambda c: 0x61 <= c <= 0x7a,
    "alpha": lambda c: 0x41 <= c <= 0x5a or 0x61 <= c <= 0x7a,
    "alnum": lambda c: 0x30 <= c <= 0x39 or 0x41 <= c <= 0x5a or 0x61 <= c <= 0x7a,
    "xdigit": lambda c: 0x30 <= c <= 0x39 or 0x41 <= c <= 0x46 or 0x61 <= c <= 0x66,
    "space": lambda c: c == 0x20 or 0x09 <= c <= 0x0d,
    "blank": lambda c: c in (0x20, 0x09),
    "cntrl": lambda c: c < 0x20 or c == 0x7f,
    "print": lambda c: 0x20 <= c <= 0x7e,
    "graph": lambda c: 0x21 <= c <= 0x7e,
    "punct": lambda c: 0x21 <= c <= 0x7e and not (0x30 <= c <= 0x39 or 0x41 <= c <= 0x5a or 0x61 <= c <= 0x7a),
}


def fmt_of(words):
    """formatted bytes of the op's format id and arguments (`s X`, `d N`, `ss X Y`)"""
    if words[0] == "s":
        return cstr(unhex(words[1]))
    if words[0] == "d":
        return b"%d" % int(words[1])
    return cstr(unhex(words[1])) + b"=" + cstr(unhex(words[2]))


def fmt_expand(fmt, arg):
    """printf for the format grammar of the dupfx / catfx operations: literal bytes, %%, %s"""
    out, i = bytearray(), 0
    while i < len(fmt):
        if fmt[i:i + 2] == b"%%":
            out += b"%"; i += 2
        elif fmt[i:i + 2] == b"%s":
            out += arg; i += 2
        else:
            out.append(fmt[i]); i += 1
    return bytes(out)


# ------------------------------------------------------------------ a single-byte national locale
# The documented string functions are locale-independent. To notice an implementation that is not
# (toupper()/isspace()/isalpha() instead of explicit ASCII ranges) the harness can switch LC_CTYPE
# to a Latin-1-layout locale. None is installed here; `localedef` can compile one offline from a
# charmap and an LC_CTYPE source that are written below (no file of /usr/share/i18n is needed).

def locale_sources():
    def U(c):
        return "<U%04X>" % c

    def R(a, b):
        return ";".join(U(c) for c in range(a, b + 1))
    cm = ["<code_set_name> XX-LATIN1", "<comment_char> %", "<escape_char> /", "<mb_cur_min> 1", "<mb_cur_max> 1", "CHARMAP"]
    cm += ["%s /x%02x" % (U(c), c) for c in range(256)] + ["END CHARMAP"]
    up = list(range(0x41, 0x5b)) + [c for c in range(0xC0, 0xDF) if c != 0xD7]
    lo = list(range(0x61, 0x7b)) + [c for c in range(0xE0, 0xFF) if c != 0xF7]
    J = lambda cs: ";".join(U(c) for c in cs)
    src = ["comment_char %", "escape_char /", "LC_CTYPE",
           "upper " + J(up),
           "lower " + J(lo + [0xDF, 0xFF]),
           "alpha " + J(up + lo + [0xDF, 0xFF, 0xAA, 0xBA]),
           "digit " + R(0x30, 0x39),
           "space " + U(0x20) + ";" + R(0x09, 0x0d) + ";" + U(0xA0) + ";" + U(0x85),
           "blank " + U(0x20) + ";" + U(0x09) + ";" + U(0xA0),
           "cntrl " + R(0, 0x1f) + ";" + U(0x7f) + ";" + R(0x80, 0x84) + ";" + R(0x86, 0x9f),
           "punct " + R(0x21, 0x2f) + ";" + R(0x3a, 0x40) + ";" + R(0x5b, 0x60) + ";" + R(0x7b, 0x7e) + ";"
           + J([c for c in list(range(0xA1, 0xC0)) + [0xD7, 0xF7] if c not in (0xAA, 0xBA)]),
           "xdigit " + R(0x30, 0x39) + ";" + R(0x41, 0x46) + ";" + R(0x61, 0x66),
           "toupper " + ";".join("(%s,%s)" % (U(l), U(u)) for u, l in zip(up, lo)),
           "tolower " + ";".join("(%s,%s)" % (U(u), U(l)) for u, l in zip(up, lo)),
           "END LC_CTYPE"]
    return "\n".join(cm) + "\n", "\n".join(src) + "\n"


def build_locale():
    """compile the locale into build/locale-c19-<hash>/xx_XX; returns the directory or (None, reason)"""
    exe = shutil.which("localedef")
    if not exe:
        return None, "localedef is not installed"
    cm, src = locale_sources()
    d = os.path.join(vlib.BUILD, "locale-c19-" + hashlib.sha256((cm + src).encode()).hexdigest()[:10])
    if os.path.exists(os.path.join(d, "xx_XX", "LC_CTYPE")):
        return d, ""
    with vlib.Lock("locale-c19"):
        if os.path.exists(os.path.join(d, "xx_XX", "LC_CTYPE")):
            return d, ""
        tmp = d + ".tmp"
        shutil.rmtree(tmp, ignore_errors=True)
        os.makedirs(tmp)
        open(os.path.join(tmp, "charmap"), "w").write(cm)
        open(os.path.join(tmp, "src"), "w").write(src)
        r = subprocess.run([exe, "-c", "-f", os.path.join(tmp, "charmap"), "-i", os.path.join(tmp, "src"),
                            os.path.join(tmp, "xx_XX")], capture_output=True, text=True)
        if not os.path.exists(os.path.join(tmp, "xx_XX", "LC_CTYPE")):
            shutil.rmtree(tmp, ignore_errors=True)
            return None, "localedef failed: " + (r.stderr.strip().splitlines() or ["?"])[-1][:200]
        shutil.rmtree(d, ignore_errors=True)
        os.rename(tmp, d)
    return d, ""


def ref_allocs(n):
    """DYNAMIC_VSPRINTF: 1024, doubled until the formatted length fits with its terminator"""
    out, size = [], 1024
    while True:
        out.append(size)
        if n < size:
            return out
        size *= 2


# ------------------------------------------------------------------ the oracle

def judge(kind, w, f, line):
    if kind == "comma":
        n = int(w[1])
        want = ref_comma(n)
        if f[0] != "ok" or unhex(f[1]) != want:
            return "qstr_comma_number(%d) gives %s, documented %r" % (n, line, want)
        if int(f[3]) < len(want) + 1:
            return "qstr_comma_number(%d): block of %s bytes for %d characters + NUL" % (n, f[3], len(want))
    elif kind == "ip4":
        s = cstr(unhex(w[1]))
        v = ip4_verdict(s)
        if "modified-argument" in f:
            return "qstr_is_ip4addr modified its const argument"
        if v is not None and f[0] != ("true" if v else "false"):
            return "qstr_is_ip4addr(%r) = %s, but the string %s a dotted-decimal IPv4 address" % (s, f[0], "is" if v else "is not")
    elif kind == "email":
        s = cstr(unhex(w[1]))
        v = email_verdict(s)
        if "modified-argument" in f:
            return "qstr_is_email modified its const argument"
        if v is not None and f[0] != ("true" if v else "false"):
            return "qstr_is_email(%r) = %s, but the string %s an e-mail address" % (s, f[0], "plainly is" if v else "plainly is not")
    elif kind == "test":
        s = cstr(unhex(w[2]))
        want = all(CTYPE[w[1]](c) for c in s)
        if f[0] != ("true" if want else "false"):
            return "qstrtest(is%s, %r) = %s, documented %s" % (w[1], s, f[0], want)
    elif kind == "dupf":
        want = fmt_of(w[1:])
        if f[0] != "ok" or unhex(f[1]) != want:
            return "qstrdupf gives %s, printf gives %r" % (line[:80], want[:60])
    elif kind == "catf":
        cap = int(w[1]); dst = cstr(unhex(w[2]))
        cap = max(cap, len(unhex(w[2])) + 1)
        add = fmt_of(w[3:])
        blk = unhex(f[1])
        if len(dst) + len(add) + 1 > cap:
            return None                 # caller's buffer too small: outside the contract
        orig = unhex(w[2]) + b"\0" + bytes([FILL]) * (cap - len(unhex(w[2])) - 1)
        want = dst + add + b"\0"
        if f[0] != "ok" or blk[:len(want)] != want:
            return "qstrcatf(%r, ...) gives %r, documented %r" % (dst[:40], blk[:60], want[:60])
        if blk[len(want):] != orig[len(want):]:
            return "qstrcatf wrote behind the terminator of the result"
    elif kind == "locale":
        return None                     # availability is probed by the check before the stream is built
    elif kind == "dupfx":
        want = fmt_expand(cstr(unhex(w[1])), cstr(unhex(w[2])))
        if f[0] != "ok" or unhex(f[1]) != want:
            return "qstrdupf(format %r, %r) gives %s, printf gives %r (%d bytes)" % (
                cstr(unhex(w[1]))[:40], cstr(unhex(w[2]))[:20], line[:60], want[:40], len(want))
    elif kind == "catfx":
        cap = int(w[1]); dst = cstr(unhex(w[2]))
        cap = max(cap, len(unhex(w[2])) + 1)
        add = fmt_expand(cstr(unhex(w[3])), cstr(unhex(w[4])))
        if len(dst) + len(add) + 1 > cap:
            return None
        blk = unhex(f[1])
        orig = unhex(w[2]) + b"\0" + bytes([FILL]) * (cap - len(unhex(w[2])) - 1)
        want = dst + add + b"\0"
        if f[0] != "ok" or blk[:len(want)] != want or blk[len(want):] != orig[len(want):]:
            return "qstrcatf(%r, format %r, ...) gives %r, documented %r" % (dst[:20], cstr(unhex(w[3]))[:40], blk[:60], want[:60])
    elif kind in ("cpyov", "ncpyov"):
        # everything is computed from the ORIGINAL bytes of the block
        buf = unhex(w[1]); d, s, size = int(w[2]), int(w[3]), int(w[4])
        if kind == "cpyov":
            src = buf[s:buf.index(b"\0", s)]
        else:
            src = buf[s:s + int(w[5])]
        if size == 0:
            want = buf
        else:
            n = min(len(src), size - 1)
            want = buf[:d] + src[:n] + b"\0" + buf[d + n + 1:]
        got = unhex(f[1])
        if f[0] != "ok" or int(f[3]) != d:
            return "%s: bad result %s" % (kind, line[:80])
        if got != want:
            what = "destination" if got[d:d + size] != want[d:d + size] else "bytes outside [dst, dst+size)"
            return ("%s(buf+%d, %d, buf+%d) on %r: block is %r, expected %r (the first min(len, size-1) bytes of the "
                    "original source and a NUL at dst, nothing else changed): wrong %s" % (kind, d, size, s, buf, got, want, what))
    elif kind == "unique":
        if f != ["ok", "32", "0"]:
            return "qstrunique result is not 32 lowercase hex digits: " + line
    return None


# ------------------------------------------------------------------ streams

def strings_upto(alpha, n):
    for k in range(n + 1):
        for t in itertools.product(alpha, repeat=k):
            yield bytes(t)


def streams(chk):
    rng, quick = chk.rng, chk.tier == "quick"
    sts = []
    # --- comma number: every boundary of the digit grouping and of the int range
    vals = set(range(-1100, 1101))
    for k in range(1, 10):
        for d in (-2, -1, 0, 1, 2):
            vals |= {10 ** k + d, -(10 ** k) + d, 5 * 10 ** k + d}
    vals |= {INT_MAX, INT_MAX - 1, INT_MIN, INT_MIN + 1, INT_MIN + 2, 2147483000, -2147483000, 1999999999, -1999999999}
    vals = sorted(v for v in vals if INT_MIN <= v <= INT_MAX)
    vals += [rng.randrange(INT_MIN, INT_MAX + 1) for _ in range(3000 if quick else 60000)]
    vals += [rng.randrange(-10 ** k, 10 ** k) for k in range(1, 10) for _ in range(100)]
    sts.append(Stream("comma", ["comma %d" % v for v in vals]))

    # --- IPv4: all strings <= 7 over {0,1,5,'.',x}; every pool element at every position
    ip = ["ip4 " + hexs(s) for s in strings_upto(b"015.x", 7 if quick else 8)]
    pool = [b"0", b"1", b"9", b"10", b"99", b"100", b"199", b"249", b"250", b"255", b"256", b"260", b"300", b"999",
            b"00", b"01", b"001", b"000", b"0255", b"0001", b"1000", b"2147483648", b"4294967296", b"4294967297",
            b"99999999999999999999", b"", b"x", b"1x", b"x1", b"-1", b"+1", b" 1", b"1 ", b"\xb2", b"1\xe9"]
    for base in (b"1", b"0", b"255"):
        for pos in range(4):
            for p in pool:
                parts = [base] * 4
                parts[pos] = p
                ip.append("ip4 " + hexs(b".".join(parts)))
    for k in (1, 2, 3, 5, 6):
        for p in (b"1", b"0", b"255", b""):
            ip.append("ip4 " + hexs(b".".join([p] * k)))
    for s in (b"1.2.3.4.", b".1.2.3.4", b"1.2.3.4 ", b" 1.2.3.4", b"1.2.3.4\n", b"...", b"....", b"1.2..4", b"127.0.0.1",
              b"10.0.0.1", b"192.168.0.1", b"0.0.0.0", b"255.255.255.255", b"1,2,3,4", b"1.2.3.4/8"):
        ip.append("ip4 " + hexs(s))
    for _ in range(2000 if quick else 40000):
        k = rng.choice([4, 4, 4, 3, 5])
        parts = [rng.choice([b"%d" % rng.randrange(0, 300), rng.choice(pool), b"%d" % rng.randrange(0, 256)]) for _ in range(k)]
        ip.append("ip4 " + hexs(b".".join(parts)))
    sts.append(Stream("ip4", ip))

    # --- e-mail: all strings <= 6 over {a, 1, -, ., @, blank}; structured random
    em = ["email " + hexs(s) for s in strings_upto(b"a1-.@ ", 6 if quick else 7)]
    words = [b"a", b"ab", b"abc", b"abcd", b"A-1", b"x_y", b"", b".", b"..", b"-", b"a b", b"\xe9", b"a\xe9", b"joe", b"example", b"com"]
    for _ in range(4000 if quick else 60000):
        loc = b".".join(rng.choice(words) for _ in range(rng.randrange(1, 4)))
        dom = b".".join(rng.choice(words) for _ in range(rng.randrange(1, 4)))
        s = loc + rng.choice([b"@", b"@", b"@", b"", b"@@", b"."]) + dom
        em.append("email " + hexs(s))
    sts.append(Stream("email", em))

    # --- qstrtest: every class on every single byte, on pairs around the class borders, random
    te = []
    border = [0x09, 0x0d, 0x0e, 0x1f, 0x20, 0x2f, 0x30, 0x39, 0x3a, 0x40, 0x41, 0x46, 0x47, 0x5a, 0x5b, 0x60, 0x61, 0x66,
              0x67, 0x7a, 0x7b, 0x7e, 0x7f, 0x80, 0xe9, 0xff]
    for fn in CTYPE:
        te.append("test %s -" % fn)
        te += ["test %s %02x" % (fn, c) for c in range(1, 256)]
        te += ["test %s %02x%02x" % (fn, a, b) for a in border for b in border]
        for _ in range(60 if quick else 1500):
            good = [c for c in range(1, 256) if CTYPE[fn](c)]
            s = bytes(rng.choice(good) for _ in range(rng.randrange(1, 40)))
            if rng.random() < 0.5:
                i = rng.randrange(len(s) + 1)
                s = s[:i] + bytes([rng.randrange(1, 256)]) + s[i:]
            te.append("test %s %s" % (fn, hexs(s)))
    sts.append(Stream("qstrtest", te))

    # --- qstrdupf / qstrcatf: formatted lengths around the 1024 / 2048 / 4096 steps of the macro
    du, ca = [], []

    def rs(n):
        return bytes(rng.randrange(1, 256) for _ in range(n))
    lens = [0, 1, 2, 17, 1022, 1023, 1024, 1025, 2047, 2048, 2049, 4095, 4096, 5000]
    for n in lens:
        du.append("dupf s %s" % hexs(rs(n)))
        for k in (0, 1, n // 2):
            if n >= 1 + k:
                du.append("dupf ss %s %s" % (hexs(rs(k)), hexs(rs(n - 1 - k))))
    ints = [0, 1, -1, 9, 10, -10, 12345, INT_MAX, INT_MIN, INT_MIN + 1] + [rng.randrange(INT_MIN, INT_MAX + 1) for _ in range(50)]
    du += ["dupf d %d" % v for v in ints]
    for s in strings_upto(b"a%\xe9", 3):
        du.append("dupf s %s" % hexs(s))
        du.append("dupf ss %s %s" % (hexs(s), hexs(s[::-1])))
    for _ in range(150 if quick else 3000):
        du.append(rng.choice(["dupf s %s" % hexs(rs(rng.randrange(0, 300))),
                              "dupf ss %s %s" % (hexs(rs(rng.randrange(0, 100))), hexs(rs(rng.randrange(0, 100))))]))
    sts.append(Stream("dupf", du))
    for d in strings_upto(b"a:", 3):
        for a in strings_upto(b"b%", 2):
            need = len(d) + len(a) + 1
            for extra in (0, 1, 3):
                ca.append("catf %d %s s %s" % (need + extra, hexs(d), hexs(a)))
            ca.append("catf %d %s ss %s %s" % (need + 1 + len(d), hexs(d), hexs(a), hexs(d)))
        for v in (0, -7, 1234567, INT_MIN):
            ca.append("catf %d %s d %d" % (len(d) + len(b"%d" % v) + 1, hexs(d), v))
    for n in (1022, 1023, 1024, 1025, 2048, 3000):
        d = rs(rng.randrange(0, 50)); a = rs(n)
        ca.append("catf %d %s s %s" % (len(d) + n + 1, hexs(d), hexs(a)))
    for _ in range(150 if quick else 3000):
        d = rs(rng.randrange(0, 80)); a = rs(rng.randrange(0, 200)); b = rs(rng.randrange(0, 50))
        if rng.random() < 0.5:
            ca.append("catf %d %s s %s" % (len(d) + len(a) + 1 + rng.choice([0, 0, 1, 9]), hexs(d), hexs(a)))
        else:
            ca.append("catf %d %s ss %s %s" % (len(d) + len(a) + len(b) + 2 + rng.choice([0, 0, 1, 9]), hexs(d), hexs(a), hexs(b)))
    sts.append(Stream("catf", ca))
    # --- overlapping bounded copies: dst and src inside one block, both directions, dst == src
    def ov_ops(buf, with_nb):
        n = len(buf)
        for s in range(n + 1):
            z = buf.find(b"\0", s)
            for d in range(n + 1):
                for size in range(0, n - d + 1):
                    if not with_nb:
                        if z >= 0:
                            yield "cpyov %s %d %d %d" % (hexs(buf), d, s, size)
                    else:
                        for nb in list(range(0, n - s + 1)) + [n + 5]:       # n + 5: the clamp does the work
                            if size == 0 or s + min(nb, size - 1) <= n:
                                yield "ncpyov %s %d %d %d %d" % (hexs(buf), d, s, size, nb)
    cp, ncp = [], []
    for k in range(1, 7):
        for tpl in itertools.product(b"ab\0", repeat=k):
            buf = bytes(tpl)
            cp += list(ov_ops(buf, False))
            if k <= (4 if quick else 5):
                ncp += list(ov_ops(buf, True))
    # blocks of distinct bytes make every misplaced byte visible
    for _ in range(400 if quick else 8000):
        n = rng.randrange(2, 40)
        buf = bytearray(rng.sample(range(1, 256), n))
        for _z in range(rng.randrange(1, 3)):
            buf[rng.randrange(n)] = 0
        buf = bytes(buf)
        s = rng.randrange(0, buf.rindex(b"\0") + 1)
        d = rng.choice([s, rng.randrange(0, n), max(0, s - rng.randrange(0, 4)), min(n - 1, s + rng.randrange(0, 4))])
        size = rng.choice([n - d, rng.randrange(0, n - d + 1), min(n - d, buf.index(b"\0", s) - s + 1)])
        cp.append("cpyov %s %d %d %d" % (hexs(buf), d, s, size))
        nb = rng.randrange(0, n - s + 1)
        ncp.append("ncpyov %s %d %d %d %d" % (hexs(buf), d, s, size, nb))
    # the documented idiom: drop a prefix in place, qstrcpy(buf, sizeof(buf), buf + k)
    for k in range(0, 8):
        buf = b"0123456789abcdef\0"
        cp.append("cpyov %s 0 %d %d" % (hexs(buf), k, len(buf)))
        cp.append("cpyov %s %d 0 %d" % (hexs(buf + bytes(8)), k, len(buf) + 8 - k))
    sts.append(Stream("copy-overlap:cpyov", cp, note="all blocks <= 6 over {a,b,NUL} x all (dst, src, size)"))
    sts.append(Stream("copy-overlap:ncpyov", ncp))
    # --- the FORMAT as an argument class: empty format, empty output, %%, every literal length
    def lit(n):
        return bytes(rng.choice(b"abcdefghijklmnopqrstuvwxyz 0123456789:=-_/.") for _ in range(n))
    fx = ["dupfx - -", "dupfx - " + hexs(b"unused"), "dupfx %s -" % hexs(b"%s"), "dupfx %s %s" % (hexs(b"%s"), hexs(b"x")),
          "dupfx %s -" % hexs(b"%%"), "dupfx %s -" % hexs(b"%%%%"), "dupfx %s -" % hexs(b"a%%b"),
          "dupfx %s %s" % (hexs(b"%s%%"), hexs(b"v")), "dupfx %s %s" % (hexs(b"%%%s"), hexs(b"")),
          "dupfx %s %s" % (hexs(b"<%s>"), hexs(b"")), "dupfx %s %s" % (hexs(b"<%s>"), hexs(b"mid"))]
    sweep = list(range(0, 2101)) + list(range(4090, 4101)) + list(range(8190, 8195))
    for n in sweep:
        fx.append("dupfx %s -" % hexs(lit(n)))
    for n in (0, 1, 1023, 1024, 1025, 2047, 2048, 2049, 4095, 4096, 4097, 8191, 8192, 8193):
        fx.append("dupfx %s %s" % (hexs(b"%s"), hexs(lit(n))))                     # short format, long output
        if n >= 2:
            fx.append("dupfx %s -" % hexs(b"%%" * (n // 2) + lit(n - n // 2)))       # long format, shorter output
            fx.append("dupfx %s %s" % (hexs(lit(n // 2) + b"%s"), hexs(lit(n - n // 2))))
    sts.append(Stream("format:dupfx", fx, note="format lengths 0..2100, 4090..4100, 8190..8194; empty format / empty output"))
    cx = []
    for d in (b"", b"old"):
        cx.append("catfx %d %s - -" % (len(d) + 1, hexs(d)))                       # empty format
        cx.append("catfx %d %s %s -" % (len(d) + 1, hexs(d), hexs(b"%s")))          # empty output
        cx.append("catfx %d %s %s -" % (len(d) + 2, hexs(d), hexs(b"%%")))
        cx.append("catfx %d %s %s %s" % (len(d) + 6, hexs(d), hexs(b"<%s>"), hexs(b"mid")))
    for n in sorted(set(list(range(0, 6)) + list(range(1020, 1030)) + list(range(2044, 2053)) + list(range(4090, 4101))
                        + list(range(8190, 8195)))):
        d = lit(rng.randrange(0, 9))
        cx.append("catfx %d %s %s -" % (len(d) + n + 1, hexs(d), hexs(lit(n))))
        cx.append("catfx %d %s %s %s" % (len(d) + n + 1 + 3, hexs(d), hexs(b"%s"), hexs(lit(n))))
    sts.append(Stream("format:catfx", cx))

    # --- the same expected results under a single-byte national locale
    locdir, why = build_locale()
    if locdir is not None:
        probe, rc, _ = vlib.run_proc([chk.hbin], "locale on %s\nupper e9\nlocale off\n" % hexs(locdir.encode()))
        if rc != 0 or not probe or probe[0] != "ok":
            locdir, why = None, "the harness cannot switch to the locale built by localedef (%s)" % (probe[:1] or rc)
    if locdir is None:
        chk.assumptions = list(chk.assumptions) + ["C locale only: " + why]
    else:
        hi = [0x85, 0xA0, 0xAA, 0xB2, 0xB5, 0xC0, 0xC9, 0xD7, 0xDE, 0xDF, 0xE0, 0xE9, 0xF7, 0xFE, 0xFF]
        lo_ = [0x20, 0x09, 0x0a, 0x0d, ord('a'), ord('Z'), ord('5'), ord('.'), ord('@'), ord('"')]
        ops = []
        for op in ("upper", "lower", "rev"):
            ops += ["%s %02x" % (op, c) for c in range(1, 256)]
            ops += ["%s %s" % (op, hexs(bytes(tpl))) for tpl in itertools.product(hi[:8] + lo_[4:6], repeat=2)]
        for s in strings_upto(bytes([0x20, 0x09, 0xA0, 0x85, ord('a'), 0xE9]), 4):
            for op in ("trim", "trimh", "trimt"):
                ops.append("%s %s" % (op, hexs(s)))
        ops += ["test digit %02x" % c for c in range(1, 256)] + ["test xdigit %02x" % c for c in range(1, 256)]
        for c in hi:
            for base in (b"1.2.3.4", b"10.0.0.255"):
                for pos in range(len(base) + 1):
                    ops.append("ip4 " + hexs(base[:pos] + bytes([c]) + base[pos:]))
                ops.append("ip4 " + hexs(base.replace(b"1", bytes([c]), 1)))
            for base in (b"abcd@ef.gh", b"joe@example.com"):
                for pos in (0, 2, 4, 5, len(base)):
                    ops.append("email " + hexs(base[:pos] + bytes([c]) + base[pos:]))
                ops.append("email " + hexs(base.replace(b"e", bytes([c]), 1)))
            ops.append("unchar %s %02x %02x" % (hexs(bytes([c, 0x61, c])), c, c))
            ops.append("tok %s %s" % (hexs(bytes([0x61, c, 0x62, 0x3a, c])), hexs(bytes([c, 0x3a]))))
            ops.append("repl %s %s %s %s %d" % (hexs(b"sn"), hexs(bytes([0x61, c, 0x61, c - 0x20 if c >= 0xE0 else c])),
                                               hexs(bytes([c])), hexs(b"_"), 5))
        for _ in range(300 if quick else 6000):
            s = bytes(rng.choice(hi + lo_) for _ in range(rng.randrange(1, 24)))
            ops.append("%s %s" % (rng.choice(["upper", "lower", "trim", "trimh", "trimt", "rev", "ip4", "email", "test digit"]), hexs(s)))
        chk.extra_cov = dict(getattr(chk, "extra_cov", {}), locale="xx_XX (single byte, Latin-1 layout) built with localedef under build/")
        sts.append(Stream("locale:xx_XX", ["locale on " + hexs(locdir.encode())] + ops + ["locale off"], history=True,
                          note="same operations and same expected results with LC_CTYPE = a Latin-1-layout locale"))
    sts.append(Stream("unique", ["unique -", "unique " + hexs(b"seed"), "unique " + hexs(b"x" * 200)]))
    return sts

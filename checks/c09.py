"""C09 — list, queue, stack and grow buffer are exact sequences (FIFO/LIFO/concatenation)."""
import itertools
import vlib
from vlib import Stream, hexs
from checks import seqideal
from checks.seqcommon import SeqCheck, pack, ts_variant

# element pool: with / without trailing NUL, embedded NUL, lone NUL, two trailing NULs, 8-byte, long
POOL = [b"a\0", b"bb", b"c\0c", b"\0", b"dddd\0", b"e", b"ff\0\0", b"g" * 8, b"hh\0h\0", b"i" * 300]
CLASSES = [b"x", b"yz\0", b"\0", b"p\0q", b"\0r", b"st\0\0", b"\0\0", b"w" * 70 + b"\0"]


def build(n, how):
    ops = []
    for i in range(n):
        e = hexs(POOL[i % len(POOL)])
        if how == "last":
            ops.append("addlast " + e)
        elif how == "first":
            ops.append("addfirst " + e)
        elif how == "mid":
            ops.append("addat %d %s" % (i // 2, e))
        else:
            ops.append("addat %d %s" % (-1 - (i // 2), e))
    return ops


class TheCheck(SeqCheck):
    prop = "C09"
    module = "seq"
    harness = "seq"
    mode = "seq"
    lib = "libqw.a"      # allocator traffic of the library is counted (allocs= / live= fields)
    rule = ("operation histories on qlist/qqueue/qstack/qgrow executed by the C library (ASan+UBSan+LSan build of the "
            "working tree) and by the Lean model; after every operation both print the API-level content (getat(i) for "
            "all i, size, datasize, toarray) and the private state (first/next chain, last/prev chain, num, max, "
            "datasum, the library's live block count) and the number of allocation attempts of the call; the oracle is an "
            "ideal Python list evaluated on the implementation's transcript; "
            "distinct_nontrivial = distinct (operation, result kind, errno) classes")
    assumptions = ["hand model of qlist.c/qqueue.c/qstack.c/qgrow.c validated on the explored histories only",
                   "sequential behaviour only (lock calls are the business of C13/C14)",
                   "theorems assume fewer than 2^31 elements (an `int` index cannot address more) and `int` indexes",
                   "popint/getint on elements shorter than 8 bytes and getnext through a cursor whose successor was "
                   "removed are outside the API contract (model: Fault.oob / Fault.dangling) and are not generated",
                   "allocation failure is exercised here only inside getnext walks (walk-retry stream); the rest is C15 (Props/C15Seq.lean, checks/seqoverlay.py)"]
    exhaustive_note = True

    # ------------------------------------------------------------------ generators
    def gen_access_triples(self, sizes):
        """indexed access / insertion / removal at every index, then an operation on the whole list (reverse,
        walks, toarray, setsize, a second indexed access), then an indexed access at every index: state a
        call leaves behind for the next one (a cached position, a cursor, a remembered end) must survive
        or be invalidated by whatever comes in between (seed C09-m10)"""
        hs = []
        for n in sizes:
            b = ["obsoff", "new list"] + build(n, "last")
            firsts = [t % i for i in range(n) for t in ("getat %d 1", "popat %d", "addat %d 4e4557")] + ["getat -2 0"]
            mids = ["reverse", "walk 0", "toarray", "setsize %d" % (n + 3), "reset", "getat %d 1" % (n // 2), "popfirst", "addlast 5a",
                    "reverse;reverse", "next 0;reverse"]
            for a in firsts:
                for m in mids:
                    # ONE access per history: an earlier correct access would repair what the middle operation broke
                    for j in list(range(n - 1)) + [-1, -2]:
                        hs.append(b + [a] + m.split(";") + ["getat %d 1" % j, "toarray"])
                    hs.append(b + [a] + m.split(";") + ["popat 1", "addat 2 51", "removeat -2", "toarray"])
        if hs:
            hs[-1] = hs[-1] + ["obson"]
        return hs

    def gen_index_exhaustive(self, nmax):
        hs = []
        for n in range(nmax + 1):
            rng_idx = list(range(-n - 2, n + 3))
            for how in ("last", "first", "mid", "back"):
                b = ["new list"] + build(n, how)
                # read-only operations: one history
                h = list(b)
                for nm in (0, 1):
                    h += ["getat %d %d" % (i, nm) for i in rng_idx]
                    h += ["getfirst %d" % nm, "getlast %d" % nm, "walk %d" % nm]
                h += ["size", "datasize", "toarray", "tostring", "reset"] + ["next %d" % (k % 2) for k in range(n + 2)]
                hs.append(h)
                # mutating operations: one history each
                for i in rng_idx:
                    hs.append(b + ["addat %d %s" % (i, hexs(b"NEW\0"))])
                    hs.append(b + ["popat %d" % i])
                    hs.append(b + ["removeat %d" % i])
                    hs.append(b + ["addnull %d" % i])
                    hs.append(b + ["addat %d -" % i])
                for op in ("addfirst 4e4557", "addlast 4e4557", "popfirst", "poplast", "removefirst", "removelast",
                           "reverse", "clear", "addfirst -", "addlast -"):
                    hs.append(b + [op, "walk 0", "tostring"])
                # reversed list, then every index once more
                if how == "last":
                    for i in rng_idx:
                        hs.append(b + ["reverse", "getat %d 1" % i, "popat %d" % i, "reverse"])
                # limits: list exactly full / one below
                for mx in (n, n + 1):
                    for i in rng_idx:
                        hs.append(b + ["setsize %d" % mx, "addat %d 4c" % i, "addat %d 4d" % i])
        return hs

    def gen_limits(self, length):
        alpha = ["addlast 7800", "addfirst 79", "addat 1 7a7a", "addat -2 77", "removefirst", "poplast", "removeat 1"]
        hs = []
        for mx in range(5):
            for L in range(1, length + 1):
                for seq in itertools.product(alpha, repeat=L):
                    hs.append(["new list", "setsize %d" % mx] + list(seq))
        # changing the limit below the current size, then removals until insertion works again
        for n in range(5):
            for mx in range(5):
                hs.append(["new list"] + build(n, "last") + ["setsize %d" % mx, "addlast 71", "removefirst", "addlast 72",
                                                           "poplast", "poplast", "addfirst 73", "setsize 0", "addlast 74"])
        return hs

    BIG_LIMITS = [2**31 - 1, 2**31, 2**32 - 1, 2**32, 2**32 + 2, 2**40, 2**64 - 2, 2**64 - 1]

    def gen_big_limits(self):
        """limits at and beyond the int / unsigned / 32-bit boundaries: what setsize hands back (the
        previous limit, so the next setsize reads the stored value back) and whether the following
        adds are accepted or refused - no memory needed, three elements are enough"""
        hs = []
        for kind, add in (("list", "addlast"), ("queue", "push"), ("stack", "push")):
            for i, L in enumerate(self.BIG_LIMITS):
                L2 = self.BIG_LIMITS[(i + 3) % len(self.BIG_LIMITS)]
                h = ["new %s %d" % (kind, i & 1), "setsize %d" % L, add + " 61", add + " 6262", add + " 636363", "inv", "setsize 2", add + " 64",
                     "setsize %d" % L2, add + " 65", "setsize 4", add + " 66", "setsize %d" % L, add + " 67", add + " 68", "setsize 0",
                     "size", "setsize 3", add + " 69", "setsize 0", "end"]
                hs.append(h)
        return hs

    def gen_lockprobe(self):
        """`lockprobe` (harness/seq.c): inside lock() ... unlock() a nested public add; a second thread
        must find the mutex busy until the outer unlock() - on thread-safe containers of every kind,
        empty, filled, full (the nested add is refused), between the steps of a walk"""
        hs = []
        for kind, add in (("list", "addlast"), ("queue", "push"), ("stack", "push"), ("grow", "add")):
            for opt in (1, 0, 3):
                h = ["new %s %d" % (kind, opt), "lockprobe", add + " 6100", "lockprobe", "lockprobe"]
                if kind != "grow":
                    h += ["setsize 2", "lockprobe", "setsize 0", "lockprobe"]
                if kind == "list":
                    h += ["reset", "next 1", "lockprobe", "next 0", "popfirst", "lockprobe", "walk 1"]
                hs.append(h + ["inv", "end"])
        return hs

    def gen_contents(self):
        hs = []
        for L in (1, 2, 3):
            for t in itertools.product(CLASSES, repeat=L):
                hs.append(["new list"] + ["addlast " + hexs(e) for e in t] + ["tostring", "toarray", "walk 1", "datasize"])
                if L <= 2:
                    hs.append(["new grow"] + ["add " + hexs(e) for e in t] + ["tostring", "toarray", "datasize", "size"])
        return hs

    def gen_qs(self, length, nrand):
        alpha = ["push 61", "push 6200", "pushstr 6364", "pushstr -", "pushint -2", "pushint 9223372036854775807",
                 "pop", "popstr", "popint", "get 0", "get 1", "getstr", "getint", "popat -1", "getat 1 1", "setsize 2",
                 "clear", "size", "pushstr null", "push -", "popat 1", "push 6566676869707172737400"]
        hs = []
        for kind in ("queue", "stack"):
            for L in range(1, length + 1):
                for seq in itertools.product(alpha, repeat=L):
                    h = ["new " + kind] + list(seq)
                    if seqideal.safe(h, "seq"):
                        hs.append(h)
            for _ in range(nrand):
                h = ["new " + kind]
                ideal = seqideal.IdealSeq(kind)
                for _ in range(self.rng.randrange(4, 14)):
                    for _try in range(8):
                        op = self.rng.choice(alpha)
                        if not ideal.unsafe(op.split()):
                            h.append(op)
                            ideal.apply(op.split())
                            break
                hs.append(h)
        return hs

    def gen_grow(self, length):
        alpha = ["add 61", "add 6200", "add 00", "addstr 6263", "addstr -", "addstrf 64 -7", "add -", "clear",
                 "toarray", "tostring", "size", "datasize", "addstr 650066", "addstrf - 0"]
        hs = []
        for L in range(1, length + 1):
            for seq in itertools.product(alpha, repeat=L):
                hs.append(["new grow"] + list(seq) + ["tostring", "toarray"])
        return hs

    def gen_grow_long(self):
        """addstrf pieces whose formatted length straddles the buffer sizes of DYNAMIC_VSPRINTF's
        retry loop (1024, 2048, 4096, ...)"""
        from checks import seqoverlay
        return seqoverlay.long_addstrf_histories(seqoverlay.LONG_LENGTHS)

    def rand_elem(self):
        rng = self.rng
        c = rng.randrange(10)
        if c == 0:
            return b""
        ln = rng.choice([1, 1, 2, 3, 5, 8, 9, 17, 40])
        if c <= 3:
            body = bytes(rng.choice(b"ab\0\xff") for _ in range(ln))
        elif c <= 6:
            body = bytes(rng.randrange(1, 256) for _ in range(ln - 1)) + b"\0"
        else:
            body = bytes(rng.randrange(0, 256) for _ in range(ln))
        return body

    def gen_random_list(self, count, length):
        rng = self.rng
        hs = []
        for _ in range(count):
            h = ["new list"]
            ideal = seqideal.IdealSeq("list")
            for _ in range(length):
                for _try in range(6):
                    r = rng.random()
                    n_est = len(ideal.s)
                    idx = rng.randrange(-n_est - 2, n_est + 3)
                    e = hexs(self.rand_elem())
                    if r < 0.30:
                        op = rng.choice(["addfirst %s" % e, "addlast %s" % e, "addat %d %s" % (idx, e), "addat %d %s" % (idx, e)])
                    elif r < 0.42:
                        op = rng.choice(["getat %d %d" % (idx, rng.randrange(2)), "getfirst 1", "getlast 0"])
                    elif r < 0.60:
                        op = rng.choice(["popat %d" % idx, "removeat %d" % idx, "popfirst", "poplast", "removefirst", "removelast"])
                    elif r < 0.66:
                        op = "setsize %d" % rng.choice([0, 0, n_est, n_est + 1, n_est + 3, max(0, n_est - 1)])
                    elif r < 0.72:
                        op = rng.choice(["toarray", "tostring", "walk 0", "walk 1", "size", "datasize"])
                    elif r < 0.76:
                        op = "reverse"
                    elif r < 0.78:
                        op = "clear"
                    elif r < 0.80:
                        op = "addnull %d" % idx
                    elif r < 0.81:
                        op = "lockprobe"
                    elif r < 0.83:
                        op = "inv"
                    elif r < 0.85:
                        op = "reset"
                    else:
                        op = "next %d" % rng.randrange(2)
                    if not ideal.unsafe(op.split()):
                        h.append(op)
                        ideal.apply(op.split())
                        break
            hs.append(h)
        return hs

    # ------------------------------------------------------------------ glue around the modelled core
    def gen_ctor_options(self):
        """constructors with every option word over the documented bit (THREADSAFE = 1) and the two
        words next to it (2, 3: bits the documentation neither defines nor forbids)"""
        hs = []
        for kind, fill in (("list", ["addlast 6100", "addfirst 62", "addat 1 63"]), ("queue", ["push 6100", "pushstr 62", "pushint 7"]),
                           ("stack", ["push 6100", "pushstr 62", "pushint 7"]), ("grow", ["add 6100", "addstr 62", "addstrf 63 7"])):
            for opt in range(4):
                tail = {"list": ["walk 1", "tostring", "popfirst", "reverse", "clear"], "grow": ["tostring", "toarray", "clear"],
                        "queue": ["get 1", "pop", "popstr", "popint", "clear"], "stack": ["get 1", "popint", "popstr", "pop", "clear"]}[kind]
                hs.append(["new %s %d" % (kind, opt), "inv"] + fill + ["inv"] + tail + ["inv", "end"])
        return hs

    def gen_invalid(self):
        """`inv`: every documented-invalid call, the optional out-pointers left NULL, setsize edge values,
        on lists of every small size, built in different ways, with and without a size limit"""
        hs = []
        for n in range(6):
            for how in ("last", "mid"):
                for mx in sorted({0, n, n + 1, max(n - 1, 0)}):
                    hs.append(["new list"] + build(n, how) + ["setsize %d" % mx, "inv", "walk 0", "addlast 7a", "inv", "end"])
            for kind in ("queue", "stack"):
                for mx in (0, n):
                    hs.append(["new " + kind] + ["push " + hexs(POOL[i % 8]) for i in range(n)] + ["setsize %d" % mx, "inv", "pop", "inv", "end"])
            hs.append(["new grow"] + ["add " + hexs(POOL[i % 8]) for i in range(n)] + ["inv", "tostring", "clear", "inv", "end"])
        return hs

    def gen_walk_retry(self):
        """getnext with the caller's cursor under an allocation failure in the k-th call (newmem and
        not), the failed call RETRIED with the same cursor and the walk continued to its end: the
        element due is delivered, none skipped or repeated (walk-completeness in the oracle)"""
        hs = []
        for n in range(6):
            for how in ("last", "first"):
                for nm in (1, 0):
                    for k in range(n + 1):
                        for arm in ("fault 1", "faultfrom 1", "fault 2"):
                            h = ["new list %d" % (k & 1)] + build(n, how) + ["reset"] + ["next %d" % nm] * k
                            h += [arm, "next %d" % nm] + ["next %d" % nm] * (n + 2 - k)
                            # a second walk with a failure in every other call, each retried
                            h += ["reset"]
                            for _ in range(n + 1):
                                h += ["fault 1", "next 1", "next 1"]
                            hs.append(h + ["next 0", "end"])
        return hs

    def gen_wrappers(self):
        """string / integer views of queue and stack: INT64 limits, elements of exactly 8 bytes,
        strings of length 0, 1 and long ones; tostring / toarray / reverse on 0, 1, 2 elements"""
        ints = [0, 1, -1, 255, 256, -256, 2**31 - 1, 2**31, -2**31, -2**31 - 1, 2**32, 2**63 - 1, -2**63, -2**63 + 1, 72057594037927936]
        strs = [b"", b"a", b"ab", b"x" * 7, b"y" * 8, b"z" * 300]
        hs = []
        for kind in ("queue", "stack"):
            for ts in (0, 1):
                h = ["new %s %d" % (kind, ts), "getint", "popint", "getstr", "popstr", "get 1", "pop"]
                h += ["pushint %d" % v for v in ints] + ["getint"] + ["getint", "popint"] * len(ints) + ["popint"]
                # raw elements of exactly 8 bytes read back as integers
                raw = [bytes(8), b"\xff" * 8, bytes(range(1, 9)), b"\x00" * 7 + b"\x80"]
                h += ["push " + hexs(r) for r in raw] + ["getint", "popint"] * len(raw)
                h += ["pushstr " + hexs(x) for x in strs] + ["getstr", "popstr"] * len(strs) + ["popstr", "pushstr null"]
                # strings pushed as raw bytes with their terminator, and integers popped as raw bytes
                h += ["push 616200", "getstr", "popstr", "pushint -2", "pop", "pushstr 6364", "pop", "end"]
                hs.append(h)
        for n in range(4):
            els = [hexs(CLASSES[(i * 3 + n) % len(CLASSES)]) for i in range(n)]
            hs.append(["new list"] + ["addlast " + e for e in els] + ["tostring", "toarray", "reverse", "tostring", "toarray", "walk 1",
                                                                    "reverse", "size", "datasize", "end"])
            hs.append(["new grow"] + ["add " + e for e in els] + ["tostring", "toarray", "size", "datasize", "clear", "tostring", "toarray", "end"])
        return hs

    def gen_format_lengths(self, top):
        """qgrow addstrf with EVERY formatted length 0..top (format "%s": the length of the argument),
        so that a boundary of any buffer inside the formatting path is hit"""
        hs = []
        for L in range(top + 1):
            body = bytes(97 + (i * 11 + L) % 26 for i in range(L))
            h = ["new grow %d" % (L & 1), "addstrfs " + hexs(body)]
            if L % 64 == 0 or L in (1023, 1024, 1025, 2047, 2048, 2049):
                h += ["addstr " + hexs(body), "tostring", "addstrf %s -3" % hexs(body[:max(L - 3, 0)])]
            hs.append(h + ["end"])
        return hs

    def streams(self):
        quick = self.tier == "quick"
        sts = self.corpus_streams()
        sts.append(Stream("exhaustive-index", pack(self.gen_index_exhaustive(8 if quick else 10)), history=True,
                          note="every op x every index in [-n-2,n+2] x every n<=8 x 4 ways of building the list"))
        sts.append(Stream("limits", pack(self.gen_limits(4 if quick else 5)), history=True,
                          note="all add/remove sequences up to the length bound under size limits 0..4"))
        sts.append(Stream("contents", pack(self.gen_contents()), history=True,
                          note="tostring/toarray/walk over all tuples <=3 of 8 NUL-placement classes"))
        sts.append(Stream("queue-stack", pack(self.gen_qs(3 if quick else 4, 600 if quick else 6000)), history=True,
                          note="all safe op sequences up to the length bound + random ones; push/pushstr/pushint/pop*/get*"))
        sts.append(Stream("grow", pack(self.gen_grow(3 if quick else 4)), history=True))
        sts.append(Stream("grow-long-addstrf", pack(self.gen_grow_long()), history=True,
                          note="addstrf with formatted lengths 1000..1025, 2040..2050, 4090..4100, 5000, 10000"))
        sts.append(Stream("random-list", pack(self.gen_random_list(100 if quick else 1500, 120)), history=True))
        sts.append(Stream("big-limits", pack(self.gen_big_limits()), history=True,
                          note="setsize 2^31-1, 2^31, 2^32-1, 2^32, 2^32+2, 2^40, SIZE_MAX-1, SIZE_MAX on list/queue/stack: value read back, adds accepted/refused"))
        # the errno-reporting streams once more on THREADSAFE containers (same ops, same expected lines)
        sts.append(Stream("access-triples", pack(self.gen_access_triples((4, 5, 6) if quick else (4, 5, 6, 7, 9))), history=True,
                          note="(indexed op at every index) x (whole-list op) x (indexed access at every index)"))
        sts.append(Stream("exhaustive-index-ts", pack(ts_variant(self.gen_index_exhaustive(5 if quick else 8))), history=True,
                          note="exhaustive-index on containers created with QLIST_THREADSAFE"))
        sts.append(Stream("limits-ts", pack(ts_variant(self.gen_limits(3 if quick else 4))), history=True))
        sts.append(Stream("queue-stack-ts", pack(ts_variant(self.gen_qs(2 if quick else 3, 300 if quick else 3000))), history=True))
        sts.append(Stream("contents-grow-ts", pack(ts_variant(self.gen_contents() + self.gen_grow(2 if quick else 3))), history=True))
        sts.append(Stream("random-list-ts", pack(ts_variant(self.gen_random_list(60 if quick else 600, 120))), history=True))
        sts.append(Stream("invalid-args-ts", pack(ts_variant(self.gen_invalid())), history=True))
        sts.append(Stream("lockprobe", pack(self.gen_lockprobe()), history=True,
                          note="nested public call inside lock()..unlock(): a second thread finds the mutex busy until the outer unlock"))
        sts.append(Stream("ctor-options", pack(self.gen_ctor_options()), history=True,
                          note="every container kind x option words 0..3 (THREADSAFE and the undefined neighbour bit)"))
        sts.append(Stream("invalid-args", pack(self.gen_invalid()), history=True,
                          note="inv = every documented-invalid call + NULL out-pointers + setsize edge values, n<=5, limits"))
        sts.append(Stream("walk-retry", pack(self.gen_walk_retry()), history=True,
                          note="getnext (newmem and not) failing in the k-th call, retried with the same cursor, walk completed; n<=5"))
        sts.append(Stream("wrappers", pack(self.gen_wrappers()), history=True,
                          note="pushint/popint/getint at the INT64 limits and on raw 8-byte elements, pushstr/popstr/getstr, "
                               "tostring/toarray/reverse on 0..3 elements"))
        sts.append(Stream("format-lengths", pack(self.gen_format_lengths(2100 if quick else 4200)), history=True,
                          note="addstrf with every formatted length 0..2100"))
        if not quick:
            # total byte sizes of exactly 2^31 and beyond (size_t arithmetic in toarray / datasize)
            sts.append(Stream("huge", ["hugeseq 2048 1048576", "hugeseq 2049 1048576", "hugeseq 4097 1048576"], history=False, nomodel=True,
                              note="self-checking passes of the harness over a list and a grow buffer holding 2^31, 2^31+2^20 and 2^32+2^20 "
                                   "bytes: size, datasize, toarray (size and bytes), getnext walk"))
        return sts

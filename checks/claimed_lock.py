"""Entries for gen_manifest.py's CLAIMED table (properties C13, C14) -- paste into CLAIMED."""
CLAIMED = {
    "C13": dict(
        text="Lean 4: generic theorem wellLocked_linearizable (threads running invoke; pre*; acquire; body*; release; post*; "
             "respond micro-steps, small-step interleaving semantics, ALL schedules: if no pre/post step touches shared state, "
             "every complete execution equals the atomic execution of the operations in acquisition order, consistent with "
             "program order and real-time precedence), lockedWalk_snapshot, a negative theorem for the unlocked-read shape; "
             "per-function certificates wl_<fn> (decide +kernel) over lock skeletons regenerated from the current source by "
             "translator/lockcfg.py (clang-14 JSON AST) that every access to a mutable container field is at lock depth >= 1, "
             "lifted to all paths by wellLockedCfg_sound.  Search/K-corr: deterministic baton scheduler on wrapped "
             "pthread_mutex_trylock/unlock, all schedules of ~90 small client programs (2-3 threads) checked for "
             "linearizability against ideal containers; thorough: TSan free-running stress.",
        note="trusted: Lean kernel, the lock-skeleton translator + clang-14 AST (cross-checked by C14's trace validation), "
             "pthread mutual exclusion, that the C critical-section bodies behave like the sequential models (C01-C10), "
             "node-memory race freedom only sampled by TSan; getnext cursor steps are covered by lockedWalk_snapshot under the "
             "documented lock(); while(getnext()); unlock() protocol.",
        technique="Lean 4 proof (simulation invariant over interleavings) + K-gen lock skeletons with kernel-checked "
                  "certificates + exhaustive schedule enumeration (stateless DFS) + TSan",
        design="7/C13"),
    "C14": dict(
        text="Lean 4: balancedCfg_sound (for ALL paths of a lock skeleton from entry to a return: #lock = #unlock, never "
             "negative) + one kernel-checked certificate bal_<fn> per public function (159) of qtreetbl, qhashtbl, qlisttbl, "
             "qlist/qqueue/qstack/qgrow, qvector, qlog over skeletons regenerated from the current source on every run "
             "(every syntactic path: error returns and allocation-failure branches included) + enter_leave_model for the "
             "Q_MUTEX_ENTER/LEAVE macros.  Search/K-corr: every public function x every outcome class x every "
             "allocation-failure position on thread-safe containers with wrapped pthread_mutex_*/malloc family: lockdelta "
             "must be 0, a second thread must get in afterwards, every observed trace must be a path of the skeleton.",
        note="trusted: Lean kernel, translator/lockcfg.py + clang-14 AST + the analysis-only shim for the Q_MUTEX_* macros "
             "(validated by the run-time traces), pthread recursive mutex semantics; calls that crash under allocation failure "
             "(defects of C15) do not return and are recorded, not judged.",
        technique="K-gen control-flow skeletons + Lean 4 certificate checker with soundness proof (induction over paths) + "
                  "fault-injecting lock-balance harness",
        design="7/C14"),
}

"""Entries for gen_manifest.py's CLAIMED table (properties C13, C14) -- paste into CLAIMED."""
CLAIMED = {
    "C13": dict(
        text="Lean 4: generic theorem wellLocked_linearizable (threads running invoke; pre*; acquire; body*; release; post*; "
             "respond micro-steps, small-step interleaving semantics, ALL schedules: if no pre/post step touches shared state, "
             "every complete execution equals the atomic execution of the operations in acquisition order, consistent with "
             "program order and real-time precedence), lockedWalk_snapshot, a negative theorem for the unlocked-read shape; "
             "per-function certificates wl_<fn> (decide +kernel) over lock skeletons regenerated from the current source by "
             "translator/lockcfg.py (clang-14 JSON AST) that every access to a mutable container field is at lock depth >= 1, "
             "lifted to all paths by wellLockedCfg_sound; wrapper layer: per-function certificates atomic_<fn> (133: every "
             "public function of the containers incl. all of qqueue/qstack/qgrow and the str/int convenience methods) that "
             "no path takes the lock from depth 0 twice (one outermost critical section per call: a single self-locking "
             "callee or the caller's own lock held across), sound for all paths (phasesOk_sound), with atomic_shape / "
             "certified_call_is_wellLocked_op: every complete call of a function with both certificates is an operation "
             "pre*; acquire; body*; release; post* satisfying the hypothesis of wellLocked_linearizable; "
             "the Q_MUTEX_ENTER/LEAVE macros of the current source are extracted as statement trees (clang AST of the "
             "expansion, macro-local names abstracted) with obligation macro_tree_as_modelled, and enter_returns_holding "
             "(small-step semantics with an arbitrary environment move before every shared access: every terminating ENTER "
             "ends with the mutex held one level deeper by the caller after exactly one successful acquisition - mutual "
             "exclusion cannot be bypassed by a time-out path), leave_unlocks_once, all_container_mutexes_recursive.  "
             "Search/K-corr: "
             "deterministic baton scheduler on wrapped pthread_mutex_trylock/unlock, all schedules of ~130 small client "
             "programs (2-3 threads; raw, size-limited, unique-key and str/int convenience operations such as "
             "popint||popint, popint||push, popint||clear, popstr||popstr, getint||putint) checked for linearizability "
             "against ideal containers; hold scenarios on the real code (lock held across 1-3 waiter time-outs; nested "
             "locking calls by the holder while a second thread tries to get in; short contention followed by a third "
             "thread): two locked walks identical, nobody gets in while the lock is held; copy-vs-free programs (copying "
             "get/getat/getstr/find_nearest(newmem) against remove/pop/clear/replace of the SAME 300-byte element) "
             "enumerated on the ASan build: a copy taken after the unlock is a sanitizer abort with the schedule as "
             "replay; thorough: TSan free-running stress.",
        note="trusted: Lean kernel, the lock-skeleton translator + clang-14 AST (cross-checked by C14's trace validation), "
             "pthread mutual exclusion, that the C critical-section bodies behave like the sequential models (C01-C10), "
             "node-memory race freedom only sampled by TSan; getnext cursor steps are covered by lockedWalk_snapshot under the "
             "documented lock(); while(getnext()); unlock() protocol.",
        technique="Lean 4 proof (simulation invariant over interleavings) + K-gen lock skeletons with kernel-checked "
                  "certificates + exhaustive schedule enumeration (stateless DFS) + TSan",
        design="7/C13"),
    "C14": dict(
        text="Lean 4: balancedCfg_sound (for ALL paths of a lock skeleton from entry to a return: #lock = #unlock, never "
             "negative) + one kernel-checked certificate bal_<fn> per public function (159) of qtreetbl, qhashtbl, qlisttbl, "
             "qlist/qqueue/qstack/qgrow, qvector, qlog over skeletons regenerated from the current source on every run "
             "(every syntactic path: error returns and allocation-failure branches included) + enter_leave_model for the "
             "Q_MUTEX_ENTER/LEAVE macros; the macros of the current qinternal.h are extracted as statement trees "
             "(translator/mutexmacros.py, clang AST) and must equal the modelled trees (macro_tree_as_modelled), about "
             "which enter_returns_holding / leave_unlocks_once are proved for every behaviour of the other threads "
             "(exactly one acquisition per ENTER, exactly one unlock and no other observable effect per LEAVE), plus "
             "macro_tree_shape, macro_skeleton_as_modelled (NEW/DESTROY/MAX fingerprint), all_container_mutexes_recursive.  "
             "Search/K-corr: every public function x every outcome class x every "
             "allocation-failure position on thread-safe containers with wrapped pthread_mutex_*/malloc family: lockdelta "
             "must be 0, a second thread must get in afterwards, every observed trace must be a path of the skeleton; "
             "hold scenarios (owner keeps the lock across 1-3 waiter time-outs; nested locking public calls by the holder "
             "must leave the REAL mutex depth unchanged; short contention then a third thread): owner depth back to 0, "
             "waiter completes at depth 0, probe gets in.",
        note="trusted: Lean kernel, translator/lockcfg.py + clang-14 AST + the analysis-only shim for the Q_MUTEX_* macros "
             "(validated by the run-time traces), pthread recursive mutex semantics; calls that crash under allocation failure "
             "(defects of C15) do not return and are recorded, not judged.",
        technique="K-gen control-flow skeletons + Lean 4 certificate checker with soundness proof (induction over paths) + "
                  "fault-injecting lock-balance harness",
        design="7/C14"),
}

"""C15 — spans all containers; the streams come from checks/overlay.py providers."""
import vlib
from vlib import Check
from checks import overlay


class TheCheck(Check):
    prop = "C15"
    multi = True
    rule = ("operation histories of every modelled container, executed by the C code (ASan+UBSan+LSan build, allocator "
            "traffic of the library counted and controllable through harness/allocwrap.h) and by the Lean models; "
            "distinct_nontrivial = distinct (stream, operation, result) triples")
    assumptions = ["machine-level memory safety is sampled by the sanitizers on the explored histories; the theorems "
                   "carry the index / NULL / dangling / overlap / accounting logic of the models",
                   "containers covered in this revision: see the stream names in coverage.streams"]

    _extra_modules = ['C15Seq', 'C15Map', 'C15Harr']     # per-family property files imported by Props/C15.lean

    def __init__(self, tier, seed):
        super().__init__(tier, seed)
        extra = []
        for m in self._extra_modules:
            extra += vlib.theorems_of("QlibcModel.Props." + m)
        self.also_audit = tuple(self.also_audit) + tuple(extra)

    def regenerate(self):
        return overlay.regenerate()

    def streams(self):
        return overlay.all_streams(self, self.prop)

    def nontrivial_key(self, op, line):
        return (op.split()[0], line[:60])

    def classify(self, op, detail):
        return "overlay:" + op.split()[0]

"""Concurrent-caller probe (harness/mtpure.c): the functions the models treat as functions of their
arguments - codecs, query / INI / Apache-style parsers, string routines, the formatted put of
private containers - called from several threads at once, each thread on its own inputs and
containers. Implementation-vs-oracle stream (no model line): the harness compares every result with
the one the same computation gave alone."""
from vlib import Stream


def oracle(ops, lines):
    for i, (op, l) in enumerate(zip(ops, lines)):
        if l != "ok":
            return i, ("called from %s threads at once, each on private inputs, a function no longer returns what it returns "
                       "when called alone (hidden shared state): %s" % (op.split()[1], l[:160]))
    return None


def stream(check):
    rng, big = check.rng, check.tier != "quick"
    ops = ["mt %d %d %d" % (t, r if not big else 4 * r, rng.randrange(1 << 30)) for t, r in ((2, 300), (4, 200), (8, 100), (16, 50))]
    return Stream("concurrent-callers:pure-functions", ops, history=False, nomodel=True, harness="mtpure", lib="libq.a",
                  oracle=oracle, wraps=(), note="codecs, parsers, string routines and formatted puts of private containers from 2..16 threads at once")

"""C14 — every operation returns with the container lock released.

K-gen: translator/lockcfg.py regenerates the lock skeletons (Generated/LockCfg.lean) and one balance
certificate per public function (Generated/LockCerts*.lean) from the CURRENT source; Props/C14.lean
lifts the certificates to all paths.  K-corr / search: harness/lock.c (wrapped pthread_mutex_* and
allocation functions) calls every public function of every lockable container, created thread-safe,
in every outcome class and with the k-th allocation inside the call failing; the oracle demands
lockdelta = 0 and a successful probe by a second thread; every observed lock/unlock trace must be a
path of the generated skeleton (checked by the Lean driver, module `lock`)."""
import json, os, sys, time
import vlib
from vlib import Check, Stream, log
from checks import lockcommon as lc


class TheCheck(Check):
    prop = "C14"
    module = "lock"
    harness = "lock"
    wraps = lc.WRAPS
    rule = ("one call of a public function of a thread-safe container per operation line, in a freshly built state, "
            "optionally with the k-th allocation inside the call failing; distinct_nontrivial = distinct (function, "
            "result class, errno, allocation-failure position, event trace) tuples")
    assumptions = [
        "the lock-skeleton translator (clang-14 JSON AST, analysis-only shim for the Q_MUTEX_* macros) is trusted; it is "
        "cross-checked on every run: each lock/unlock trace observed at run time must be a path of the generated skeleton",
        "calls that are not inlined (libc, other qlibc modules, user callbacks, recursive helpers) are assumed not to "
        "touch the container mutex; recursive helpers are checked to contain no lock primitive",
        "pthread recursive mutexes behave as modelled in Conc/Mutex.lean (enter_leave_model)",
        "a call that does not return (crash or watchdog inside the call; defects of other properties, e.g. the NULL "
        "dereference in Q_MUTEX_NEW under allocation failure) is recorded in the evidence and is not a C14 counterexample",
        "harness linked against an unsanitised build: C14 is about lock balance, memory errors are C11/C15's business",
    ]

    # ---------------------------------------------------------------- steps
    def regenerate(self):
        self.lock, files = lc.regenerate_lock()
        bad = [n for n in self.lock.names if not self.lock.cfgs[n].balanced()]
        self.unbalanced = bad
        for n in bad:
            log("  translator: unbalanced skeleton\n" + self.lock.cfgs[n].problem_text())
        for p in self.lock.recursion_problems:
            log("  translator: " + p)
        return files

    def run(self):
        log("[%s] tier=%s seed=%d" % (self.prop, self.tier, self.seed))
        vlib.regenerate_all(skip=("lock",))
        try:
            self.regenerate()
        except SystemExit as e:
            self.lock, self.unbalanced = None, []
            self.pre_errors = ["translator failed: %s" % e]
        have_driver = lc.prove(self, lc.cert_module_names("LockCerts"))
        self.proof["errors"] = getattr(self, "pre_errors", []) + self.proof["errors"]
        if self.lock is not None and self.lock.recursion_problems:
            self.proof["audited"] = False
            self.proof["errors"] += self.lock.recursion_problems
        if self.unbalanced:
            self.proof["unbalanced_paths"] = {n: self.lock.cfgs[n].problem_text() for n in self.unbalanced}
        self.noreturn, self.traces = [], {}
        self.tmp = os.path.join(vlib.BUILD, "tmp-c14-%d" % os.getpid())
        os.makedirs(self.tmp, exist_ok=True)
        try:
            impl_dir = vlib.build_impl("plain")
            self.hbin = vlib.build_harness(self.harness, impl_dir, "plain", self.wraps)
        except vlib.BuildError as e:
            self.violation("build", "build-failure", str(e)[:2000], {"error": str(e)[:4000]})
            return self.decide()
        try:
            self.explore(have_driver)
        finally:
            for f in os.listdir(self.tmp):
                os.unlink(os.path.join(self.tmp, f))
            os.rmdir(self.tmp)
        self.long_hold(impl_dir)
        self.extra_cov = {"calls_that_did_not_return": self.noreturn[:20], "n_did_not_return": len(self.noreturn),
                          "functions_exercised": len(self.fn_seen), "functions_with_skeleton": len(self.lock.names) if self.lock else 0,
                          "unbalanced_skeletons": self.unbalanced, "max_fault_position": self.max_k}
        return self.decide()

    def run_harness(self, ops):
        return vlib.run_proc([self.hbin], "\n".join(ops) + "\n", timeout=600, env={"VERIF_TMP": self.tmp})

    def explore(self, have_driver):
        corpus = []
        cdir = os.path.join(vlib.ROOT, "corpus", "C14")
        for f in sorted(os.listdir(cdir)) if os.path.isdir(cdir) else []:
            corpus += [l.strip() for l in open(os.path.join(cdir, f)) if l.strip() and not l.startswith("#")]
        base = lc.all_base_ops(self.tier)
        nrand = 1500 if self.tier == "quick" else 20000
        rnd = lc.random_ops(self.rng, nrand)
        self.fn_seen, self.max_k = set(), 0
        reported = set()
        todo = [("corpus", corpus), ("all-functions-all-outcome-classes", base), ("random-states-and-arguments", rnd)]
        for name, ops in todo:
            k = 0
            cur = [o if " k=" in o else o + " k=0" for o in ops]
            while cur:
                st = "%s:k=%s" % (name, k if name != "corpus" else "*")
                out, rc, err = self.run_harness(cur)
                self.evals += len(cur)
                self.cov["streams"][st] = {"ops": len(cur), "impl_rc": rc}
                if rc != 0 or len(out) != len(cur):
                    i = len(out)
                    op = cur[i] if i < len(cur) else "<end>"
                    self.violation("crash", "harness-died", "harness died (rc=%d) at op `%s`: %s" % (rc, op, vlib.sanitizer_summary(err)),
                                   {"stream": st, "ops": [op], "stderr": err[-2000:]})
                nxt = []
                for op, line in zip(cur, out):
                    r = lc.parse_result(line)
                    fn = lc.cfg_name(op)
                    self.fn_seen.add(fn)
                    self.nontrivial.add((fn, r.get("ret"), r.get("errno"), r.get("fired"), op.rsplit(" k=", 1)[1], r.get("trace")))
                    if len(self.cov["samples"]) < 6 and self.rng.random() < 0.002:
                        self.cov["samples"].append({"stream": st, "op": op, "impl": line})
                    j = self.judge(op, line)
                    if j:
                        key = self.classify(op, line)
                        if key not in reported:
                            reported.add(key)
                            self.violation("property", key, j, {"stream": st, "ops": [op], "first_bad_op": op, "impl_line": line,
                                                                 "skeleton": self.lock.cfgs[fn].problem_text() if self.lock and fn in self.lock.cfgs else None})
                    ret = r.get("ret", "")
                    if ret.startswith("crash") or ret.startswith("hang"):
                        self.noreturn.append({"op": op, "result": ret})
                    elif fn is not None:
                        self.traces.setdefault((fn, r.get("trace", "-")), op)
                    if name != "corpus":
                        allocs = int(r.get("allocs", "0") or 0)
                        if (k == 0 and allocs > 0) or (k > 0 and r.get("fired") == "1"):
                            nxt.append(op.rsplit(" k=", 1)[0] + " k=%d" % (k + 1))
                if name == "corpus":
                    break
                cur = nxt
                k += 1
                self.max_k = max(self.max_k, k)
                if k > 40:
                    break
        # translator validation: every observed trace must be a path of the function's skeleton
        if have_driver and self.traces:
            items = sorted(self.traces)
            text = "".join("chk %s %s\n" % it for it in items)
            mo, mrc, merr = vlib.run_model(self.module, text)
            self.cov["streams"]["trace-is-path-of-skeleton"] = {"ops": len(items), "model_rc": mrc}
            if mrc != 0 or len(mo) != len(items):
                self.violation("corr", "driver-crash", "lock driver failed: %s" % merr[-300:], {"stream": "trace"})
            else:
                for it, ans in zip(items, mo):
                    if ans != "path":
                        self.violation("corr", "trace:" + it[0], "observed lock/unlock trace %s of %s is not a path of the generated "
                                       "skeleton (driver says %s); witness op `%s`" % (it[1], it[0], ans, self.traces[it]),
                                       {"stream": "trace", "ops": [self.traces[it]], "function": it[0], "trace": it[1]})
        if self.noreturn:
            log("  note: %d calls did not return (crash/watchdog inside the call), e.g. %s" % (len(self.noreturn), self.noreturn[0]))

    def long_hold(self, impl_dir):
        """the owner keeps the lock across 1 (quick: also 3) waiter time-outs of Q_MUTEX_ENTER"""
        lines = lc.hold_scenarios(self.tier)
        try:
            res = lc.run_hold(impl_dir, lines)
        except vlib.BuildError as e:
            self.violation("build", "build-failure", str(e)[:2000], {"error": str(e)[:4000]})
            return
        self.evals += len(res)
        self.cov["streams"]["long-hold"] = {"ops": len(res), "forced_unlock_attempts_seen": sum(int(r.get("forced", 0) or 0) for _, r, _ in res)}
        seen = set()
        for line, r, raw in res:
            self.nontrivial.add(("hold", line, r.get("forced"), r.get("t0_depth"), r.get("probe")))
            j = lc.judge_hold_c14(line, r)
            if j:
                key = "long-hold:" + ("owner-depth" if r.get("t0_depth") not in (None, "0") else "waiter-or-probe")
                if key not in seen:
                    seen.add(key)
                    self.violation("property", key, j, {"stream": "long-hold", "ops": [line], "first_bad_op": line, "impl_line": raw})

    # ---------------------------------------------------------------- oracle
    def judge(self, op, line):
        if op.startswith("hold "):
            return lc.judge_hold_c14(op, lc.parse_result(line))
        r = lc.parse_result(line)
        if "lockdelta" not in r:
            return "malformed harness result: " + line
        ret = r.get("ret", "")
        if ret.startswith("bad"):
            return "harness rejected the operation: " + line
        if ret.startswith("crash") or ret.startswith("hang"):
            return None                                   # the call did not return: outside C14 (recorded)
        if r["lockdelta"] != "0":
            return ("%s returned (%s, errno %s) with the container lock at depth %+d relative to entry; events %s%s" % (
                lc.cfg_name(op) or "lock/unlock", ret, r.get("errno"), int(r["lockdelta"]), r.get("trace"),
                "; %s-th allocation inside the call failed" % op.rsplit(" k=", 1)[1] if r.get("fired") == "1" else ""))
        if r.get("probe") == "blocked":
            return "after %s returned, a second thread could not enter the container (50 trylock attempts failed)" % lc.cfg_name(op)
        return None

    def classify(self, op, detail):
        r = lc.parse_result(detail) if "lockdelta=" in detail else {}
        return "%s:%s:%s" % (lc.cfg_name(op), r.get("ret", "?"), "enomem" if r.get("fired") == "1" else r.get("errno", "?"))

    # ---------------------------------------------------------------- replay (python3 check.py C14 --replay f)
    def replay(self, path):
        rp = json.load(open(path))
        print("replay of", path, "kind:", rp.get("kind"))
        print("detail:", rp.get("detail") or rp.get("proof_errors"))
        ops = rp.get("ops")
        self.lock, _ = lc.regenerate_lock()
        if not ops:
            ok, errs, out, _ = vlib.lake_build(["QlibcModel.Props." + self.prop])
            print("lake build Props.%s: %s" % (self.prop, "ok" if ok else "FAILED"))
            for n in lc.failing_certificates(out):
                fn = n.split("_", 1)[1]
                print("  certificate fails:", n)
                if fn in self.lock.cfgs:
                    print(self.lock.cfgs[fn].problem_text())
            for c in rp.get("correspondence", [])[:10]:
                print("  correspondence:", c.get("detail"))
            return 0 if ok and not rp.get("correspondence") else 1
        impl_dir = vlib.build_impl("plain")
        if ops and ops[0].startswith("hold "):
            bad = False
            for line, r, raw in lc.run_hold(impl_dir, ops):
                j = lc.judge_hold_c14(line, r)
                print("%s %s\n     impl  : %s\n     model : owner depth 0, waiter completes, probe ok (Props.C14.enter_leave_model)%s" % (
                    "!!" if j else "  ", line, raw, ("\n     oracle: " + j) if j else ""))
                bad |= bool(j)
            return 1 if bad else 0
        hbin = vlib.build_harness(self.harness, impl_dir, "plain", self.wraps)
        tmp = os.path.join(vlib.BUILD, "tmp-replay-%d" % os.getpid())
        os.makedirs(tmp, exist_ok=True)
        out, rc, err = vlib.run_proc([hbin], "\n".join(ops) + "\n", env={"VERIF_TMP": tmp})
        os.rmdir(tmp) if not os.listdir(tmp) else None
        bad = rc != 0
        for i, op in enumerate(ops):
            line = out[i] if i < len(out) else "<missing>"
            j = self.judge(op, line) if i < len(out) else "no result (harness died)"
            fn = lc.cfg_name(op)
            print("%s %s\n     impl  : %s\n     model : lockdelta=0 probe=ok (Props.C14.every_return_unlocked)%s" % (
                "!!" if j else "  ", op, line, ("\n     oracle: " + j) if j else ""))
            if j and fn in self.lock.cfgs and not self.lock.cfgs[fn].balanced():
                print("     skeleton:\n" + self.lock.cfgs[fn].problem_text())
            bad |= bool(j)
        return 1 if bad else 0

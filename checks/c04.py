"""C04 — nearest-key search: floor semantics, history-independent, always terminates."""
from checks.treecommon import TreeCheck
from vlib import Stream, hexs


class TheCheck(TreeCheck):
    prop = "C04"
    aspects = ("nearest",)
    rule = ("every probe (each stored key, each gap, below the minimum, above the maximum) against every tree state "
            "reachable with a bounded universe, and after random histories of put/remove/walk/abandoned walk/search; "
            "a watchdog bounds every call; distinct_nontrivial = distinct (operation, result, shape) triples")

    def probes(self, keys):
        ps = [b"\0"] + [k for k in keys] + [k + b"x" for k in keys] + [b"\xff"]
        out = []
        for p in ps:
            out.append("near %s" % hexs(p))
        # continue a walk from a search result: must visit every key once
        out += ["near %s" % hexs(keys[len(keys) // 2])] + ["next"] * (len(keys) + 2)
        return out

    def streams(self):
        big = self.tier != "quick"
        sts = self.corpus_streams()
        sts.append(self.bfs_stream(5 if not big else 7, 100000, self.probes, name="bfs-near"))
        for mode in (0, 1):
            sts.append(Stream("random-mode%d" % mode,
                              self.random_history(900 if not big else 10000, 24 if not big else 200, mode,
                                                  ops=("put", "put", "rm", "near", "near", "nearnext", "walk", "abandon", "fullnext"), quiet=False if not big else True),
                              history=True))
        # searches continued with getnext right after modifications that change the root (no walk in
        # between), and across the wrap-around of the 8-bit traversal epoch
        rng = self.rng
        ks = [b"n%02d" % i for i in range(24)]
        ops = ["new 0"]
        for rnd in range(160 if not big else 600):
            live = rng.sample(ks, rng.randrange(1, 9))
            ops += ["put %s 76" % hexs(k) for k in live]
            ops += ["walk"] if rng.random() < 0.5 else []
            ops += ["rm %s" % hexs(rng.choice(live))] if rng.random() < 0.6 else []
            ops += ["put %s 77" % hexs(rng.choice(ks))]
            ops += ["near %s" % hexs(rng.choice(live + ks[:2]))] + ["next"] * 26
        sts.append(Stream("near-then-walk-epochs", ops, history=True))
        # deterministic epoch probes: one search+continuation (advances the 8-bit counter once, at its
        # end) and w complete walks (twice each) bring the counter to every value around the
        # wrap-around; then a new key, a search and its continuation must visit every key once
        ops = []
        for extra in (0, 1):                # one more getnext after the end advances the counter again
          for w in range(124, 131):
            ops += ["new 0", "put 6b31 76", "put 6b33 76", "near 6b31"] + ["next"] * (3 + extra)
            ops += ["walk"] * w
            ops += ["put 6b32 77", "put 6b30 77", "near 6b30"] + ["next"] * 6 + ["near 6b33"] + ["next"] * 6
        sts.append(Stream("epoch-probes", ops, history=True))
        return sts

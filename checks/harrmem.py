"""Static hash table part of the cross-container properties C11 (allocation ledger), C12 (private
copies) and C15 (allocation failure): oracle and stream generators for the provider
`harr_streams(check, prop)` registered in checks/overlay.py.

Harness harness/harrmem.c (libqw.a: the library's allocator traffic goes through
harness/allocwrap.h), model module `harrmem` (lean/Driver/HarrMem.lean on top of
lean/QlibcModel/HashArr/Fault.lean), theorems in Props/C15Harr.lean and Props/C11Harr.lean.

The oracle is independent of the model: an ideal bounded map with the exact space rule (as in C06),
a ledger `live = handles + copies handed out and not yet released`, and the rule for injected
failures: ENOMEM may be reported only by a call inside which the armed allocation can have happened
(k <= attempts reported by the allocator wrapper — the count is USED for this decision only, it is
never judged: how many allocations a call makes is the correspondence's business); a call that
reports ENOMEM must leave the region byte-identical (`same=1`) and the ledger unchanged; a call that
does not report ENOMEM — whether or not an allocation was failed inside it — is judged as the plain
operation (result and state exactly those of the un-faulted call, nothing leaked)."""
import os, re
import vlib
from vlib import Stream, hexs
from checks import harr_common as H

LINE = re.compile(r"^(.*) \| live=(-?\d+) kept=(\d+) same=([01]) \| h (\S+) (\S+) (\S+) img=(\S+)$")
ASPECTS = {"C11": ("ledger", "map"), "C12": ("copies", "map"), "C15": ("atomic", "ledger", "map")}
INT_MAX = 2147483647


class HarrOracle:
    def __init__(self, aspects):
        self.aspects = aspects
        self.cap = None          # capacity of the region (None: no region)
        self.m = {}              # canon key -> (stored prefix, value)
        self.handle = False
        self.kept = 0
        self.armed = None        # ("single" | "from", k)
        self.injected = self.reported = 0

    def used(self):
        return sum(H.need(len(v)) for _, v in self.m.values())

    def hit(self, attempts):
        """did the armed failure happen inside a call that made `attempts` allocation attempts?"""
        return self.armed is not None and self.armed[1] >= 1 and attempts >= self.armed[1]

    def step(self, op, line):
        w = op.split()
        kind = w[0]
        if kind == "end":
            mm = re.match(r"^end live=(-?\d+) bad=(\d+)$", line)
            if not mm:
                return "unparsable end line: " + line[:100]
            if int(mm.group(1)) != 0:
                return "%s blocks of the library are still allocated after everything was released" % mm.group(1)
            if int(mm.group(2)) != 0:
                return "%s copies handed out by the table changed after they were returned" % mm.group(2)
            self.__init__(self.aspects)
            return None
        if line == "nohandle":
            ok = kind not in ("attach", "free") and not (self.cap is not None and self.handle)
            return None if ok else "harness answered `nohandle` to `%s`" % op[:40]
        if line == "bad-state":
            ok = (kind == "attach" and (self.cap is None or self.handle)) or (kind == "free" and not self.handle)
            return None if ok else "harness answered `bad-state` to `%s`" % op[:40]
        if line == "bad-op":
            return "harness rejected the operation line"
        d = H.name_block_error(line)
        if d:
            return d
        mm = LINE.match(line)
        if not mm:
            return "unparsable result line: " + line[:160]
        res, live, kept, same = mm.group(1), int(mm.group(2)), int(mm.group(3)), mm.group(4) == "1"
        hdr = mm.group(5, 6, 7)
        e = self.call(kind, w, res, same)
        if e:
            return e
        # ledger after every operation
        if kept != self.kept:
            return "harness holds %d copies, %d were handed out" % (kept, self.kept)
        if live != (1 if self.handle else 0) + self.kept:
            return "after `%s`: %d blocks of the library are live, expected %d handle(s) + %d copies handed out" % (
                op[:50], live, 1 if self.handle else 0, self.kept)
        # header counters against the ideal map
        if self.cap is not None:
            want = (str(self.cap), str(self.used()), str(len(self.m)))
            if hdr != want:
                return "after `%s`: header (maxslots, usedslots, num) = %s, ideal map says %s" % (op[:50], hdr, want)
        elif hdr != ("-", "-", "-"):
            return "a region is reported although none exists"
        return None

    def call(self, kind, w, res, same):
        if kind in ("fault", "faultfrom"):
            self.armed = ("single" if kind == "fault" else "from", int(w[1]))
            return None
        if kind == "check":
            mm = re.match(r"^kept=(\d+) bad=(\d+)$", res)
            if not mm:
                return "unparsable check result"
            if int(mm.group(2)) != 0:
                return "%s copies handed out by the table changed after later operations on the table" % mm.group(2)
            return None
        if kind == "drop":
            self.kept = 0
            return None
        if kind == "scribble":
            self.cap, self.m, self.handle = None, {}, False
            return None
        if kind == "free":
            self.handle = False
            return None if same else "free() changed the region"
        if kind == "walk":
            if not same:
                return "walk changed the region"
            got = []
            for t in res.split()[1:]:
                _, rest = t.split(":")
                nm, dt = rest.split("=")
                got.append((H.unhex(nm), H.unhex(dt)))
            self.kept += 2 * len(got)
            if sorted(got) != sorted(self.m.values()):
                return "walk yields %d entries, the ideal map has %d (or contents differ)" % (len(got), len(self.m))
            return None
        # ---- library calls inside an allocation window
        mm = re.match(r"^allocs=(\d+) (.*)$", res)
        if not mm:
            return "no allocation count in `%s`" % res[:80]
        attempts, r = int(mm.group(1)), mm.group(2)
        hit = self.hit(attempts)
        armed, self.armed = self.armed, None
        enomem = r.endswith("ENOMEM")
        if armed and armed[1] >= 1:
            self.injected += 1
        if enomem:
            self.reported += 1
            if not hit:
                return "`%s` reported ENOMEM although no allocation was failed (attempts=%d, armed=%s)" % (kind, attempts, armed)
            if kind == "new":
                # the region was initialised before the handle was allocated: an empty table, no handle
                ms = int(w[1])
                self.cap, self.m, self.handle = (ms - H.HDR) // H.SLOT, {}, False
                return None
            if not same:
                return "`%s` reported ENOMEM but the region changed" % kind
            if kind == "attach":
                self.handle = False
            return None
        # ---- no failure was reported: whether or not an allocation was failed inside the call (the
        # property allows a call to complete correctly although an allocation failed), the call is
        # judged as the plain operation: result and state exactly those of the un-faulted call
        if kind == "new":
            ms = int(w[1])
            cap = (ms - H.HDR) // H.SLOT if ms > H.HDR else 0
            if cap < 1 or ms <= H.HANDLE:
                self.cap, self.m, self.handle = None, {}, False
                return None if r == "null EINVAL" else "qhasharr() on %d bytes answered `%s`" % (ms, r)
            if r != "ok":
                return "qhasharr() on %d bytes answered `%s`" % (ms, r)
            self.cap, self.m, self.handle = cap, {}, True
            return None
        if kind == "attach":
            if r != "ok":
                return "attach answered `%s`" % r
            self.handle = True
            return None if same else "attach changed the region"
        m = self.m
        free = self.cap - self.used()
        if kind in ("put", "putstrf"):
            k, v = H.unhex(w[1]), H.unhex(w[2])
            if kind == "putstrf":
                k, v = k + b"\0", v + b"\0"
            ck = H.canon(k)
            if len(k) == 0 or len(v) == 0:
                want = "false EINVAL"
            elif ck in m:
                old = m[ck][1]
                if free >= 1 and H.need(len(v)) <= free + H.need(len(old)):
                    want = "ok"; m[ck] = (k[:H.NAMESIZE], v)
                else:
                    want = "false ENOBUFS"
                    if free >= 1:
                        del m[ck]
            elif H.need(len(v)) <= free:
                want = "ok"; m[ck] = (k[:H.NAMESIZE], v)
            else:
                want = "false ENOBUFS"
            return None if r == want else "%s answered `%s`, the ideal map `%s`" % (kind, r, want)
        if kind == "rm":
            k = H.unhex(w[1]); ck = H.canon(k)
            want = "false EINVAL" if len(k) == 0 else ("ok" if ck in m else "false ENOENT")
            m.pop(ck, None)
            return None if r == want else "remove answered `%s`, the ideal map `%s`" % (r, want)
        if kind == "rmi":
            idx = int(w[1])
            if idx < 0 or idx >= self.cap:
                return None if (r == "false EINVAL" and same) else "remove_by_idx(%d) on %d slots answered `%s` (region %s)" % (
                    idx, self.cap, r, "unchanged" if same else "CHANGED")
            if r == "ok":
                # which key sat there is a matter of layout: the counters tell how many slots went;
                # the next walk / gets tell the rest. Resolve by the header in step(): find the key
                # whose removal explains num; deferred to `resolve_rmi`
                self.pending_rmi = True
                return "RMI"
            return None if r == "false ENOENT" else "remove_by_idx answered `%s`" % r
        if kind == "clear":
            m.clear()
            return None
        if kind in ("get", "getstr"):
            k = H.unhex(w[1]) + (b"\0" if kind == "getstr" else b"")
            ck = H.canon(k)
            if not same:
                return "get changed the region"
            if len(k) == 0:
                want = "null EINVAL"
            elif ck in m:
                want = "data " + hexs(m[ck][1])
                self.kept += 1
            else:
                want = "null ENOENT"
            if r != want:
                return "get answered `%s`, the ideal map `%s`" % (r[:80], want[:80])
            return None
        if kind == "next":
            if not same:
                return "getnext changed the region"
            f = r.split()
            if f[0] == "obj":
                self.kept += 2
                ent = (H.unhex(f[2]), H.unhex(f[3]))
                return None if ent in m.values() else "getnext delivered an entry the ideal map does not hold"
            if f[0] == "end":
                idx = int(w[1])
                want = "EINVAL" if idx < 0 else "ENOENT"
                if f[2] != want:
                    return "getnext(%d) answered false/%s, documented %s" % (idx, f[2], want)
                if idx < 0 and int(f[1]) != idx:
                    return "getnext(%d) rejected the index but changed it to %s" % (idx, f[1])
                return None
            return "getnext answered `%s`" % r[:60]
        return "unknown operation " + kind


# remove_by_idx of a key slot: the oracle cannot know which key a slot holds without decoding the
# layout, so the generators always follow a successful `rmi` by a `walk`; the oracle resynchronises
# its map from that walk after checking that exactly one entry disappeared.
class HarrOracleSync(HarrOracle):
    def step(self, op, line):
        kind = op.split()[0]
        if getattr(self, "await_walk", False) and kind == "walk":
            mm = LINE.match(line)
            if not mm:
                return "unparsable result line: " + line[:160]
            got = []
            for t in mm.group(1).split()[1:]:
                _, rest = t.split(":")
                nm, dt = rest.split("=")
                got.append((H.unhex(nm), H.unhex(dt)))
            old = sorted(self.m.values())
            missing = list(old)
            for g in got:
                if g in missing:
                    missing.remove(g)
                else:
                    return "after remove_by_idx the walk shows an entry that was not stored"
            if len(missing) != 1:
                return "remove_by_idx answered ok but %d entries disappeared" % len(missing)
            for ck, val in list(self.m.items()):
                if val == missing[0]:
                    del self.m[ck]
                    break
            self.await_walk = False
        e = super().step(op, line)
        if e == "RMI":
            self.await_walk = True
            # counters are checked after the resynchronising walk
            mm = LINE.match(line)
            live, kept = int(mm.group(2)), int(mm.group(3))
            if kept != self.kept or live != (1 if self.handle else 0) + self.kept:
                return "ledger broken after remove_by_idx"
            return None
        if getattr(self, "await_walk", False) and kind not in ("walk",):
            # the generator guarantees a walk right after a successful rmi
            return "generator error: no walk after a successful rmi" if kind != "rmi" else None
        return e


def judge_sync(aspects):
    def judge(ops, lines):
        o = HarrOracleSync(aspects)
        for i, (op, l) in enumerate(zip(ops, lines)):
            e = o.step(op, l)
            if e:
                return i, e
        return None
    return judge


# ------------------------------------------------------------------ generators

ARMS = ["fault 1", "fault 2", "fault 3", "faultfrom 1", "faultfrom 2"]


def put(k, v):
    return H.op_put(k, v)


def putstrf(k, v):
    return "putstrf %s %s %s" % (hexs(k), hexs(v), H.hk(k + b"\0"))


def getstr(k):
    return "getstr %s %s" % (hexs(k), H.hk(k + b"\0"))


def glue_ops(big=False):
    """the formatted put with EVERY formatted length up to 2100 (a private fast-path buffer of any
    size below that has its boundary in here) and around the DYNAMIC_VSPRINTF sizes, read back with
    getstr and get"""
    from checks.c05 import VS_SWEEP, vs_value
    ops = ["new %d" % H.memsize(200)]
    for i, n in enumerate(VS_SWEEP if big else [x for x in VS_SWEEP if x <= 2100 or x in (4095, 4096, 4097)]):
        k = b"f%d" % (i % 3)
        ops += [putstrf(k, vs_value(n, i)), getstr(k)]
        if i % 50 == 49:
            ops += ["walk", "check", "drop"]
    ops += ["walk", "check", "drop", "end"]
    return ops


def glue_streams(check, prop="C12"):
    """streams over the convenience entry points, for the map-level checks (C06) as well"""
    from translator import harr_layout
    H.set_layout(harr_layout.extract(vlib.REPO))
    oracle = judge_sync(ASPECTS[prop])
    return [Stream("hasharr:putstrf-lengths", glue_ops(check.tier != "quick"), history=True, module="harrmem", harness="harrmem",
                   lib="libqw.a", oracle=oracle)]


def corpus_ops(prop):
    d = os.path.join(vlib.ROOT, "corpus", prop)
    out = []
    for f in sorted(os.listdir(d)) if os.path.isdir(d) else []:
        if f.startswith("harr_") and f.endswith(".ops"):
            out.append((f, [l.strip() for l in open(os.path.join(d, f)) if l.strip() and not l.startswith("#")]))
    return out


def harr_streams(check, prop):
    from translator import harr_layout
    H.set_layout(harr_layout.extract(vlib.REPO))
    rng, big = check.rng, check.tier != "quick"
    oracle = judge_sync(ASPECTS[prop])

    def S(name, ops):
        return Stream("hasharr:" + name, ops, history=True, module="harrmem", harness="harrmem", lib="libqw.a", oracle=oracle)

    sts = []
    for f, ops in corpus_ops(prop):
        sts.append(S("corpus:" + f, ops))
    keys = [b"a", b"bb", b"k" * 16, b"L" * 17, b"key-%d" % rng.randrange(100), b"Q" * 40]
    vals = [b"v", b"x" * 32, b"y" * 33, b"z" * 99]
    skeys = [b"s1", b"str-key", b"S" * 20]          # C-string keys for putstrf / getstr
    if prop == "C15":
        ops = []
        prefixes = [[]]
        for n in (1, 2, 4):
            ks = keys[:]
            rng.shuffle(ks)
            pre = [put(k, rng.choice(vals)) for k in ks[:n]]
            pre.append(putstrf(skeys[0], b"formatted"))
            if n > 2:
                pre.append(H.op_rm(ks[0]))
            prefixes.append(pre)
        observe = ["walk"] + [H.op_get(k) for k in keys[:4]] + [getstr(skeys[0]), "drop"]
        for cap in (6, 30):
            for pre in prefixes:
                targets = [H.op_get(keys[0]), H.op_get(b"absent"), getstr(skeys[0]), getstr(skeys[1]), "next 0", "next 2",
                           "next %d" % cap, "next -1", "next %d" % (-INT_MAX - 1), "next %d" % (cap + 1), "next %d" % INT_MAX, put(keys[1], b"n" * 70), H.op_rm(keys[0]), "rmi 0", "rmi %d" % cap, "clear",
                           putstrf(skeys[1], b"short"), putstrf(skeys[0], b"R" * 40)]
                if cap == 30:
                    targets += [putstrf(skeys[2], b"w" * 1023), putstrf(skeys[2], b"w" * 1024), putstrf(skeys[0], b"u" * 1100)]
                for t in targets:
                    for arm in ARMS:
                        ops += ["new %d" % H.memsize(cap)] + pre + [arm, t]
                        if t.startswith("rmi"):
                            ops.append("walk")
                        ops += observe
                # constructor and attach under failure; the region stays usable
                for arm in ("fault 1", "faultfrom 1", "fault 2"):
                    ops += [arm, "new %d" % H.memsize(cap), "attach", put(keys[0], b"after")] + observe
                    ops += ["new %d" % H.memsize(cap)] + pre + ["free", arm, "attach", "attach"] + observe
                # step-wise traversal with a failure inside the j-th call, repeated from the index it left
                for j in range(0, len(pre) + 1):
                    for arm in ("fault 1", "fault 2", "faultfrom 1"):
                        ops += ["new %d" % H.memsize(cap)] + pre + ["walk", "drop"]
                        # the failing call is repeated with the same index, then the whole index space is visited
                        ops += ["next %d" % i for i in range(0, j)] + [arm, "next %d" % j, "next %d" % j]
                        ops += ["next %d" % i for i in range(0, cap + 1)] + ["drop"]
        ops.append("end")
        sts.append(S("fault-enumeration", ops))
        # random histories with random failures
        ops = []
        for hno in range(30 if not big else 300):
            cap = rng.choice([2, 3, 5, 8, 30])
            ops.append("new %d" % (H.memsize(cap) + rng.choice([0, 0, 7])))
            pool = keys + [b"r%d" % rng.randrange(12) for _ in range(4)]
            for _ in range(rng.randrange(20, 120)):
                if rng.random() < 0.35:
                    ops.append(rng.choice(["fault %d" % rng.randrange(1, 4), "faultfrom %d" % rng.randrange(1, 3)]))
                k = rng.choice(pool)
                c = rng.random()
                if c < 0.3:
                    ops.append(put(k, rng.choice(vals + [b"", b"q" * 200])))
                elif c < 0.4:
                    ops.append(putstrf(rng.choice(skeys), rng.choice([b"f", b"g" * 50, b"h" * 1030])))
                elif c < 0.55:
                    ops.append(H.op_get(k))
                elif c < 0.6:
                    ops.append(getstr(rng.choice(skeys)))
                elif c < 0.7:
                    ops.append(H.op_rm(k))
                elif c < 0.8:
                    ops.append("next %d" % rng.choice([rng.randrange(0, cap + 1), rng.randrange(0, cap + 1), -1, -INT_MAX - 1, cap + 1, INT_MAX]))
                elif c < 0.88:
                    ops += ["rmi %d" % rng.choice([rng.randrange(0, cap), cap, cap + 1, INT_MAX, -1]), "walk"]
                elif c < 0.92:
                    ops.append("walk")
                elif c < 0.95:
                    ops += ["free", rng.choice(["fault 1", "fault 2", "faultfrom 1"]), "attach", "attach"]
                elif c < 0.97:
                    ops.append("clear")
                else:
                    ops += ["check", "drop"]
            ops += ["walk", "check"]
        ops.append("end")
        sts.append(S("random-faults", ops))
    else:
        # C11 / C12: ordinary histories; ledger after every operation and at release; every copy handed
        # out is kept and re-compared after replace / remove / clear / release of the handle / scribbling
        ops = []
        for cap in (2, 3, 7, 30):
            ops += ["new %d" % H.memsize(cap)]
            ks = keys[:]
            rng.shuffle(ks)
            for k in ks[:4]:
                ops += [put(k, rng.choice(vals)), H.op_get(k)]
            ops += [putstrf(skeys[0], b"string value"), getstr(skeys[0]), "walk", "next 0", "next %d" % cap, "check"]
            # indexes outside the table (fix 1eb7244): EINVAL, region untouched, on an exactly sized heap region
            for i in (cap, cap + 1, INT_MAX, -1, -INT_MAX - 1):
                ops += ["rmi %d" % i, "walk"]
            # getnext with an index outside the table (fix 5acdcf6: negative -> EINVAL, index untouched)
            for i in (-1, -INT_MAX - 1, cap, cap + 1, INT_MAX):
                ops += ["next %d" % i, "check"]
            # replace, remove, remove by index, clear: the copies must not change
            for k in ks[:3]:
                ops += [put(k, b"REPLACED" * rng.choice([1, 9])), "check"]
            ops += [H.op_rm(ks[0]), "check"]
            for i in range(cap):
                ops += ["rmi %d" % i, "walk"]
            ops += ["check", put(ks[1], b"again"), H.op_get(ks[1]), "clear", "check", "walk"]
            # release of the handle, re-attach, scribble the region
            ops += [put(ks[2], b"kept"), H.op_get(ks[2]), "free", "check", "attach", H.op_get(ks[2]), "walk", "free", "check",
                    "attach", "scribble", "check", "drop"]
        ops.append("end")
        sts.append(S("copies-and-ledger", ops))
        # (field widths of the slot header) 129 keys sharing ONE home slot of a 300-slot table (slot.count passes
        # 127 / 128); object keys of 1..20 bytes with a zero byte at every position: the copies handed out by
        # getnext are kept with their reported sizes (exactly sized private duplicates, ASan)
        uni = H.one_home_universe(300, 129, rng)
        ops = ["new %d" % H.memsize(300)] + [put(k, b"v") for k in uni] + ["walk", "check", "drop"]
        ops += [H.op_get(k) for k in uni[::6] + uni[126:]] + ["check", "drop"] + [H.op_rm(k) for k in uni] + ["walk", "check", "drop", "end"]
        sts.append(S("one-home-129", ops))
        # truncated keys that differ in one half of their MD5 only (H.MD5_HALF_PAIRS), sharing a home slot
        for half, a, b in H.MD5_HALF_PAIRS:
            hcap = H.shared_home_cap(a, b)
            if hcap is not None:
                sput = lambda k, v: "put %s %s %s" % (hexs(k + b"\0"), hexs(v), H.hk(k + b"\0"))
                sget = lambda k: H.op_get(k + b"\0")
                srm = lambda k: H.op_rm(k + b"\0")
                ops = H.digest_pair_ops(a, b, hcap, rng, sput, sget, srm, init="new %d" % H.memsize(hcap), extra=("walk", "check", "drop"))
                sts.append(S("digest-%s-half" % half, ops + ["end"]))
        ops = []
        for ln in range(1, 21):
            ops.append("new %d" % H.memsize(4))
            for z in range(ln):
                k = bytes((0 if i == z else 0x41 + i) for i in range(ln))
                ops += [put(k, b"zero" * (1 + ln % 3)), "walk", "next 0", H.op_get(k), "check", H.op_rm(k), "check", "drop"]
        ops.append("end")
        sts.append(S("zero-byte-keys", ops))
        sts.append(S("putstrf-lengths", glue_ops(big)))
        ops = []
        for hno in range(25 if not big else 250):
            cap = rng.choice([1, 2, 3, 5, 9, 40])
            ops.append("new %d" % (H.memsize(cap) + (45 if cap == 1 else 0)))
            pool = keys + [b"r%d" % rng.randrange(12) for _ in range(4)]
            for _ in range(rng.randrange(30, 150)):
                k = rng.choice(pool)
                c = rng.random()
                if c < 0.3:
                    ops.append(put(k, rng.choice(vals + [b"q" * 200])))
                elif c < 0.36:
                    ops.append(putstrf(rng.choice(skeys), rng.choice([b"f", b"g" * 50])))
                elif c < 0.56:
                    ops.append(H.op_get(k))
                elif c < 0.6:
                    ops.append(getstr(rng.choice(skeys)))
                elif c < 0.7:
                    ops.append(H.op_rm(k))
                elif c < 0.78:
                    ops.append("next %d" % rng.choice([rng.randrange(0, cap + 1), rng.randrange(0, cap + 1), -1, -INT_MAX - 1, cap + 1, INT_MAX]))
                elif c < 0.88:
                    ops += ["rmi %d" % rng.choice([rng.randrange(0, cap), rng.randrange(0, cap), cap, cap + 1, INT_MAX, -1]), "walk"]
                elif c < 0.92:
                    ops.append("walk")
                elif c < 0.95:
                    ops += ["free", "check", "attach"]
                elif c < 0.97:
                    ops += ["clear", "check"]
                else:
                    ops += ["check", "drop"]
            ops += ["walk", "check", rng.choice(["scribble", "free"]), "check"]
        ops.append("end")
        sts.append(S("random", ops))
    return sts

"""Ideal sequences used as the property oracles of C09 and C10 (pure Python lists), plus the
safety predicate the generators and the shrinker use to stay inside the API contract
(popint/getint only on elements of at least 8 bytes, getnext only while the node the caller's
cursor points to is still alive).

`apply(words)` returns (accepted_results, state_string):
  accepted_results : list of acceptable result strings, or None when the property does not
                     determine the result (API misuse, walking while modifying)
  state_string     : what the harness must print as the API-level observation after the op
Raises Unsafe when the operation would be outside the API contract in the current state."""


class Unsafe(Exception):
    pass


def unhex(w):
    return b"" if w == "-" else bytes.fromhex(w)


def hx(b):
    return b.hex() if b else "-"


def cstr(b):
    i = b.find(b"\0")
    return b if i < 0 else b[:i]


def hexlist(xs):
    return "[" + ",".join(hx(x) for x in xs) + "]"


class IdealSeq:
    """list / queue / stack / grow of byte strings"""

    def __init__(self, kind):
        self.kind = kind
        self.s = []          # the ideal sequence
        self.ids = []        # identities, only for the cursor-safety predicate
        self.nid = 0
        self.max = 0
        self.cur_fresh, self.cur_next = True, None
        self.modified = False

    # ---- helpers
    def state(self):
        n, tot = len(self.s), sum(len(e) for e in self.s)
        if self.kind == "list":
            return " sz=%d dsz=%d obs=%s" % (n, tot, hexlist(self.s))
        if self.kind in ("queue", "stack"):
            return " sz=%d obs=%s" % (n, hexlist(self.s))
        arr = "null/0" if n == 0 else "%s/%d" % (hx(b"".join(self.s)), tot)
        return " sz=%d dsz=%d arr=%s" % (n, tot, arr)

    def _insert(self, pos, d):
        self.s.insert(pos, d)
        self.ids.insert(pos, self.nid)
        self.nid += 1
        self.modified = True

    def _delete(self, pos):
        d = self.s.pop(pos)
        self.ids.pop(pos)
        self.modified = True
        return d

    def _add(self, idx, d):
        """idx: int (front/back relative insertion index); d: bytes or None (NULL)"""
        n = len(self.s)
        reasons = []
        if d is None or len(d) == 0:
            reasons.append("EINVAL")
        if self.max > 0 and n >= self.max:
            reasons.append("ENOBUFS")
        pos = idx if idx >= 0 else n + idx + 1
        if not (0 <= pos <= n):
            reasons.append("ERANGE")
        if reasons:
            return ["false " + r for r in reasons]
        self._insert(pos, d)
        return ["true"]

    def _pos(self, idx):
        n = len(self.s)
        pos = idx if idx >= 0 else n + idx
        return pos if 0 <= pos < n else None

    def _range_err(self, prefix):
        return [prefix + " ERANGE"] + ([prefix + " ENOENT"] if not self.s else [])

    def _get(self, idx, remove):
        pos = self._pos(idx)
        if pos is None:
            return self._range_err("null"), None
        d = self._delete(pos) if remove else self.s[pos]
        return ["data " + hx(d)], d

    def _remove(self, idx):
        pos = self._pos(idx)
        if pos is None:
            return self._range_err("false")
        self._delete(pos)
        return ["true"]

    def _toarray(self):
        if not self.s:
            return ["null ENOENT size=0"]
        a = b"".join(self.s)
        return ["data %s size=%d" % (hx(a), len(a))]

    def _tostring(self):
        if not self.s:
            return ["null ENOENT"]
        buf = b"".join(e[:-1] if e.endswith(b"\0") else e for e in self.s)
        return ["str " + hx(cstr(buf))]

    def _strview(self, res, d):
        if d is None:
            return res
        if d.endswith(b"\0"):
            return ["str " + hx(cstr(d))]
        return None           # popstr/getstr on something that is not a stored string

    def _intview(self, d):
        if d is None:
            return ["int 0"]
        if len(d) < 8:
            raise Unsafe("popint/getint on an element shorter than 8 bytes")
        if len(d) == 8:
            return ["int %d" % int.from_bytes(d, "little", signed=True)]
        return None

    def unsafe(self, w):
        """would this operation leave the API contract in the current state? (no mutation)"""
        op = w[0]
        if op in ("popint", "getint"):
            return bool(self.s) and len(self.s[0]) < 8
        if op == "next" and not self.cur_fresh and self.cur_next is not None:
            return self.cur_next not in self.ids
        return False

    def inv_expect(self):
        """`inv` (harness/seq.c): name -> acceptable `result:errno` strings; a trailing `*` accepts
        any errno (calls for which the documentation names none)"""
        n, full = len(self.s), self.max > 0 and len(self.s) >= self.max
        empty = ["null:ENOENT"] if n == 0 else []
        rng = ["null:ERANGE"] + empty
        first = ["data%s:*" % hx(self.s[0])] if n else ["null:ERANGE", "null:ENOENT"]
        arr = ["data%s:*" % hx(b"".join(self.s))] if n else ["null:ENOENT"]
        sets = {"setsame": ["%d:0" % self.max], "sethuge": ["%d:0" % self.max], "setback": ["18446744073709551615:0"]}
        if self.kind == "list":
            e = {k: ["false:EINVAL"] for k in ("addnull", "addfirstnull", "addlastnull", "addsize0", "addfirstsize0", "addlastsize0")}
            for k in ("addabove", "addbelow"):
                e[k] = ["false:ERANGE"] + (["false:ENOBUFS"] if full else [])
            for k in ("getabove", "getbelow", "popabove", "popbelow"):
                e[k] = rng
            for k in ("removeabove", "removebelow"):
                e[k] = ["false:ERANGE"] + (["false:ENOENT"] if n == 0 else [])
            e.update({"nextnull0": ["false:*"], "nextnull1": ["false:*"], "debugnull": ["false:EIO"],
                      "getfirstnosize": first, "toarraynosize": arr})
            e.update(sets)
            return e
        if self.kind in ("queue", "stack"):
            e = {k: ["false:EINVAL"] for k in ("pushnull", "pushsize0", "pushstrnull")}
            for k in ("getabove", "getbelow", "popabove", "popbelow"):
                e[k] = rng
            e.update({"debugnull": ["false:*"], "getnosize": first})
            e.update(sets)
            return e
        e = {k: ["false:EINVAL"] for k in ("addnull", "addsize0", "addstrempty", "addstrfempty")}
        e.update({"debugnull": ["false:EIO"], "toarraynosize": arr})
        return e

    # ---- operations
    def apply(self, w):
        op = w[0]
        k = self.kind
        res = None
        if op == "inv":
            return None, self.state()       # judged by Judge through inv_expect()
        if op == "lockprobe":
            # the nested public add of the probe (the Judge appends what the probing thread must see)
            return ["lockprobe " + r for r in self._add(0 if k == "stack" else -1, b"L")], self.state()
        if k == "list":
            res = self._apply_list(op, w)
        elif k in ("queue", "stack"):
            res = self._apply_qs(op, w)
        else:
            res = self._apply_grow(op, w)
        return res, self.state()

    def _apply_list(self, op, w):
        if op == "setsize":
            old, self.max = self.max, int(w[1])
            return ["old %d" % old]
        if op == "addfirst":
            return self._add(0, unhex(w[1]))
        if op == "addlast":
            return self._add(-1, unhex(w[1]))
        if op == "addat":
            return self._add(int(w[1]), unhex(w[2]))
        if op == "addnull":
            return self._add(int(w[1]), None)
        if op in ("getfirst", "getlast", "getat"):
            idx = 0 if op == "getfirst" else -1 if op == "getlast" else int(w[1])
            return self._get(idx, False)[0]
        if op in ("popfirst", "poplast", "popat"):
            idx = 0 if op == "popfirst" else -1 if op == "poplast" else int(w[1])
            return self._get(idx, True)[0]
        if op in ("removefirst", "removelast", "removeat"):
            idx = 0 if op == "removefirst" else -1 if op == "removelast" else int(w[1])
            return self._remove(idx)
        if op == "size":
            return ["n %d" % len(self.s)]
        if op == "datasize":
            return ["n %d" % sum(len(e) for e in self.s)]
        if op == "reverse":
            self.s.reverse(); self.ids.reverse(); self.modified = True
            return ["ok"]
        if op == "clear":
            self.s, self.ids, self.modified = [], [], True
            return ["ok"]
        if op == "toarray":
            return self._toarray()
        if op == "tostring":
            return self._tostring()
        if op == "walk":
            return ["walk" + "".join(" " + hx(e) for e in self.s) + " end ENOENT"]
        if op == "reset":
            self.cur_fresh, self.cur_next, self.modified = True, None, False
            return ["ok"]
        if op == "next":
            return self._next()
        raise ValueError("unknown list op " + op)

    def _next(self):
        """the cursor is a caller-side copy of a node: it names its successor by identity"""
        judged = not self.modified
        if self.cur_fresh:
            if not self.s:
                return ["false ENOENT"] if judged else None
            p = 0
        else:
            if self.cur_next is None:
                return ["false ENOENT"] if judged else None
            if self.cur_next not in self.ids:
                raise Unsafe("getnext through a cursor whose next node was removed")
            p = self.ids.index(self.cur_next)
        self.cur_fresh = False
        self.cur_next = self.ids[p + 1] if p + 1 < len(self.ids) else None
        return ["data " + hx(self.s[p])] if judged else None

    def _apply_qs(self, op, w):
        at = -1 if self.kind == "queue" else 0       # where push inserts; pop always takes the front
        if op == "setsize":
            old, self.max = self.max, int(w[1])
            return ["old %d" % old]
        if op == "push":
            return self._add(at, unhex(w[1]))
        if op == "pushstr":
            if w[1] == "null":
                return ["false EINVAL"]
            return self._add(at, cstr(unhex(w[1])) + b"\0")
        if op == "pushint":
            return self._add(at, (int(w[1]) % (1 << 64)).to_bytes(8, "little"))
        if op == "pop":
            return self._get(0, True)[0]
        if op == "popat":
            return self._get(int(w[1]), True)[0]
        if op == "get":
            return self._get(0, False)[0]
        if op == "getat":
            return self._get(int(w[1]), False)[0]
        if op in ("popstr", "getstr"):
            if self.s and len(self.s[0]) == 0:
                raise Unsafe("empty element")
            res, d = self._get(0, op == "popstr")
            return self._strview(res, d)
        if op in ("popint", "getint"):
            if self.s and len(self.s[0]) < 8:
                raise Unsafe("popint/getint on an element shorter than 8 bytes")
            res, d = self._get(0, op == "popint")
            return self._intview(d)
        if op == "size":
            return ["n %d" % len(self.s)]
        if op == "clear":
            self.s, self.ids = [], []
            return ["ok"]
        raise ValueError("unknown queue/stack op " + op)

    def _apply_grow(self, op, w):
        if op == "add":
            return self._add(-1, unhex(w[1]))
        if op == "addstr":
            return self._add(-1, cstr(unhex(w[1])))
        if op == "addstrf":
            return self._add(-1, cstr(unhex(w[1])) + b"=" + str(int(w[2])).encode())
        if op == "addstrfs":
            return self._add(-1, cstr(unhex(w[1])))
        if op == "size":
            return ["n %d" % len(self.s)]
        if op == "datasize":
            return ["n %d" % sum(len(e) for e in self.s)]
        if op == "toarray":
            return self._toarray()
        if op == "tostring":
            return self._tostring()
        if op == "clear":
            self.s, self.ids = [], []
            return ["ok"]
        raise ValueError("unknown grow op " + op)


class IdealVec:
    """array of fixed-size elements; capacity is not part of the ideal (growth is automatic)"""

    def __init__(self, objsize):
        self.os = objsize
        self.s = []
        self.cur = 0
        self.modified = False

    def state(self):
        return " sz=%d obs=%s" % (len(self.s), hexlist(self.s))

    def _pos(self, idx):
        n = len(self.s)
        pos = idx if idx >= 0 else n + idx
        return pos if 0 <= pos < n else None

    def _err(self, prefix):
        return [prefix + " ERANGE"] + ([prefix + " ENOENT"] if not self.s else [])

    def _add(self, idx, d):
        n = len(self.s)
        reasons = []
        if d is None:
            reasons.append("EINVAL")
        pos = idx if idx >= 0 else n + idx
        if not (0 <= pos <= n):
            reasons.append("ERANGE")
        if reasons:
            return ["false " + r for r in reasons]
        self.s.insert(pos, d)
        self.modified = True
        return ["true"]

    def _elem(self, w):
        d = unhex(w)
        if len(d) != self.os:
            raise Unsafe("element argument is not objsize bytes long")
        return d

    def inv_expect(self):
        n = len(self.s)
        rng = lambda p: [p + ":ERANGE"] + ([p + ":ENOENT"] if n == 0 else [])
        e = {k: ["false:EINVAL"] for k in ("addnull", "addfirstnull", "addlastnull")}
        e.update({"addabove": ["false:ERANGE"], "addbelow": ["false:ERANGE"]})
        for k in ("getabove", "getbelow", "popabove", "popbelow"):
            e[k] = rng("null")
        for k in ("setabove", "setbelow", "removeabove", "removebelow"):
            e[k] = rng("false")
        e.update({"nextnull0": ["false:*"], "nextnull1": ["false:*"], "debugnull": ["false:EIO"],
                  "toarraynosize": ["data%s:*" % hx(b"".join(self.s))] if n else ["null:ENOENT"],
                  "resizesame": ["true:*"]})
        return e

    def apply(self, w):
        op = w[0]
        n = len(self.s)
        res = None
        if op == "inv":
            return None, self.state()
        if op == "lockprobe":
            return ["lockprobe " + r for r in self._add(n, b"L" * self.os)], self.state()
        if op == "addfirst":
            res = self._add(0, self._elem(w[1]))
        elif op == "addlast":
            res = self._add(n, self._elem(w[1]))
        elif op == "addat":
            res = self._add(int(w[1]), self._elem(w[2]))
        elif op == "addnull":
            res = self._add(int(w[1]), None)
        elif op in ("getfirst", "getlast", "getat"):
            idx = 0 if op == "getfirst" else -1 if op == "getlast" else int(w[1])
            p = self._pos(idx)
            res = self._err("null") if p is None else ["data " + hx(self.s[p])]
        elif op in ("setfirst", "setlast", "setat"):
            idx = 0 if op == "setfirst" else -1 if op == "setlast" else int(w[1])
            d = self._elem(w[-1])
            p = self._pos(idx)
            if p is None:
                res = self._err("false")
            else:
                self.s[p] = d
                self.modified = True
                res = ["true"]
        elif op in ("popfirst", "poplast", "popat"):
            idx = 0 if op == "popfirst" else -1 if op == "poplast" else int(w[1])
            p = self._pos(idx)
            if p is None:
                res = self._err("null")
            else:
                res = ["data " + hx(self.s.pop(p))]
                self.modified = True
        elif op in ("removefirst", "removelast", "removeat"):
            idx = 0 if op == "removefirst" else -1 if op == "removelast" else int(w[1])
            p = self._pos(idx)
            if p is None:
                res = self._err("false")
            else:
                self.s.pop(p)
                self.modified = True
                res = ["true"]
        elif op == "size":
            res = ["n %d" % n]
        elif op == "resize":
            m = int(w[1])
            if m < n:
                self.s = self.s[:m]
            self.modified = True
            res = ["true"]
        elif op == "reverse":
            self.s.reverse()
            self.modified = True
            res = ["ok"]
        elif op == "clear":
            self.s = []
            self.modified = True
            res = ["ok"]
        elif op == "toarray":
            res = ["null ENOENT size=0"] if not self.s else ["data %s size=%d" % (hx(b"".join(self.s)), n)]
        elif op == "walk":
            res = ["walk" + "".join(" " + hx(e) for e in self.s) + " end ENOENT"]
        elif op == "reset":
            self.cur, self.modified = 0, False
            res = ["ok"]
        elif op == "next":
            # the cursor is a position; judged only while nothing was modified since `reset`
            if self.cur < n:
                r = "data %s idx=%d" % (hx(self.s[self.cur]), self.cur + 1)
                self.cur += 1
            else:
                r = "false ENOENT idx=%d" % self.cur
            res = [r] if not self.modified else None
        else:
            raise ValueError("unknown vector op " + op)
        return res, self.state()


FAIL_FORMS = ("false ENOMEM", "null ENOMEM", "int 0 ENOMEM", "ENOMEM")


class Judge:
    """feeds (op, implementation line) pairs in order; `feed` returns a description when the
    implementation's API-level output contradicts the ideal sequence, else None.

    Allocation failure (C15): after `fault k` / `faultfrom k` the next windowed call (result line
    starting with `allocs=<n> `) may either complete correctly or report ENOMEM, and then the
    contents must be exactly what they were; ENOMEM without an injected failure is a violation.
    ledger=True (C11): `live=<n>` must equal the block count of the ideal contents after every
    operation, `end` must report `live=0 bad=0`, a failed constructor `live=0`."""

    def __init__(self, mode, ledger=False):
        self.mode, self.ideal, self.dead, self.ledger = mode, None, False, ledger
        self.armed, self.ts = False, False

    def _ledger(self, priv):
        import re
        m = re.search(r"\blive=(-?\d+)", priv)
        if not m:
            return "no live= field in the private part"
        live = int(m.group(1))
        if self.mode == "seq":
            want = 1 + int(self.ts) + 2 * len(self.ideal.s) + (0 if self.ideal.kind == "list" else 1)
        else:
            mm = re.search(r"\bmax=(\d+)", priv)
            want = 1 + int(self.ts) + (1 if mm and int(mm.group(1)) > 0 else 0)
        if live != want:
            return "the library owns %d blocks, the contents account for %d" % (live, want)
        return None

    def feed(self, op, line):
        import re
        w = op.split()
        if w[0] in ("obsoff", "obson"):
            return None if line == "ok" else "harness rejected the operation"
        if w[0] in ("fault", "faultfrom"):
            self.armed = int(w[1]) > 0
            return None if line == "ok" else "harness rejected the operation"
        if w[0] in ("huge", "hugeseq"):
            # self-checking pass of the harness over a multi-GiB vector: it reports `ok` or the first mismatch
            self.ideal = None
            return None if line == "ok live=0" else "self-checking pass `%s`: %s" % (op, line[:200])
        parts = line.split(" | ")
        api, priv = parts[0], (parts[1] if len(parts) > 1 else "")
        m = re.match(r"allocs=(\d+) ", api)
        armed = self.armed
        if m:
            api = api[m.end():]
            self.armed = False
        if w[0] == "end":
            self.ideal = None
            if api != "end live=0 bad=0":
                return "after the container was released: `%s` (blocks still allocated / copies handed out earlier changed)" % api[:80]
            return None
        if w[0] == "new":
            self.dead = False
            self.walked = []        # the harness zeroes its cursor with every new container
            if "KEPT-BAD" in api:
                return "a copy handed out earlier changed when the container was released: `%s`" % api[:80]
            if self.mode == "seq":
                self.ideal = IdealSeq(w[1])
                self.ts = len(w) > 2 and bool(int(w[2]) & 1)
                want = "ok" + self.ideal.state()
            elif int(w[2]) == 0:
                self.ideal, want = None, "null EINVAL live=0"
            else:
                self.ideal = IdealVec(int(w[2]))
                self.ts = bool(int(w[3]) & 1)
                want = "ok" + self.ideal.state()
            if api.startswith("null ENOMEM"):
                self.ideal = None
                if not armed:
                    return "constructor reports ENOMEM although no allocation failure was injected"
                if api != "null ENOMEM live=0":
                    return "a failed constructor left blocks allocated: `%s`" % api[:80]
                return None
            if api != want:
                return "constructor: expected `%s`, got `%s`" % (want, api[:200])
            if self.ledger and self.ideal is not None:
                return self._ledger(priv)
            return None
        if self.ideal is None or self.dead:
            return None
        if line.startswith("bad-op"):
            return "harness rejected the operation"
        ideal = self.ideal
        k = api.find(" sz=")
        got_res, got_state = (api[:k], api[k:]) if k >= 0 else (api, "")
        if "ENOMEM" in got_res:
            # a reported allocation failure: only when one was injected, and nothing may have changed
            if not armed:
                return "`%s` reports ENOMEM although no allocation failure was injected: `%s`" % (op[:80], got_res[:80])
            if not got_res.startswith(FAIL_FORMS):
                return "`%s` under allocation failure: malformed failure report `%s`" % (op[:80], got_res[:80])
            if got_state != ideal.state():
                return "`%s` reported ENOMEM but changed the container: it shows `%s`, before the call it was `%s`" % (
                    op[:80], got_state[:200].strip(), ideal.state()[:200].strip())
            if self.ledger:
                return self._ledger(priv)
            return None
        if w[0] == "inv":
            d = check_inv(ideal.inv_expect(), got_res)
            if d:
                return "`inv` on %s: %s" % (_short(ideal.s), d)
        if w[0] == "reset":
            self.walked = []
        walk_judged = w[0] == "next" and not ideal.modified
        try:
            before = list(ideal.s)
            res, state = ideal.apply(w)
        except Unsafe:
            self.dead = True     # outside the API contract until the next `new`: nothing to judge
            return None
        if walk_judged and getattr(self, "walked", None) is not None:
            # walk completeness: between `reset` and the first end-of-walk report every element is
            # delivered exactly once, in order - also when calls in between failed and were retried
            g = got_res.split(" idx=")[0]
            if g.startswith("data "):
                self.walked.append(unhex(g[5:]))
            elif g.startswith("false ENOENT"):
                if self.walked != before:
                    return "the walk since `reset` delivered %s, the contents are %s" % (_short(self.walked), _short(before))
                self.walked = None
        if w[0] == "lockprobe" and res is not None:
            # THREADSAFE: while lock() is in force (also after the nested call released ITS level) another
            # thread finds the mutex busy, after unlock() free
            res = [r + (" held=1 after=0" if self.ts else " nolock") for r in res]
        if res is not None and got_res not in res:
            return "`%s` on %s: expected %s, got `%s`" % (op[:80], _short(before), " or ".join("`%s`" % r[:120] for r in res), got_res[:160])
        if got_state != state:
            return "after `%s` on %s the container shows `%s`, the ideal sequence is `%s`" % (
                op[:80], _short(before), got_state[:200].strip(), state[:200].strip())
        if self.ledger:
            return self._ledger(priv)
        return None


def check_inv(expect, got):
    """got: `inv name=result:errno ...`"""
    toks = got.split()
    if not toks or toks[0] != "inv":
        return "malformed result `%s`" % got[:80]
    seen = {}
    for t in toks[1:]:
        k, _, v = t.partition("=")
        seen[k] = v
    for k, acc in expect.items():
        if k not in seen:
            return "call `%s` is missing from the result" % k
        v = seen[k]
        ok = any(v == a or (a.endswith(":*") and v.startswith(a[:-1])) for a in acc)
        if not ok:
            return "call `%s` returned `%s`, documented: %s" % (k, v[:80], " or ".join("`%s`" % a[:80] for a in acc))
    extra = [k for k in seen if k not in expect]
    if extra:
        return "unexpected calls %s" % extra
    return None


def judge_stream(ops, impl_lines, mode, ledger=False):
    """mode: 'seq' or 'vector'. Returns (index, description) of the first op on which the
    implementation's API-level transcript contradicts the ideal sequence, or None."""
    j = Judge(mode, ledger)
    for i, (op, line) in enumerate(zip(ops, impl_lines)):
        d = j.feed(op, line)
        if d:
            return i, d
    return None


def _short(seq):
    s = hexlist(seq)
    return s if len(s) <= 80 else s[:77] + "...]"


def safe(ops, mode):
    ideal = None
    for op in ops:
        w = op.split()
        try:
            if w[0] in ("fault", "faultfrom", "obsoff", "obson"):
                continue
            if w[0] in ("end", "huge", "hugeseq"):
                ideal = None
                continue
            if w[0] == "new":
                if mode == "seq":
                    ideal = IdealSeq(w[1])
                else:
                    ideal = IdealVec(int(w[2])) if int(w[2]) > 0 else None
                continue
            if ideal is None:
                return False
            ideal.apply(w)
        except (Unsafe, ValueError, IndexError):
            return False
    return True

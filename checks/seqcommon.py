"""Shared parts of the C09 / C10 checks: many short histories are packed into one stream (each
starts with a `new …` line), so shrinking first isolates the failing history and then minimises
inside it, never leaving the API contract (seqideal.safe)."""
import os
import vlib
from vlib import Check, Stream
from checks import seqideal


def regenerate_vecprims():
    """facts of qvector.c the vector model is assembled from (translator/vecprims.py): every check
    whose theorems import the vector model regenerates them, so that none runs on facts that a
    previous run extracted from a different tree"""
    from translator import vecprims
    out = os.path.join(vlib.LEAN, "QlibcModel/Generated/VectorPrims.lean")
    text = vecprims.render(vecprims.extract(vlib.REPO))
    if not os.path.exists(out) or open(out).read() != text:
        open(out, "w").write(text)
    return [out]


class SeqCheck(Check):
    mode = "seq"

    def judge_history(self, ops, impl_lines):
        return seqideal.judge_stream(ops, impl_lines, self.mode)

    def judge(self, op, impl_line):
        """stateful, line by line in order (used by --replay; run() uses judge_history)"""
        if not hasattr(self, "_judge"):
            self._judge = seqideal.Judge(self.mode)
        return self._judge.feed(op, impl_line)

    def nontrivial_key(self, op, line):
        w = op.split()
        r = line.split(" ")
        if r and r[0].startswith("allocs="):
            r = r[1:] or [""]
        return "%s:%s:%s" % (w[0], r[0], r[1] if r[0] in ("false", "null") and len(r) > 1 else "")

    def classify(self, op, detail):
        return "%s:%s" % (self.mode, op.split()[0] if op.split() else "?")

    def corpus_streams(self):
        d = os.path.join(vlib.ROOT, "corpus", self.prop)
        out = []
        for f in sorted(os.listdir(d)) if os.path.isdir(d) else []:
            ops = [l.strip() for l in open(os.path.join(d, f)) if l.strip()]
            if f.startswith("huge_"):
                # self-checking multi-GiB passes of the harness: thorough tier only, no model line
                if self.tier != "quick":
                    out.append(Stream("corpus:" + f, ops, history=False, nomodel=True))
                continue
            out.append(Stream("corpus:" + f, ops, history=True))
        return out

    def shrink(self, st, idx, pred):
        if not st.history:
            return [st.ops[idx]] if idx < len(st.ops) else st.ops[-1:]
        ops = st.ops[:idx + 1]
        start = 0
        for k in range(len(ops) - 1, -1, -1):
            if ops[k].startswith("new "):
                start = k
                break
        head, body = ops[start], ops[start + 1:]
        hbin = self.stream_bin(st)
        module = None if st.nomodel else (st.module or self.module)

        def fails(cand):
            cand = [head] + cand
            if not seqideal.safe(cand, self.mode):
                return False
            text = "\n".join(cand) + "\n"
            im, rc, _ = vlib.run_proc([hbin], text, timeout=60)
            mo = None
            if os.path.exists(vlib.driver_path()) and module:
                mo, mrc, _ = vlib.run_model(module, text, timeout=60)
            return pred(cand, im, mo, rc)
        try:
            if not body:
                return [head]
            if not fails(body):
                return ops         # the failure needs earlier histories (should not happen): keep all
            return [head] + vlib.ddmin(body, fails, budget=120 if self.tier == "quick" else 400)
        except Exception:
            return ops


def ts_variant(histories):
    """the same histories on containers created with the THREADSAFE option (bit 1 of the option word):
    single-threaded use must behave identically - same operations, same expected lines; what differs is
    that every public function now really locks and unlocks around its body, errno reports included"""
    out = []
    for h in histories:
        w = h[0].split()
        if w[0] != "new":
            out.append(list(h)); continue
        if len(w) == 2:                     # new list|queue|stack|grow
            head = "%s %s 1" % (w[0], w[1])
        elif len(w) == 3:                   # new <kind> <opt>
            head = "%s %s %d" % (w[0], w[1], int(w[2]) | 1)
        else:                               # new <max> <objsize> <options>
            head = "%s %s %s %d" % (w[0], w[1], w[2], int(w[3]) | 1)
        out.append([head] + list(h[1:]))
    return out


def pack(histories):
    """flatten a list of histories (each a list of op lines starting with `new`) into one op list"""
    out = []
    for h in histories:
        out += h
    return out

"""C11 — spans all containers; the streams come from checks/overlay.py providers."""
import vlib
from vlib import Check
from checks import overlay


class TheCheck(Check):
    prop = "C11"
    multi = True
    # the fault-freedom obligations of the container / decoder / hash / string models (see Props/C11.lean)
    also_audit = tuple("Qlibc.Props." + n for n in (
        "C02.put_preserves_llrb", "C02.remove_preserves_llrb", "C02.reachable_llrb",
        "C03.walk_complete", "C04.nearest_terminates",
        "C09.walk_spec", "C09.get_obj_spec", "C09.history_refines",
        "C10.removeat_no_overlap", "C10.history_refines",
        "C17.urlDecode_safe", "C17.b64Decode_safe", "C17.hexDecode_safe", "C17.parseQueries_safe",
        "C18.reads_in_bounds",
        "C19.replace_fits", "C19.strcpy_bounded", "C19.trim_writes_in_contract", "C19.tok_writes_in_contract"))
    rule = ("operation histories of every modelled container, executed by the C code (ASan+UBSan+LSan build, allocator "
            "traffic of the library counted and controllable through harness/allocwrap.h) and by the Lean models; "
            "distinct_nontrivial = distinct (stream, operation, result) triples")
    assumptions = ["machine-level memory safety is sampled by the sanitizers on the explored histories; the theorems "
                   "carry the index / NULL / dangling / overlap / accounting logic of the models",
                   "containers covered in this revision: see the stream names in coverage.streams"]

    _extra_modules = ['C11Seq', 'C11Map', 'C11Harr']     # per-family property files imported by Props/C11.lean

    def __init__(self, tier, seed):
        super().__init__(tier, seed)
        extra = []
        for m in self._extra_modules:
            extra += vlib.theorems_of("QlibcModel.Props." + m)
        self.also_audit = tuple(self.also_audit) + tuple(extra)

    def regenerate(self):
        return overlay.regenerate()

    def streams(self):
        return overlay.all_streams(self, self.prop)

    def nontrivial_key(self, op, line):
        return (op.split()[0], line[:60])

    def classify(self, op, detail):
        return "overlay:" + op.split()[0]

"""C05 — hash table is an exact map for every history and table range."""
import itertools, os, re
import vlib
from vlib import Check, Stream, hexs
from checks.murmur import murmur3_32

INT64_MIN, INT64_MAX = -(2 ** 63), 2 ** 63 - 1
# two pairs of distinct names with the same 32-bit murmur3 value (found by brute force over "c<i>";
# verified at start-up): they exercise the `hash == hash && !strcmp` order of the chain search
FULL_COLLISIONS = [(b"c100368", b"c119089"), (b"c4234", b"c146789"), (b"k118215", b"k351535"), (b"k5d39", b"k8a9df")]
# a key and a proper EXTENSION of it with the same 32-bit murmur3 value (found by checks/prefixcoll.c,
# ~2^32 candidates per pair, 16 threads: 4 s per pair; verified here, so no search at check time): a
# chain search that compares only strlen(shorter) bytes (memcmp without the terminator) confuses
# exactly such keys. The tables hash strlen(name) bytes; the first two pairs also collide when both
# names are hashed WITH their terminator (a NUL tail byte adds nothing but the length).
PREFIX_COLLISIONS = [(b"pk10", b"pk10cr4alz"), (b"pk13", b"pk13erls8n"), (b"pk4", b"pk4bzx1z0"), (b"pk16", b"pk16novg4r"),
                     (b"pk32", b"pk32nmkvhm")]
PREFIX_COLLISIONS_NUL = [(b"pk10", b"pk10cr4alz"), (b"pk13", b"pk13erls8n"), (b"pk4", b"pk4if7ls1")]
for _a, _b in PREFIX_COLLISIONS:
    assert _b.startswith(_a) and _a != _b and murmur3_32(_a) == murmur3_32(_b), (_a, _b)
for _a, _b in PREFIX_COLLISIONS_NUL:
    assert _b.startswith(_a) and murmur3_32(_a + b"\0") == murmur3_32(_b + b"\0"), (_a, _b)
FULL_COLLISIONS += PREFIX_COLLISIONS[:3]        # appended: the indices used elsewhere stay
for _a, _b in FULL_COLLISIONS:
    assert _a != _b and murmur3_32(_a) == murmur3_32(_b), (_a, _b)


def search_prefix_collisions(n=3, nul=False):
    """(re)run the search: builds checks/prefixcoll.c into build/ and caches its output there"""
    import subprocess
    exe = os.path.join(vlib.BUILD, "prefixcoll")
    out = os.path.join(vlib.BUILD, "prefixcoll%s-%d.txt" % ("-nul" if nul else "", n))
    if not os.path.exists(out):
        os.makedirs(vlib.BUILD, exist_ok=True)
        subprocess.run(["gcc", "-O2", "-pthread", os.path.join(vlib.ROOT, "checks", "prefixcoll.c"), "-o", exe], check=True)
        r = subprocess.run([exe, str(n), str(os.cpu_count() or 4)] + (["nul"] if nul else []), capture_output=True, text=True, check=True)
        open(out, "w").write(r.stdout)
    return [(l.split()[0].encode(), (l.split()[0] + l.split()[1]).encode()) for l in open(out) if l.strip()]


def py_textout(v):
    """`_q_textout(fp, data, size, 60)` as documented by its use in debug(): printable bytes, `.` for
    the others, a terminating NUL of a string value not shown, `...` after 60 bytes"""
    out = bytearray()
    for i, c in enumerate(v[:60]):
        if c == 0 and i == len(v) - 1:
            break
        out.append(c if 32 <= c <= 126 else 46)
    return bytes(out) + (b"..." if len(v) > 60 else b"")


def py_debug_line(name, v):
    return name + b"=" + py_textout(v) + b" (%d, %08x)\n" % (len(v), murmur3_32(name))


def alias_value(old, mode, off, ln):
    """the bytes a put / putstr of `stored + off` stores; None = the call is not made (skip)"""
    if old is None or off > len(old):
        return None
    if mode & 1:
        return old[off:].split(b"\0")[0] + b"\0" if b"\0" in old[off:] else None
    return old[off:off + ln] if off + ln <= len(old) else None
assert murmur3_32(b"k118215") == 0x0d4a73d6 and murmur3_32(b"k5d39") == 0x00f65ad1
# formatted lengths around the buffer sizes 1024 / 2048 / 4096 / 8192 of DYNAMIC_VSPRINTF (putstrf)
VS_LENGTHS = list(range(1000, 1026)) + list(range(2040, 2051)) + list(range(4090, 4101)) + [5000, 10000]
# every length up to a little beyond twice the first buffer size: a private fast path with a buffer
# of ANY size below that (200, 256, 512, ... bytes) has its boundary in here
VS_SWEEP = list(range(0, 2101)) + list(range(4090, 4101)) + [5000, 8191, 8192, 8193, 10000]
# ... and N-1, N, N+1 around every integer constant the CURRENT container sources contain after
# preprocessing (the expansion of the formatting macro included: BUFSIZ, PATH_MAX, private buffers) - seed C11-m9
import vlib as _vlib
VS_SOURCE = sorted({n + d for n in _vlib.source_numbers(
    ["src/containers/qhashtbl.c", "src/containers/qlisttbl.c", "src/containers/qtreetbl.c", "src/containers/qhasharr.c",
     "src/containers/qgrow.c"], lo=64, hi=70000) for d in (-1, 0, 1)})
VS_LENGTHS = VS_LENGTHS + [n for n in VS_SOURCE if n not in VS_LENGTHS and n > 1025]
VS_SWEEP = VS_SWEEP + [n for n in VS_SOURCE if n not in VS_SWEEP]


def vs_value(n, salt=0):
    """NUL-free string of n bytes whose content depends on the position (a cut or a shifted
    copy is visible)"""
    return bytes(0x21 + (i * 7 + i // 251 + salt) % 94 for i in range(n))


def full_collision_ops(r, a, b, filler=()):
    """both keys have the same 32-bit hash: whichever was put first is DEEPER in the chain; every
    lookup of the deeper key has to pass a node with an equal hash and another name"""
    ops = ["new %d" % r] + [kop("put", f, hexs(b"f")) for f in filler]
    ops += [kop("put", a, "01"), kop("get", b, "0"), kop("put", b, "02"),
            kop("get", a, "0"), kop("get", a, "1"), kop("get", b, "0"), kop("get", b, "1"), kop("getstr", a), kop("getint", a),
            kop("putstr", a, hexs(b"77")), kop("getstr", a), kop("getint", a), kop("getstr", b),
            kop("put", a, "03"), kop("get", a, "0"), kop("get", b, "0"), kop("put", b, "04"), kop("get", a, "0"), kop("get", b, "0"),
            "size", "walk 0", "walk 1",
            kop("rm", b), kop("get", a, "0"), kop("get", b, "0"), kop("put", b, "05"), kop("get", a, "0"), kop("get", b, "0"),
            kop("rm", a), kop("get", b, "0"), kop("get", a, "0"), kop("rm", a), kop("rm", b), "size", "walk 0"]
    return ops


def unhex(w):
    return b"" if w == "-" else bytes.fromhex(w)


def kop(op, name, *rest):
    """keyed operation line: the hash of the name travels on the line"""
    return " ".join([op, hexs(name), "%08x" % murmur3_32(name)] + list(rest))


def py_atoll(b):
    s = b.split(b"\0")[0]
    m = re.match(rb"[ \t\n\v\f\r]*([+-]?)([0-9]*)", s)
    v = int(m.group(2) or b"0")
    if m.group(1) == b"-":
        v = -v
    return max(INT64_MIN, min(INT64_MAX, v))


def colliding(rng_range, want, prefix=b"k", start=0):
    """`want` names whose murmur3 value falls into the same slot of a table of this range"""
    by = {}
    i = start
    while True:
        n = prefix + b"%d" % i
        s = murmur3_32(n) % rng_range
        by.setdefault(s, []).append(n)
        if len(by[s]) == want:
            return by[s]
        i += 1


ENTRY = re.compile(r"^([0-9a-f]+|-)\(([0-9a-f]{8})\)=([0-9a-f]+|-)$")


class Oracle:
    """ideal map from C-string keys to byte values"""
    def __init__(self):
        self.m = {}

    def dump_entries(self, dump):
        w = dump.split()
        ents = []
        self.live = int(w[2][5:])        # `live=<n>`: blocks the library holds for the table
        for tok in w[3:]:
            body = tok.split(":", 1)[1]
            assert body[0] == "[" and body[-1] == "]"
            for e in body[1:-1].split(","):
                mm = ENTRY.match(e)
                ents.append((unhex(mm.group(1)), unhex(mm.group(3)), int(mm.group(2), 16)))
        return int(w[0]), int(w[1]), ents

    def step(self, op, line):
        w = op.split()
        if " | " not in line:
            raise ValueError("malformed result line")      # truncated by a dying harness, or garbage
        res, dump = line.split(" | ", 1)
        r = res.split()
        if r and r[0].startswith("allocs="):      # allocation attempts of the call (overlay C11/C15)
            r = r[1:]
            res = " ".join(r)
        kind = w[0]
        m = self.m
        bad = None
        if not r or r[0] == "bad-op":
            return "harness rejected the operation"
        if r[0] == "skip" and kind not in ("putalias", "putkeyalias"):
            return None
        if r[0] == "fault":
            return "undefined behaviour predicted: " + res
        if kind in ("new", "end"):     # `end`: the table is released and replaced by an empty default one
            m.clear()
        elif kind in ("put", "putstr", "putstrf", "putint"):
            name = unhex(w[1])
            val = unhex(w[3]) if kind == "put" else unhex(w[3]) + b"\0" if kind.startswith("putstr") else str(int(w[3])).encode() + b"\0"
            if r[0] != "true":
                bad = "put of a valid key/value reported %s" % res
            m[name] = val
        elif kind == "get":
            name = unhex(w[1])
            if name in m:
                if r[0] != "data" or unhex(r[1]) != m[name] or int(r[2]) != len(m[name]):
                    bad = "get(%r) returned %s, last put was %r (%d bytes)" % (name, res, m[name], len(m[name]))
            elif res != "null ENOENT":
                bad = "get of absent key %r returned %s" % (name, res)
        elif kind == "getstr":
            name = unhex(w[1])
            if name in m and b"\0" in m[name]:
                if r[0] != "str" or unhex(r[1]) != m[name].split(b"\0")[0]:
                    bad = "getstr(%r) returned %s, last put was %r" % (name, res, m[name])
            elif name not in m and res != "null ENOENT":
                bad = "getstr of absent key %r returned %s" % (name, res)
        elif kind == "getint":
            name = unhex(w[1])
            if name in m and b"\0" in m[name]:
                if r[0] != "int" or int(r[1]) != py_atoll(m[name]):
                    bad = "getint(%r) returned %s, stored string is %r" % (name, res, m[name])
            elif name not in m and res != "int 0":
                bad = "getint of absent key %r returned %s" % (name, res)
        elif kind == "rm":
            name = unhex(w[1])
            if name in m:
                if res != "true":
                    bad = "remove of present key %r returned %s" % (name, res)
                del m[name]
            elif res != "false ENOENT":
                bad = "remove of absent key %r returned %s" % (name, res)
        elif kind == "size":
            if res != "size %d" % len(m):
                bad = "size reported %s, the map holds %d keys" % (res, len(m))
        elif kind == "clear":
            m.clear()
        elif kind == "putalias":
            # the data argument points into the stored value of the same key: the OLD bytes are stored
            name = unhex(w[1])
            val = alias_value(m.get(name), int(w[3]), int(w[4]), int(w[5]))
            if val is None:
                if res != "skip":
                    bad = "harness made a call it should have skipped: %s" % res
            else:
                if r[0] != "true":
                    bad = "put of a pointer into the entry's own value reported %s" % res
                m[name] = val
        elif kind == "putkeyalias":
            name, off = unhex(w[1]), int(w[3])
            if name not in m or off > len(name):
                if res != "skip":
                    bad = "harness made a call it should have skipped: %s" % res
            else:
                if r[0] != "true":
                    bad = "put with a name pointing into a stored name reported %s" % res
                m[name[off:]] = unhex(w[4])
        elif kind == "debug":
            want = [py_debug_line(k, v) for k, v in m.items()]
            out = unhex(r[2]) if len(r) == 3 else b""
            if r[0] != "debug" or r[1] != "1":
                bad = "debug() on an open stream reported %s" % res[:40]
            elif any(b"\n" in k for k in m):
                if sorted(out) != sorted(b"".join(want)):
                    bad = "debug() wrote %r; the entries render as %r" % (out[:80], b"".join(sorted(want))[:80])
            elif sorted(out.split(b"\n")) != sorted(b"".join(want).split(b"\n")):
                bad = "debug() wrote %r; the entries render as (any order) %r" % (out[:120], b"".join(sorted(want))[:120])
        elif kind == "hugeval":
            if res != "ok":
                bad = "value of 2^32 + %s bytes: %s" % (w[1], res)
        elif kind == "inv":
            # documented-invalid arguments (NULL name / data / obj): every call fails with EINVAL,
            # debug(NULL stream) with EIO, no out-parameter is written, the table is unchanged
            # (the dump is compared with the map below)
            if len(r) != 19 or any(x != "0:EINVAL" for x in r[1:17]) or r[17] != "0:EIO" or r[18] != "sz=99":
                bad = ("a call with a NULL argument did not fail with EINVAL (debug: EIO), or wrote *size "
                       "(result:errno per call: put(NULL,v) put(k,NULL) put(NULL,NULL) putstr(NULL,v) putstr(k,NULL) "
                       "putstrf(NULL) putint(NULL) get(NULL)x3 getstr(NULL)x2 getint(NULL) remove(NULL) getnext(NULL)x2 "
                       "debug(NULL)): %s" % " ".join(r[1:]))
        elif kind == "lock":
            if r[:4] != ["locked", "size", "%d" % len(m), "nested=ENOENT"] or r[4:] not in (["nolock"], ["held=1", "after=0"]):
                bad = "lock(); nested get of an absent key; size; [other thread: mutex busy]; unlock(); [other thread: mutex free] gave `%s` (map holds %d keys)" % (res, len(m))
        elif kind == "walk":
            toks = r[1:]
            got, i = [], 0
            while i < len(toks) and toks[i] == "true":
                mm = ENTRY.match(toks[i + 1])
                got.append((unhex(mm.group(1)), unhex(mm.group(3))))
                i += 2
            if toks[i:] != ["false", "ENOENT"]:
                bad = "walk did not end with false/ENOENT: %s" % " ".join(toks[i:])
            elif sorted(got) != sorted(m.items()):
                bad = "walk returned %d entries %r, the map holds %r" % (len(got), sorted(got)[:6], sorted(m.items())[:6])
        # independent of layout: the stored entries are exactly the map's, each once, count exact
        if bad is None:
            rng, num, ents = self.dump_entries(dump)
            if num != len(m) or sorted((n, d) for n, d, _ in ents) != sorted(m.items()):
                bad = "after `%s` the table holds %d entries %r, the map holds %r" % (
                    op[:60], num, sorted((n, d) for n, d, _ in ents)[:6], sorted(m.items())[:6])
            for n, d, h in ents:
                if h != murmur3_32(n):
                    bad = "stored hash %08x of %r is not murmur3_32 = %08x" % (h, n, murmur3_32(n))
        return bad


class TheCheck(Check):
    prop = "C05"
    module = "hashtbl"
    harness = "hashtbl"
    lib = "libqw.a"        # allocator traffic of the library is counted (harness/allocwrap.h)
    rule = ("operation lines executed by the C functions (ASan+UBSan) and the Lean model with the chain layout dumped "
            "through the public structs after every operation; distinct_nontrivial = distinct (operation kind, result "
            "kind, range, chain length of the touched slot) classes")
    assumptions = ["hand model of qhashtbl.c validated on the explored histories only",
                   "the key's hash travels on the operation line (pure-Python murmur3_32 of strlen bytes) and is compared "
                   "with the hash the C code stored; theorems hold for an arbitrary hash function",
                   "range <= 2^31 (int idx = hash % range); malloc(0) returns a non-NULL pointer (glibc)",
                   "atoll saturates like glibc strtoll"]
    exhaustive_note = True

    def __init__(self, tier, seed):
        super().__init__(tier, seed)
        self.oracle = Oracle()

    # ---- oracle
    def judge(self, op, line):
        try:
            return self.oracle.step(op, line)
        except (IndexError, ValueError, AttributeError, AssertionError):
            return "malformed result line"

    def judge_history(self, ops, impl_lines):
        self.oracle = Oracle()
        for i, (op, l) in enumerate(zip(ops, impl_lines)):
            try:
                d = self.oracle.step(op, l)
            except (IndexError, ValueError, AttributeError, AssertionError):
                # a truncated last line is what a dying harness leaves behind: the crash is reported by the caller
                if i == len(impl_lines) - 1:
                    return None
                d = "malformed result line `%s`" % l[:120]
            if d:
                return i, d
        return None

    def classify(self, op, detail):
        return "qhashtbl:" + op.split()[0]

    def nontrivial_key(self, op, line):
        res, _, dump = line.partition(" | ")
        d = dump.split()
        longest = max([t.count(",") + 1 for t in d[3:]] or [0])
        r = [x for x in res.split() if not x.startswith("allocs=")]
        return (op.split()[0], r[0] if r else "", d[0] if d else "", min(longest, 9))

    def shrink(self, st, idx, pred):
        # a stream is a concatenation of histories each starting with `new`: cut to the failing one
        j = idx
        while j > 0 and not st.ops[j].startswith("new "):
            j -= 1
        sub = Stream(st.name, st.ops[j:idx + 1], history=True)
        return super().shrink(sub, len(sub.ops) - 1, pred)

    # ---- generators
    def streams(self):
        rng = self.rng
        sts = []
        corpus = os.path.join(vlib.ROOT, "corpus", "C05")
        for f in sorted(os.listdir(corpus)) if os.path.isdir(corpus) else []:
            sts.append(Stream("corpus:" + f, [l.strip() for l in open(os.path.join(corpus, f)) if l.strip()], history=True))
        tail = ["size", "walk 0"]

        # 1. exhaustive: every sequence of put/remove over 4 keys, range 1 and 2
        maxlen = 5 if self.tier == "quick" else 6
        for r in (1, 2):
            # for range 2: two keys per slot
            if r == 1:
                keys = [b"a", b"b", b"c", b"d"]
            else:
                ev = colliding(2, 2, b"e")
                od = [k for k in (b"e%d" % i for i in range(50)) if murmur3_32(k) % 2 != murmur3_32(ev[0]) % 2][:2]
                keys = ev + od
            alpha = [("put", k) for k in keys] + [("rm", k) for k in keys]
            ops = []
            for ln in range(1, maxlen + 1):
                for seq in itertools.product(alpha, repeat=ln):
                    ops.append("new %d" % r)
                    for i, (o, k) in enumerate(seq):
                        ops.append(kop("put", k, "%02x" % (0x30 + i)) if o == "put" else kop("rm", k))
                    if ln == maxlen:
                        ops += [kop("get", k, "0") for k in keys] + tail
            sts.append(Stream("exhaustive-seq<=%d-range%d" % (maxlen, r), ops, history=True,
                              note="all %d-letter alphabets sequences up to length %d" % (len(alpha), maxlen)))

        # 2. chain surgery: chains of every length 1..8, removal at every position, for each range
        ops = []
        for r in (1, 2, 3, 7, 1000, 0):
            eff = r or 1000
            for L in range(1, 9):
                keys = colliding(eff, L, b"k", start=rng.randrange(1000))
                for p in range(L):
                    ops.append("new %d" % r)
                    for i, k in enumerate(keys):
                        ops.append(kop("put", k, hexs(b"v%d" % i)))
                    victim = keys[L - 1 - p]          # chains are insert-at-head: position p from the head
                    ops += ["walk 1", kop("rm", victim), kop("rm", victim), kop("get", victim, "1")]
                    ops += [kop("get", k, "0") for k in keys] + tail
                    ops += [kop("put", victim, hexs(b"again")), kop("put", keys[0], hexs(b"repl")), "walk 0"]
                    # remove everything in a random order
                    order = keys[:]
                    rng.shuffle(order)
                    for k in order:
                        ops += [kop("rm", k), "size"]
                    ops += ["walk 0"]
        sts.append(Stream("chain-surgery", ops, history=True, note="ranges 1,2,3,7,1000,0; chain length 1..8; every position"))

        # 3. same 32-bit hash, different names; empty key; putint/getint boundaries
        ops = []
        for r in (1, 3, 0):
            for a, b in FULL_COLLISIONS:
                ops += ["new %d" % r, kop("put", a, "01"), kop("get", b, "0"), kop("rm", b), kop("put", b, "02"),
                        kop("get", a, "0"), kop("get", b, "1"), kop("put", a, "03"), kop("put", b, "04"), "walk 0",
                        kop("rm", a), kop("get", b, "0"), kop("get", a, "0"), kop("rm", b), "size"]
            ops += ["new %d" % r, kop("put", b"", "-"), kop("get", b"", "0"), kop("get", b"", "1"), kop("putstr", b"", "-"),
                    kop("getstr", b""), kop("getint", b""), kop("rm", b""), kop("rm", b"")]
            for n in [0, 1, -1, 9, 10, -10, 99, 100, 2 ** 31, -2 ** 31, INT64_MAX, INT64_MIN, INT64_MAX - 1, INT64_MIN + 1,
                      10 ** 18, -10 ** 18] + [rng.randrange(INT64_MIN, INT64_MAX + 1) for _ in range(30)]:
                ops += [kop("putint", b"n", str(n)), kop("getint", b"n"), kop("getstr", b"n")]
            for s in [b"12", b" \t\n\v\f\r 42x", b"+7", b"-0", b"--1", b"99999999999999999999", b"-99999999999999999999",
                      b"9223372036854775808", b"-9223372036854775809", b"x", b"", b"+", b"-", b"1 2", b"\x0e1",
                      b"010", b"0x1f", b"0X1F", b" 42", b"1e3", b"12abc", b"+-1", b"\t-5", b"4294967296", b"-9223372036854775808",
                      b"9223372036854775807", b"0000000000000000000000017", b"- 1", b"\xa0" + b"7", b"1\t", b"\xd9\xa3"]:
                ops += [kop("putstr", b"s", hexs(s)), kop("getint", b"s"), kop("getstr", b"s")]
            ops += [kop("put", b"s", hexs(b"12\x0034")), kop("getint", b"s"), kop("put", b"s", hexs(b"12")), kop("getint", b"s"),
                    kop("getstr", b"s"), kop("getint", b"absent"), kop("getstr", b"absent")]
        sts.append(Stream("collisions-ints", ops, history=True))

        # 3b. FULL 32-bit collisions: both insertion orders, every range, alone and inside longer chains
        ops = []
        for r in (1, 2, 3, 7, 1000, 0):
            for a, b in FULL_COLLISIONS:
                for x, y in ((a, b), (b, a)):
                    ops += full_collision_ops(r, x, y)
                    fill = colliding(r or 1000, 2, b"f", start=rng.randrange(500))
                    ops += full_collision_ops(r, x, y, filler=fill)
        sts.append(Stream("full-hash-collisions", ops, history=True,
                          note="pairs of distinct names with identical murmur3_32; the deeper key is looked up in both insertion orders"))

        # 3c. putstrf: formatted lengths around every buffer size of DYNAMIC_VSPRINTF
        ops = []
        for r in (3, 0):
            ops.append("new %d" % r)
            for i, n in enumerate(VS_SWEEP if r == 3 else VS_LENGTHS):
                k = b"p%d" % (i % 3)
                ops += [kop("putstrf", k, hexs(vs_value(n, i))), kop("getstr", k), kop("get", k, "0")]
                if i % 3 == 2:
                    ops += [kop("rm", b"p0"), kop("rm", b"p1")]
            ops += ["walk 0", "clear"]
        sts.append(Stream("putstrf-lengths", ops, history=True, note="every formatted length 0..2100, 4090..4100, 5000, 8191..8193, 10000"))

        # 3d. argument validation, method pointers, constructor variants: every documented-invalid call on an
        #     empty table, with one / several entries, after removals and after clear; plain and thread-safe
        #     tables (single-threaded use must behave identically); default, tiny and large index ranges
        ops = []
        for r in (0, 1, 2, 3, 1000):
            for ts in "01":
                keys = colliding(r or 1000, 3, b"v", start=rng.randrange(300)) + [b"", b"solo"]
                ops += ["new %d %s" % (r, ts), "inv", "lock", "size", "walk 0", kop("put", keys[0], "31"), "inv", "lock"]
                for i, k in enumerate(keys[1:]):
                    ops += [kop("put", k, hexs(b"w%d" % i)), "inv"]
                ops += ["lock", "walk 1", kop("get", keys[1], "1"), kop("putint", keys[0], "-12"), kop("getint", keys[0]), "inv",
                        kop("rm", keys[1]), "inv", kop("rm", keys[1]), "reset", "next 1", "inv", "next 0", "clear", "inv", "lock", "size",
                        kop("putstrf", keys[2], hexs(b"after clear")), "inv", "walk 0"]
        for r in (100003, 1 << 20):
            ops += ["new %d 1" % r, "inv", kop("put", b"big", "31"), kop("put", b"range", "32"), kop("get", b"big", "1"), "inv", "lock",
                    kop("rm", b"big"), "walk 0", "clear", "inv"]
        ops += ["end"]
        sts.append(Stream("invalid-args-locks-ctor", ops, history=True,
                          note="inv = 17 documented-invalid calls; ranges 0 (default) 1 2 3 1000 100003 2^20; QHASHTBL_THREADSAFE on/off"))

        # 3e. arguments that point INTO the table's own storage (pointer from get / getnext with newmem=false):
        #     every offset / length of short values, put and putstr; names pointing into stored names;
        #     debug() rendering of empty / 1-byte / 59..61-byte / unprintable values
        ops = []
        vals = [b"", b"a", b"\0", b"ab\0", b"hello\0", b"a\0b\0", b"\0\0x", bytes(range(1, 9))]
        for r in (1, 3, 0):
            ck = colliding(r or 1000, 3, b"al", start=rng.randrange(200))
            for v in vals:
                for off in range(len(v) + 2):
                    for mode, ln in [(m_, l_) for m_ in (0, 2) for l_ in range(len(v) - off + 2)] + [(1, 0), (3, 0)]:
                        if r != 1 and (mode, ln) not in ((0, 0), (0, 1), (2, len(v) - off), (1, 0), (3, 0)):
                            continue
                        ops += ["new %d" % r, kop("put", ck[0], "70"), kop("put", ck[1], hexs(v)), kop("put", ck[2], "71"),
                                kop("putalias", ck[1], str(mode), str(off), str(ln)), kop("get", ck[1], "0"), kop("get", ck[0], "0"), "walk 0"]
            for name in (b"abcd", b"x", ck[1]):
                for off in range(len(name) + 2):
                    for pre in ([], [kop("put", name[off:], "6f6c64")] if off <= len(name) else []):
                        ops += ["new %d" % r, kop("put", name, "31")] + pre + [kop("putkeyalias", name, str(off), "6e6577"),
                                kop("get", name, "0"), kop("get", name[off:], "0"), "walk 0", "size"]
            ops += ["new %d" % r]
            for i, v in enumerate([b"", b"\0", b"x", b"\xff", b"str\0", b"a\0b", b"x" * 59, b"x" * 60, b"x" * 61, b"y" * 59 + b"\0", b"y" * 60 + b"\0",
                                   bytes(range(256)), b"\n\t\x7f\x80 ~", b"tab\tnl\n\0"]):
                ops += [kop("put", b"d%d" % i, hexs(v)), "debug"]
            ops += [kop("put", b"", hexs(b"empty name\0")), kop("put", b"n\nl", "31"), "debug", "clear", "debug"]
        ops += ["end"]
        sts.append(Stream("alias-args-debug", ops, history=True,
                          note="put/putstr of stored+off (get and getnext pointers), names inside stored names, debug() rendering"))
        if self.tier != "quick":
            sts.append(Stream("huge-value", ["hugeval 16"], history=False, nomodel=True,
                              note="one value of 2^32+16 bytes: every reported size and spot-checked bytes, replace, ledger"))

        # 3f. the SAME operations and expected lines on tables created with QHASHTBL_THREADSAFE: every errno report
        #     (ENOENT of absent keys / end of walk, EINVAL, the unlock must not disturb errno) and every result
        def with_ts(ops_):
            return [o + " 1" if o.startswith("new ") and len(o.split()) == 2 else o for o in ops_]
        for st in list(sts):
            if st.name in ("chain-surgery", "collisions-ints", "full-hash-collisions", "alias-args-debug"):
                sts.append(Stream(st.name + ":threadsafe", with_ts(st.ops), history=True, note="same ops, QHASHTBL_THREADSAFE"))
        keys = [b"a", b"b", b"c", b"d"]
        alpha = [("put", k) for k in keys] + [("rm", k) for k in keys]
        ops = []
        for ln in range(1, 4):
            for seq in itertools.product(alpha, repeat=ln):
                ops.append("new 1 1")
                for i, (o, k) in enumerate(seq):
                    ops.append(kop("put", k, "%02x" % (0x30 + i)) if o == "put" else kop("rm", k))
                ops += [kop("get", k, str(i % 2)) for i, k in enumerate(keys)] + ["reset", "next 0", "next 1", "next 0", "next 1", "next 0"] + tail
        sts.append(Stream("exhaustive-seq<=3-range1:threadsafe", ops, history=True))

        # 4. random histories
        nh, nops = (60, 400) if self.tier == "quick" else (400, 2000)
        ops = []
        for hno in range(nh):
            r = rng.choice([1, 2, 3, 7, 1000, 0, rng.randrange(1, 40)])
            eff = r or 1000
            pool = colliding(eff, rng.randrange(2, 9), b"r", start=rng.randrange(5000))
            pool += [b"k%d" % rng.randrange(10 ** rng.randrange(1, 6)) for _ in range(rng.randrange(2, 14))]
            pool += [b"", b"A", b"a", bytes(rng.randrange(1, 256) for _ in range(rng.randrange(1, 40)))]
            pool += list(rng.choice(FULL_COLLISIONS))
            ops.append("new %d %s" % (r, rng.choice("01")))
            for _ in range(rng.randrange(5, nops)):
                k = rng.choice(pool)
                x = rng.random()
                if x < 0.02:
                    ops.append("inv")
                elif x < 0.03:
                    ops.append(rng.choice(["lock", "debug"]))
                elif x < 0.06:
                    ops.append(rng.choice([kop("putalias", k, rng.choice("0123"), str(rng.randrange(6)), str(rng.randrange(6))),
                                           kop("putalias", k, rng.choice("02"), "0", str(rng.randrange(3))),
                                           kop("putkeyalias", k, str(rng.randrange(3)), hexs(b"ka%d" % rng.randrange(9)))]))
                elif x < 0.30:
                    v = bytes(rng.choice([0, rng.randrange(256), rng.randrange(0x30, 0x3a)]) for _ in range(rng.choice([0, 1, 2, 5, 17, 40])))
                    ops.append(kop("put", k, hexs(v)))
                elif x < 0.38:
                    ops.append(kop("putstr", k, hexs(bytes(rng.randrange(1, 256) for _ in range(rng.randrange(0, 9))))))
                elif x < 0.40:
                    ops.append(kop("putstrf", k, hexs(vs_value(rng.choice([0, 1, 7, 1023, 1024, 2047, 2048, rng.choice(VS_LENGTHS)]), rng.randrange(90)))))
                elif x < 0.44:
                    ops.append(kop("putint", k, str(rng.choice([rng.randrange(-1000, 1000), rng.randrange(INT64_MIN, INT64_MAX + 1)]))))
                elif x < 0.58:
                    ops.append(kop("get", k, rng.choice("01")))
                elif x < 0.62:
                    ops.append(kop("getstr", k))
                elif x < 0.66:
                    ops.append(kop("getint", k))
                elif x < 0.82:
                    ops.append(kop("rm", k))
                elif x < 0.86:
                    ops.append("size")
                elif x < 0.93:
                    ops.append("next " + rng.choice("01"))
                elif x < 0.95:
                    ops.append("reset")
                elif x < 0.99:
                    ops.append("walk " + rng.choice("01"))
                else:
                    ops.append("clear")
            ops += tail
        sts.append(Stream("random-histories", ops, history=True))
        return sts

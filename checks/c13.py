"""C13 — the thread-safe option makes concurrent use linearizable.

Proof side: Conc/Lin.lean (`wellLocked_linearizable`, `lockedWalk_snapshot`: generic, all schedules) +
one certificate per function in the C13 scope that every access to a mutable container field is made
at lock depth >= 1 (Generated/LockWl*.lean, regenerated from the CURRENT source by
translator/lockcfg.py; `wellLockedCfg_sound` lifts the Boolean check to all paths).

Search / K-corr side: harness/conc.c, a deterministic baton scheduler on wrapped
pthread_mutex_trylock/unlock that serialises 2-3 real threads and switches only at lock/unlock points
and operation boundaries.  ALL schedules of small client programs are enumerated (stateless DFS) and
every outcome is checked for linearizability against an ideal sequence/map in Python (oracle).
Thorough tier: free-running stress on a clang -fsanitize=thread build."""
import itertools, json, os, re, sys, time
import vlib
from vlib import Check, log
from checks import lockcommon as lc

CONC_WRAPS = ("pthread_mutex_trylock", "pthread_mutex_unlock", "pthread_mutex_lock", "usleep")


# ------------------------------------------------------------------ ideal containers (the oracle)

def vs(n):
    return "v%d" % n


class Opts(int):
    """option bits of the container (an int, so `opt & 2` keeps working) + the element limit `max`
    of list/queue/stack (0 = unlimited) + `ints` (queue/stack hold int64 elements)"""
    max = 0
    ints = 0


def mk_opts(bits, mx=0, ints=0):
    o = Opts(bits)
    o.max = mx
    o.ints = ints
    return o


def atoll(v):
    m = re.match(r"\s*([+-]?\d+)", v)
    return int(m.group(1)) if m else 0


class Model:
    """ideal container; apply(op) -> expected result string"""

    def __init__(self, kind, init, opt=0):
        self.kind, self.opt = kind, opt
        self.max = getattr(opt, "max", 0)
        if kind == "vector":
            self.s = [100 + i for i in range(init)]
        elif kind in ("list", "queue", "stack"):
            self.s = [str(100 + i) if getattr(opt, "ints", 0) else vs(100 + i) for i in range(init)]
            if kind == "stack":
                self.s.reverse()
        elif kind == "listtbl":
            self.s = [("k%02d" % i, vs(100 + i)) for i in range(init)]
        else:
            self.s = {"k%02d" % i: vs(100 + i) for i in range(init)}

    def copy(self):
        m = Model.__new__(Model)
        m.kind, m.opt, m.max = self.kind, self.opt, self.max
        m.s = dict(self.s) if isinstance(self.s, dict) else list(self.s)
        return m

    def apply(self, op):
        f, a, b = op
        k = self.kind
        s = self.s
        if k == "vector":
            n = len(s)

            def norm(i):
                return i + n if i < 0 else i
            if f == "addlast":
                s.append(a); return "1"
            if f == "addfirst":
                s.insert(0, a); return "1"
            if f == "addat":
                i = norm(a)
                if i > n or i < 0:
                    return "0"
                s.insert(i, b); return "1"
            if f == "setat":
                i = norm(a)
                if i >= n or i < 0:
                    return "0"
                s[i] = b; return "1"
            if f in ("popfirst", "poplast", "popat", "getat"):
                i = 0 if f == "popfirst" else n - 1 if f == "poplast" else norm(a)
                if n == 0 or i >= n or i < 0:
                    return "null"
                x = s[i]
                if f != "getat":
                    del s[i]
                return str(x)
            if f in ("removefirst", "removelast", "removeat"):
                i = 0 if f == "removefirst" else n - 1 if f == "removelast" else norm(a)
                if n == 0 or i >= n or i < 0:
                    return "0"
                del s[i]; return "1"
            if f == "clear":
                del s[:]; return "void"
            if f == "reverse":
                s.reverse(); return "void"
            if f == "toarray":
                return "null:0" if n == 0 else "arr:%d" % n + "".join(",%d" % x for x in s)
        elif k in ("list", "queue", "stack"):
            n = len(s)
            # convenience wrappers of qqueue/qstack: each must behave as ONE list operation
            if f == "pushint":
                if self.max > 0 and n >= self.max:
                    return "0"
                s.append(str(a)) if k == "queue" else s.insert(0, str(a))
                return "1"
            if f == "popint":
                return str(int(s.pop(0))) if n else "0"
            if f == "getint":
                return str(int(s[0])) if n else "0"
            if f == "getstr":
                return s[0] if n else "null"
            if f == "pushstr":
                f = "push"
            if f == "popstr":
                f = "pop"
            if k == "queue" and f == "push":
                f, a = "addlast", a
            elif k == "stack" and f == "push":
                f = "addfirst"
            elif f == "pop":
                f = "popfirst"
            if f in ("addlast", "addfirst", "addat") and self.max > 0 and n >= self.max:
                return "0"                      # ENOBUFS: the list is full, contents unchanged
            if f == "setsize":
                old = self.max
                self.max = a
                return str(old)
            if f == "addlast":
                s.append(vs(a)); return "1"
            if f == "addfirst":
                s.insert(0, vs(a)); return "1"
            if f == "addat":
                i = a if a >= 0 else n + a + 1
                if i < 0 or i > n:
                    return "0"
                s.insert(i, vs(b)); return "1"
            if f in ("popfirst", "poplast", "popat", "getat", "removefirst", "removelast", "removeat"):
                i = 0 if f.endswith("first") else -1 if f.endswith("last") else a
                if i < 0:
                    i += n
                rm = f.startswith("remove")
                if i >= n or i < 0:
                    return "0" if rm else "null"
                x = s[i]
                if f != "getat":
                    del s[i]
                return "1" if rm else x
            if f == "clear":
                del s[:]; return "void"
            if f == "reverse":
                s.reverse(); return "void"
            if f == "toarray":
                if n == 0:
                    return "null:0"
                data = b"".join(x.encode() + b"\0" for x in s)
                return "%d:%s" % (len(data), data.hex())
            if f == "tostring":
                return "null" if n == 0 else "str:" + "".join(s)
        elif k == "listtbl":
            key = "k%02d" % a
            if f in ("put", "putstr", "putint", "putstrf"):
                if self.opt & 2:
                    s[:] = [kv for kv in s if kv[0] != key]
                s.append((key, vs(b) if f in ("put", "putstr") else str(b) if f == "putint" else "f-%d" % b)); return "1"
            if f == "getint":
                for kk, v in reversed(s):
                    if kk == key:
                        return str(atoll(v))
                return "0"
            if f in ("get", "getstr"):
                for kk, v in reversed(s):
                    if kk == key:
                        return v
                return "null"
            if f == "remove":
                c = len([1 for kv in s if kv[0] == key])
                s[:] = [kv for kv in s if kv[0] != key]
                return str(c)
            if f == "clear":
                del s[:]; return "void"
        else:
            key = "k%02d" % a
            if f in ("put", "putstr"):
                s[key] = vs(b); return "1"
            if f == "putint" and k == "hashtbl":
                s[key] = str(b); return "1"
            if f == "putstrf":
                s[key] = "f-%d" % b; return "1"
            if f == "getint" and k == "hashtbl":
                return str(atoll(s[key])) if key in s else "0"
            if f in ("get", "getstr"):
                return s.get(key, "null")
            if f == "remove":
                return "1" if s.pop(key, None) is not None else "0"
            if f == "clear":
                s.clear(); return "void"
            if f == "min":
                return min(s) if s else "null"
            if f == "nearest":      # some element of the table as it is at that moment (null iff empty)
                return "ANY|" + "|".join(sorted(set(s.values()))) if s else "null"
        return "unsupported"

    def final(self):
        k, s = self.kind, self.s
        if k == "vector":
            return "%d" % len(s) + "".join(",%d" % x for x in s)
        if k in ("list", "queue", "stack"):
            return "%d/%d/1" % (len(s), len(s)) + "".join("," + x for x in s)
        if k == "listtbl":
            return "%d" % len(s) + "".join(",%s=%s" % kv for kv in s)
        if k == "treetbl":
            return "%d/0" % len(s) + "".join(",%s=%s" % (kk, s[kk]) for kk in sorted(s))
        return "%d" % len(s) + "".join(",%s=%s" % (kk, s[kk]) for kk in sorted(s))


def canon_final(kind, text):
    if kind == "hashtbl":
        p = text.split(",")
        return ",".join([p[0]] + sorted(p[1:]))
    return text


def parse_prog(line):
    w = line.split()
    kind = w[0]
    d = dict(x.split("=", 1) for x in w[1:])
    progs = []
    for t in range(4):
        if "t%d" % t in d:
            ops = []
            for tok in d["t%d" % t].split(","):
                p = tok.split(":")
                ops.append((p[0], int(p[1]) if len(p) > 1 else 0, int(p[2]) if len(p) > 2 else 0))
            progs.append(ops)
    ob = d.get("opt", "0")
    return kind, int(d.get("init", 0)), mk_opts(2 if ob == "unique" else int(ob), int(d.get("max", 0)), int(d.get("ints", 0))), progs


def linearizable(kind, init, opt, progs, opres, final):
    """opres[(t,i)] = (inv, resp, result).  Is there a total order of all operations, consistent with
    each thread's program order and with real-time precedence (resp(a) < inv(b) => a before b), in
    which the ideal container returns exactly these results and ends with exactly this content?"""
    n = [len(p) for p in progs]
    allops = [(t, i) for t in range(len(progs)) for i in range(n[t])]
    rt = any(opres[o][0] for o in allops)

    def rec(model, pos):
        if all(pos[t] == n[t] for t in range(len(progs))):
            return canon_final(kind, model.final()) == canon_final(kind, final)
        cands = [(t, pos[t]) for t in range(len(progs)) if pos[t] < n[t]]
        for (t, i) in cands:
            if rt:
                inv = opres[(t, i)][0]
                # everything that responded before this invocation must already be placed
                if any(opres[(u, j)][1] < inv for u in range(len(progs)) for j in range(pos[u], n[u]) if (u, j) != (t, i)):
                    continue
            m2 = model.copy()
            exp = m2.apply(progs[t][i])
            if (opres[(t, i)][2] not in exp[4:].split("|")) if exp.startswith("ANY|") else (exp != opres[(t, i)][2]):
                continue
            pos2 = list(pos); pos2[t] += 1
            if rec(m2, pos2):
                return True
        return False
    return rec(Model(kind, init, opt), [0] * len(progs))


def parse_out(line):
    d = {}
    for w in line.split():
        if "=" in w:
            k, v = w.split("=", 1)
            d[k] = v
    opres = {}
    for item in d.get("ops", "").split(";"):
        if not item:
            continue
        head, inv, resp, result = item.split(":", 3)
        t, i = head.split(".")
        opres[(int(t), int(i))] = (int(inv), int(resp), result)
    return d, opres


# ------------------------------------------------------------------ client programs

FIXED = [
    "vector init=2 t0=addlast:1 t1=popfirst",
    "vector init=2 t0=addlast:1 t1=addlast:2,addlast:3",
    "vector init=2 t0=addlast:1,addlast:2 t1=poplast,toarray",
    "vector init=2 t0=addat:1:5 t1=removeat:0",
    "vector init=2 t0=addat:2:5 t1=poplast",
    "vector init=2 t0=toarray t1=clear",
    "vector init=1 t0=toarray t1=popfirst",
    "vector init=0 t0=toarray t1=addlast:1",
    "vector init=0 t0=addlast:1 t1=addlast:2",
    "vector init=1 t0=addfirst:1 t1=addlast:2 t2=popfirst",
    "vector init=2 t0=setat:1:7 t1=popfirst,getat:0",
    "vector init=3 t0=reverse t1=addlast:4,getat:0",
    "vector init=2 t0=removefirst,addlast:9 t1=getat:1,poplast",
    "list init=1 t0=toarray t1=addlast:5",
    "list init=2 t0=toarray t1=popfirst",
    "list init=1 t0=tostring t1=popfirst",
    "list init=0 t0=tostring t1=addlast:4",
    "list init=1 t0=addlast:1 t1=addlast:2,popfirst",
    "list init=2 t0=addat:1:7 t1=removefirst",
    "list init=1 t0=popfirst t1=popfirst t2=addfirst:3",
    "list init=1 t0=clear t1=addlast:1,toarray",
    "list init=3 t0=reverse t1=getat:0,poplast",
    "list init=2 t0=removefirst t1=removefirst",
    "list init=2 t0=popfirst t1=removefirst,getat:0",
    "list init=2 t0=removeat:1 t1=poplast",
    "vector init=2 t0=removefirst t1=removefirst",
    "vector init=2 t0=popfirst t1=popfirst",
    "vector init=2 t0=removeat:1 t1=poplast",
    "hashtbl init=2 range=1 t0=remove:0 t1=remove:0,get:1",
    "listtbl init=2 t0=remove:0 t1=remove:0,get:1",
    "treetbl init=3 t0=remove:0 t1=remove:0,get:1",
    # check-then-act candidates: size limit (ENOBUFS), unique put = remove + insert, replace of an existing key,
    # growth of a full vector
    "queue init=0 max=1 t0=push:1 t1=push:2 t2=push:3",
    "queue init=1 max=2 t0=push:5 t1=push:6,pop",
    "queue init=1 max=1 t0=push:5 t1=pop,push:6",
    "stack init=0 max=1 t0=push:1,pop t1=push:2",
    "stack init=1 max=2 t0=push:5 t1=push:6 t2=pop",
    "list init=1 max=2 t0=addlast:1 t1=addlast:2",
    "list init=1 max=2 t0=addfirst:1 t1=addat:1:2,popfirst",
    "list init=2 max=2 t0=addlast:1 t1=popfirst,addlast:2",
    "list init=1 max=1 t0=setsize:2,addlast:1 t1=addlast:2",
    "listtbl opt=unique init=1 t0=put:0:9 t1=put:0:8,get:0",
    "listtbl opt=unique init=1 t0=put:0:9 t1=put:0:8 t2=put:0:7",
    "listtbl opt=unique init=2 t0=put:1:9,get:1 t1=remove:1,put:1:8",
    "hashtbl init=1 range=1 t0=put:0:9 t1=put:0:8,get:0",
    "treetbl init=1 t0=put:0:9 t1=put:0:8,get:0",
    "treetbl init=2 t0=put:1:9,remove:1 t1=put:1:8,get:1",
    "vector init=0 t0=addlast:1 t1=addlast:2 t2=addlast:3",
    "vector init=1 t0=addfirst:1,poplast t1=addlast:2",
    # convenience wrappers (str/int variants): each call must be ONE atomic container operation
    "queue init=2 ints=1 t0=popint t1=popint",
    "queue init=3 ints=1 t0=popint,popint t1=popint",
    "queue init=1 ints=1 t0=popint t1=pushint:7",
    "queue init=2 ints=1 t0=popint t1=clear",
    "queue init=1 ints=1 t0=getint,popint t1=pushint:7,popint",
    "queue init=2 ints=1 t0=popint t1=popint t2=pushint:9",
    "queue init=1 ints=1 max=2 t0=pushint:5 t1=pushint:6,popint",
    "queue init=2 t0=popstr t1=popstr",
    "queue init=1 t0=getstr,popstr t1=pushstr:5,popstr",
    "stack init=2 ints=1 t0=popint t1=popint",
    "stack init=3 ints=1 t0=popint,popint t1=popint",
    "stack init=1 ints=1 t0=popint t1=pushint:7",
    "stack init=2 ints=1 t0=popint t1=clear",
    "stack init=1 ints=1 t0=getint,popint t1=pushint:7,getint",
    "stack init=2 t0=popstr t1=popstr",
    "stack init=1 t0=getstr,popstr t1=pushstr:5,popstr",
    "hashtbl init=1 range=1 t0=getint:0,getint:1 t1=putint:0:5,putint:1:6",
    "hashtbl init=1 range=3 t0=putint:0:5,getint:0 t1=putstrf:0:6,getstr:0",
    "hashtbl init=1 range=1 t0=putint:0:5 t1=remove:0,getint:0",
    "listtbl init=1 t0=getint:0,getint:1 t1=putint:0:5,putint:1:6",
    "listtbl opt=unique init=1 t0=putint:0:5,getint:0 t1=putstrf:0:6,getstr:0",
    "listtbl opt=unique init=1 t0=putint:0:5 t1=remove:0,getint:0",
    "treetbl init=1 t0=putstrf:0:5,getstr:0 t1=putstr:0:6,getstr:0",
    "treetbl init=2 t0=putstrf:1:5 t1=remove:1,getstr:1",
    # copy-after-unlock: a copying get of an element of a few hundred bytes against remove / pop / clear / replace of
    # the SAME element (enumerated on the ASan build: a copy taken after the unlock reads freed memory)
    "list init=2 big=1 t0=getat:0 t1=popfirst",
    "list init=2 big=1 t0=getat:1 t1=removeat:1",
    "list init=2 big=1 t0=getat:0 t1=clear",
    "list init=1 big=1 t0=getat:0,getat:0 t1=popfirst,addfirst:5",
    "queue init=1 big=1 t0=getstr t1=pop",
    "queue init=2 big=1 t0=getstr t1=clear",
    "stack init=1 big=1 t0=getstr t1=pop",
    "hashtbl init=2 range=1 big=1 t0=get:0 t1=remove:0",
    "hashtbl init=2 range=1 big=1 t0=get:0 t1=put:0:9",
    "hashtbl init=2 range=3 big=1 t0=get:1 t1=clear",
    "listtbl init=2 big=1 t0=get:0 t1=remove:0",
    "listtbl opt=unique init=2 big=1 t0=get:0 t1=put:0:9",
    "listtbl init=2 big=1 t0=get:1 t1=clear",
    "treetbl init=3 big=1 t0=get:1 t1=remove:1",
    "treetbl init=3 big=1 t0=get:1 t1=put:1:9",
    "treetbl init=3 big=1 t0=get:0 t1=clear",
    "treetbl init=3 big=1 t0=nearest:1 t1=remove:1",
    "treetbl init=3 big=1 t0=nearest:1 t1=put:1:9",
    "treetbl init=2 big=1 t0=nearest:0 t1=clear",
    "treetbl init=3 big=1 t0=nearest:1,nearest:2 t1=remove:1,remove:2",
    "queue init=0 t0=push:1,pop t1=push:2,pop",
    "queue init=1 t0=pop t1=pop t2=push:3",
    "stack init=0 t0=push:1,pop t1=push:2,pop",
    "stack init=1 t0=pop t1=pop,push:3",
    "hashtbl init=2 range=1 t0=put:0:7,get:1 t1=remove:1,get:0",
    "hashtbl init=0 range=1 t0=put:2:9 t1=put:2:8,get:2",
    "hashtbl init=2 range=3 t0=clear t1=put:0:5,get:0",
    "hashtbl init=1 range=1 t0=put:0:1 t1=put:0:2 t2=remove:0",
    "listtbl init=2 t0=put:0:7,get:1 t1=remove:1,get:0",
    "listtbl init=1 opt=2 t0=put:0:9 t1=put:0:8,get:0",
    "listtbl init=2 t0=clear t1=put:0:5,get:0",
    "listtbl init=1 t0=put:0:1 t1=get:0,remove:0",
    "treetbl init=3 t0=put:5:1,remove:0 t1=put:1:9,get:5",
    "treetbl init=3 t0=remove:1 t1=remove:1,min",
    "treetbl init=2 t0=clear t1=put:0:4,get:0",
    "treetbl init=0 t0=put:3:1 t1=put:1:2 t2=min",
]

VOCAB = {
    "vector": ["addlast:V", "addfirst:V", "addat:I:V", "setat:I:V", "popfirst", "poplast", "popat:I", "getat:I",
               "removefirst", "removelast", "removeat:I", "clear", "reverse", "toarray"],
    "list": ["addlast:V", "addfirst:V", "addat:I:V", "popfirst", "poplast", "popat:I", "getat:I", "removefirst",
             "removelast", "removeat:I", "clear", "reverse", "toarray", "tostring"],
    "queue": ["push:V", "pop", "getstr", "clear"], "stack": ["push:V", "pop", "getstr", "clear"],
    "queue-ints": ["pushint:V", "popint", "getint", "clear"], "stack-ints": ["pushint:V", "popint", "getint", "clear"],
    "hashtbl": ["put:K:V", "get:K", "remove:K", "clear", "putint:K:V", "getint:K", "putstrf:K:V"],
    "listtbl": ["put:K:V", "get:K", "remove:K", "clear", "putint:K:V", "getint:K", "putstrf:K:V"],
    "treetbl": ["put:K:V", "get:K", "remove:K", "clear", "min", "putstrf:K:V"],
}


def random_program(rng):
    kind = rng.choice(list(VOCAB))
    vocab = VOCAB[kind]
    ints = kind.endswith("-ints")
    kind = kind.split("-")[0]
    init = rng.randrange(0, 4)
    nt = rng.choice([2, 2, 2, 2, 2, 2, 2, 3])
    parts = []
    val = [0]

    def mk():
        o = rng.choice(vocab)
        val[0] += 1
        return o.replace("V", str(val[0])).replace("I", str(rng.randrange(0, 3))).replace("K", str(rng.randrange(0, 3)))
    for t in range(nt):
        k = 1 if nt == 3 else rng.choice([1, 2, 2, 3] if t == 0 else [1, 1, 2])
        parts.append("t%d=%s" % (t, ",".join(mk() for _ in range(k))))
    extra = " ints=1" if ints else ""
    if kind in ("list", "queue", "stack") and rng.random() < 0.4:
        extra += " max=%d" % rng.choice([max(1, init), init + 1, init + 2])
    if kind == "hashtbl":
        extra = " range=%d" % rng.choice([1, 3])
    if kind == "listtbl":
        extra = " opt=%d" % rng.choice([0, 2])
    return "%s init=%d%s %s" % (kind, init, extra, " ".join(parts))


class TheCheck(Check):
    prop = "C13"
    module = "lock"
    harness = "conc"
    wraps = CONC_WRAPS
    rule = ("one (client program, schedule) pair per evaluation: 2-3 real threads on one thread-safe container, serialised "
            "by the baton scheduler, switching only before trylock / after unlock / at operation boundaries; ALL schedules "
            "of each program are enumerated (up to the cap recorded per program); distinct_nontrivial = distinct "
            "(program, results, final content) triples")
    assumptions = [
        "pthread recursive mutexes provide mutual exclusion; the bounded-spin 'force unlock' of Q_MUTEX_ENTER never fires "
        "(Props.C14.enter_excluded shows it cannot break exclusion; the diagnostic counter it touches is not container state)",
        "the lock-skeleton translator is trusted (cross-checked by C14's trace validation); fields never assigned outside "
        "the constructors are immutable and may be read without the lock",
        "data-race freedom on NODE memory (fresh/unlinked nodes touched outside the lock) is sampled by the TSan stress "
        "run of the thorough tier, not certified",
        "the C bodies between lock and unlock behave like the sequential models of C01-C10 (their correspondence checks)",
        "C13 scope = insert/put, copying get, remove/pop, clear, flattening (+set/reverse/sort/find_*) of vector, list "
        "(+queue/stack), hash table, list table, tree table; cursor steps (getnext) are covered by lockedWalk_snapshot: "
        "the documented protocol is lock(); while (getnext()) ...; unlock()",
    ]

    def run(self):
        log("[%s] tier=%s seed=%d" % (self.prop, self.tier, self.seed))
        pre = []
        vlib.regenerate_all(skip=("lock",))
        try:
            self.lock, _ = lc.regenerate_lock()
            for n in self.lock.c13:
                c = self.lock.cfgs[n]
                bad = c.unlocked_accesses(self.lock.immutable)
                if bad:
                    log("  translator: %s touches mutable container state outside the lock: %s" % (
                        n, "; ".join(c.describe(i) for i in bad[:6])))
                if not c.balanced():
                    log("  translator: unbalanced skeleton\n" + c.problem_text())
            for n in self.lock.atomic:
                c = self.lock.cfgs[n]
                if c.balanced() and not c.atomic():
                    log("  translator: not one critical section per call\n" + c.atomic_problem_text())
        except SystemExit as e:
            self.lock = None
            pre = ["translator failed: %s" % e]
        lc.prove(self, lc.cert_module_names("LockWl") + lc.cert_module_names("LockAtomic"))
        self.proof["errors"] = pre + self.proof["errors"]
        try:
            impl_dir = vlib.build_impl("plain")
            self.hbin = vlib.build_harness(self.harness, impl_dir, "plain", self.wraps)
            # the same harness on the ASan+UBSan build of the library: used for the `big=1` programs, where a
            # copy made from freed memory is a sanitizer abort (the baton scheduler works on both builds; the
            # bulk of the enumeration stays on the plain build, which is about three times faster)
            self.hbin_asan = vlib.build_harness(self.harness, vlib.build_impl("asan"), "asan", self.wraps)
        except vlib.BuildError as e:
            self.violation("build", "build-failure", str(e)[:2000], {"error": str(e)[:4000]})
            return self.decide()
        self.explore()
        self.long_hold(impl_dir)
        self.concurrent_callers()
        if self.tier == "thorough":
            self.stress()
        return self.decide()

    # ---------------------------------------------------------------- exhaustive schedule enumeration
    def enumerate(self, program, cap):
        """all schedules of one client program (stateless DFS in rounds); returns
        (#schedules, truncated, first violation or None)"""
        kind, init, opt, progs = parse_prog(program)
        pending = [[]]
        count = 0
        viol = None
        outcomes = set()
        while pending and count < cap:
            batch = pending[:max(1, min(len(pending), cap - count))]
            pending = pending[len(batch):]
            text = "".join("%s sched=%s\n" % (program, ".".join(map(str, p)) if p else "-") for p in batch)
            hbin = self.hbin_asan if (" big=1" in program and getattr(self, "hbin_asan", None)) else self.hbin
            out, rc, err = vlib.run_proc([hbin], text, timeout=300)
            if rc != 0 or len(out) != len(batch):
                i = len(out)
                return count, True, ("crash", "harness died (rc=%d) on `%s sched=%s`: %s" % (
                    rc, program, ".".join(map(str, batch[min(i, len(batch) - 1)])), vlib.sanitizer_summary(err)),
                    "%s sched=%s" % (program, ".".join(map(str, batch[min(i, len(batch) - 1)])) or "-"))
            for p, line in zip(batch, out):
                count += 1
                d, opres = parse_out(line)
                ch = [int(x) for x in d["sched"].split(".")]
                al = [int(x) for x in d["alts"].split(".")]
                for i in range(len(p), len(ch)):
                    for t in range(4):
                        if al[i] >> t & 1 and t != ch[i]:
                            pending.append(ch[:i] + [t])
                full = "%s sched=%s" % (program, d["sched"])
                key = (d.get("ops", "").replace(";", " "), d.get("final"))
                okey = (re.sub(r":\d+:\d+:", ":", d.get("ops", "")), d.get("final"), d.get("status"))
                outcomes.add(okey)
                if viol is None:
                    j = self.judge(full, line)
                    if j:
                        viol = ("property", j, full)
        self.nontrivial.update((program,) + o for o in outcomes)
        return count, bool(pending), viol

    def explore(self):
        corpus = []
        cdir = os.path.join(vlib.ROOT, "corpus", "C13")
        for f in sorted(os.listdir(cdir)) if os.path.isdir(cdir) else []:
            corpus += [l.strip() for l in open(os.path.join(cdir, f)) if l.strip() and not l.startswith("#")]
        # 1. corpus: exact (program, schedule) pairs
        if corpus:
            out, rc, err = vlib.run_proc([self.hbin], "\n".join(corpus) + "\n", timeout=120)
            self.evals += len(corpus)
            self.cov["streams"]["corpus"] = {"ops": len(corpus), "impl_rc": rc}
            for op, line in zip(corpus, out):
                j = self.judge(op, line)
                if j:
                    self.violation("property", self.classify(op, j), j, {"stream": "corpus", "ops": [op], "impl_line": line})
            if rc != 0 or len(out) != len(corpus):
                self.violation("crash", "harness-died", "harness died on the corpus: " + vlib.sanitizer_summary(err),
                               {"stream": "corpus", "ops": corpus[len(out):len(out) + 1]})
        # 2. fixed programs, all schedules; 3. seeded random programs, all schedules
        cap = 2000 if self.tier == "quick" else 40000
        nrand = 40 if self.tier == "quick" else 600
        rnd, n3 = [], 0
        while len(rnd) < nrand:
            p = random_program(self.rng)
            if " t2=" in p:
                n3 += 1
                if self.tier == "quick" and n3 > 3:      # 1680 schedules each: bound the quick tier
                    continue
            rnd.append(p)
        programs = [("fixed", p) for p in FIXED] + [("random", p) for p in rnd]
        total, truncated = 0, []
        seen_keys = set()
        budget = 40000 if self.tier == "quick" else 10 ** 7
        for cls, prog in programs:
            if total >= budget:
                truncated.append(prog + " (not run: schedule budget exhausted)")
                continue
            n, trunc, viol = self.enumerate(prog, min(cap, budget - total))
            total += n
            self.evals += n
            self.cov["streams"]["%s:%s" % (cls, prog)] = {"ops": n, "all_schedules": not trunc}
            if trunc:
                truncated.append(prog)
            if len(self.cov["samples"]) < 5:
                self.cov["samples"].append({"stream": cls, "op": prog, "impl": "%d schedules%s" % (n, " (truncated)" if trunc else "")})
            if viol:
                kind, desc, full = viol
                key = self.classify(full, desc)
                if key not in seen_keys:
                    seen_keys.add(key)
                    self.violation(kind, key, desc, {"stream": cls, "ops": [full], "first_bad_op": full})
        self.extra_cov = {"schedules": total, "programs": len(programs), "programs_not_exhausted": truncated[:20],
                          "exhaustive": not truncated}
        self.exhaustive_note = not truncated

    def long_hold(self, impl_dir):
        """T0 holds the lock (two locked walks) across 1 and 3 (thorough: up to 8) waiter time-outs of
        Q_MUTEX_ENTER while T1 calls a mutating operation: mutual exclusion must survive the time-out path"""
        lines = lc.hold_scenarios(self.tier)
        res = lc.run_hold(impl_dir, lines)
        self.evals += len(res)
        self.cov["streams"]["long-hold"] = {"ops": len(res), "forced_unlock_attempts_seen": sum(int(r.get("forced", 0) or 0) for _, r, _ in res)}
        seen = set()
        for line, r, raw in res:
            self.nontrivial.add(("hold", line, r.get("forced"), r.get("walk2"), r.get("t1_done_in_hold")))
            j = lc.judge_hold_c13(line, r)
            if j:
                key = "long-hold:" + dict(x.split("=") for x in line.split()[1:]).get("kind", "?")
                if len(seen) < 3 and key not in seen:
                    seen.add(key)
                    self.violation("property", key, j, {"stream": "long-hold", "ops": [line], "first_bad_op": line, "impl_line": raw})

    def concurrent_callers(self):
        """the formatted puts format BEFORE they take the container lock (the formatting macro is shared
        by all containers): a hidden static buffer there makes a correctly locked put store another
        thread's text. Real threads, private containers, self-checking (harness/mtpure.c)."""
        from checks import mtpure
        st = mtpure.stream(self)
        try:
            hbin = vlib.build_harness("mtpure", vlib.build_impl("asan"), "asan", (), lib="libq.a")
        except vlib.BuildError as e:
            self.violation("build", "build-failure", str(e)[:2000], {"error": str(e)[:4000]})
            return
        lines, rc, err = vlib.run_proc([hbin], "\n".join(st.ops) + "\n", timeout=600)
        self.evals += len(st.ops)
        self.cov["streams"][st.name] = {"ops": len(st.ops), "impl_rc": rc, "note": st.note}
        j = mtpure.oracle(st.ops, lines)
        if j is None and (rc != 0 or len(lines) < len(st.ops)):
            i = min(len(lines), len(st.ops) - 1)
            j = (i, "harness died (rc=%d) during `%s`: %s" % (rc, st.ops[i], vlib.sanitizer_summary(err)))
        if j:
            i, desc = j
            self.violation("property", "concurrent-callers", desc, {"stream": st.name, "ops": [st.ops[i]], "first_bad_op": st.ops[i],
                                                                    "impl_line": lines[i] if i < len(lines) else None,
                                                                    "module": None, "harness": "mtpure", "lib": "libq.a"})

    # ---------------------------------------------------------------- oracle
    def judge(self, op, line):
        if op.startswith("mt "):
            from checks import mtpure
            r = mtpure.oracle([op], [line])
            return r[1] if r else None
        if op.startswith("hold "):
            return lc.judge_hold_c13(op, lc.parse_result(line))
        kind, init, opt, progs = parse_prog(op)
        d, opres = parse_out(line)
        if d.get("status") == "deadlock":
            return "deadlock: every unfinished thread waits for the container mutex (a call returned with the lock held): " + line
        if d.get("status") != "ok":
            return None if d.get("status") == "bad-schedule" else "malformed result: " + line
        if any(r[2] in ("unfinished", "bad-op", "bad-kind") for r in opres.values()):
            return "operation without result: " + line
        if not linearizable(kind, init, opt, progs, opres, d.get("final", "")):
            return ("not linearizable: no one-at-a-time order of the calls (consistent with program order and real time) "
                    "explains results %s and final content %s" % (
                        " ".join("T%d.%d:%s=%s" % (t, i, ":".join(map(str, progs[t][i])), opres[(t, i)][2]) for (t, i) in sorted(opres)),
                        d.get("final")))
        return None

    def classify(self, op, detail):
        kind, init, opt, progs = parse_prog(op)
        names = sorted(set(o[0] for p in progs for o in p))
        return "%s:%s" % (kind, "+".join(names))

    # ---------------------------------------------------------------- thorough: TSan stress
    def stress(self):
        try:
            impl = vlib.build_impl("tsan")
            hb = vlib.build_harness(self.harness, impl, "tsan", self.wraps)
        except vlib.BuildError as e:
            self.violation("build", "tsan-build-failure", str(e)[:1000], {"error": str(e)[:3000]})
            return
        lines = []
        for _ in range(60):
            p = random_program(self.rng)
            # longer programs: repeat each thread's ops
            lines.append(p + " free=1 reps=200")
        lines += [p + " free=1 reps=300" for p in FIXED]
        out, rc, err = vlib.run_proc([hb], "\n".join(lines) + "\n", timeout=1500,
                                     env={"TSAN_OPTIONS": "exitcode=66 halt_on_error=0 report_signal_unsafe=0"})
        self.cov["streams"]["tsan-stress"] = {"ops": len(out), "impl_rc": rc}
        self.evals += len(out)
        races = re.findall(r"WARNING: ThreadSanitizer: data race.*?(?=\n\n|\Z)", err, re.S)
        if races:
            loc = re.findall(r"#\d+ (\w+) [^\n]*?(q\w+\.c:\d+)", races[0])
            self.violation("property", "tsan:" + (loc[0][0] if loc else "race"),
                           "ThreadSanitizer reports a data race on container state under free-running threads: %s" % (
                               "; ".join("%s %s" % l for l in loc[:4]) or races[0][:300]),
                           {"stream": "tsan-stress", "ops": lines[:3], "stderr": races[0][:3000]})
        elif rc not in (0,):
            self.violation("crash", "tsan-harness", "TSan harness exited %d: %s" % (rc, err[-300:]), {"stream": "tsan-stress", "ops": lines[:1]})
        # every free-running outcome must be linearizable too (no real-time stamps: program order only)
        idx = 0
        for l in lines:
            reps = int(re.search(r"reps=(\d+)", l).group(1))
            for r in range(reps):
                if idx >= len(out):
                    break
                j = self.judge(l, out[idx])
                idx += 1
                if j:
                    self.violation("property", self.classify(l, j) + ":free", j, {"stream": "tsan-stress", "ops": [l], "impl_line": out[idx - 1]})
                    break

    # ---------------------------------------------------------------- replay
    def replay(self, path):
        rp = json.load(open(path))
        print("replay of", path, "kind:", rp.get("kind"))
        print("detail:", rp.get("detail") or rp.get("proof_errors"))
        ops = rp.get("ops")
        if not ops:
            self.lock, _ = lc.regenerate_lock()
            ok, errs, out, _ = vlib.lake_build(["QlibcModel.Props." + self.prop])
            print("lake build Props.%s: %s" % (self.prop, "ok" if ok else "FAILED"))
            for n in lc.failing_certificates(out):
                fn = n.split("_", 1)[1]
                print("  certificate fails:", n)
                if fn in self.lock.cfgs:
                    c = self.lock.cfgs[fn]
                    print("    unlocked accesses:", "; ".join(c.describe(i) for i in c.unlocked_accesses(self.lock.immutable)[:6]))
                    if n.startswith("atomic_") and not c.atomic():
                        print(c.atomic_problem_text())
            return 0 if ok else 1
        impl_dir = vlib.build_impl("plain")
        if ops and ops[0].startswith("hold "):
            bad = False
            for line, r, raw in lc.run_hold(impl_dir, ops):
                j = lc.judge_hold_c13(line, r)
                print("%s %s\n     impl  : %s\n     model : walk1 = walk2, the waiter finishes only after unlock (Props.C13.lockedWalk_snapshot)%s" % (
                    "!!" if j else "  ", line, raw, ("\n     oracle: " + j) if j else ""))
                bad |= bool(j)
            return 1 if bad else 0
        hbin = vlib.build_harness(self.harness, impl_dir, "plain", self.wraps)
        if any(" big=1" in o for o in ops):
            hbin = vlib.build_harness(self.harness, vlib.build_impl("asan"), "asan", self.wraps)
        ops = [o for o in ops if "free=1" not in o]
        out, rc, err = vlib.run_proc([hbin], "\n".join(ops) + "\n")
        bad = rc != 0
        for i, op in enumerate(ops):
            line = out[i] if i < len(out) else "<missing>"
            j = self.judge(op, line) if i < len(out) else "no result (harness died)"
            print("%s %s\n     impl  : %s\n     model : some sequential order explains all results (Props.C13.wellLocked_linearizable)%s" % (
                "!!" if j else "  ", op, line, ("\n     oracle: " + j) if j else ""))
            bad |= bool(j)
        return 1 if bad else 0

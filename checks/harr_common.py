"""Shared machinery of the static hash table checks C06 / C07 (src/containers/qhasharr.c).

* pure-Python MurmurHash3 x86_32 (seed 0) and hashlib.md5 over exactly the bytes the C code hashes
  (`name`, `namesize`; for the string API that includes the terminating NUL) — both are carried on
  every operation line so that the Lean model never hashes;
* transcript parser: rebuilds the decoded C image from the per-operation slot deltas;
* `wf_errors`: an independent well-formedness checker of a decoded image (C07's oracle), written in
  "ghost layout" style (collect the chain of every key slot, every non-free slot must be claimed by
  exactly one chain) — deliberately different from the local formulation proved in Lean;
* `IdealMap`: the bounded map with the exact space-accounting rule (C06's oracle);
* operation-file generators (engineered key universes, boundary value sizes, BFS over reachable
  images driven through the real code, random histories).
"""
import hashlib, itertools, os
import vlib
from vlib import Stream, hexs

M32 = 0xFFFFFFFF
NAMESIZE, DATASIZE, EXTSIZE, HDR, SLOT, HANDLE = 16, 32, 66, 12, 84, 128   # overwritten by set_layout()
OFF_NAME, OFF_NS, OFF_MD5 = 32, 48, 50


def set_layout(vals):
    global NAMESIZE, DATASIZE, EXTSIZE, HDR, SLOT, HANDLE, OFF_NAME, OFF_NS, OFF_MD5
    NAMESIZE, DATASIZE, EXTSIZE = vals["nameSize"], vals["dataSize"], vals["extSize"]
    HDR, SLOT, HANDLE = vals["sizeofHeader"], vals["sizeofSlot"], vals["sizeofHandle"]
    OFF_NAME, OFF_NS, OFF_MD5 = vals["offPairName"], vals["offPairNamesize"], vals["offPairMd5"]


def rotl(x, r):
    return ((x << r) | (x >> (32 - r))) & M32


def murmur3_32(data):
    """MurmurHash3_x86_32, seed 0, as qhashmurmur3_32 (returns 0 for an empty input)"""
    n = len(data)
    if n == 0:
        return 0
    c1, c2, h = 0xcc9e2d51, 0x1b873593, 0
    nb = n // 4
    for i in range(nb):
        k = int.from_bytes(data[4 * i:4 * i + 4], "little")
        k = (k * c1) & M32
        k = rotl(k, 15)
        k = (k * c2) & M32
        h ^= k
        h = rotl(h, 13)
        h = (h * 5 + 0xe6546b64) & M32
    tail = data[4 * nb:]
    k = 0
    if len(tail) >= 3:
        k ^= tail[2] << 16
    if len(tail) >= 2:
        k ^= tail[1] << 8
    if len(tail) >= 1:
        k ^= tail[0]
        k = (k * c1) & M32
        k = rotl(k, 15)
        k = (k * c2) & M32
        h ^= k
    h ^= n & M32
    h ^= h >> 16
    h = (h * 0x85ebca6b) & M32
    h ^= h >> 13
    h = (h * 0xc2b2ae35) & M32
    h ^= h >> 16
    return h


def memsize(cap):
    return HDR + SLOT * cap


def need(vlen):
    """number of slots a value of vlen >= 1 bytes occupies"""
    return 1 + (max(0, vlen - DATASIZE) + EXTSIZE - 1) // EXTSIZE


def canon(k):
    return (len(k), k) if len(k) <= NAMESIZE else (len(k), k[:NAMESIZE], hashlib.md5(k).digest())


def home(k, cap):
    return murmur3_32(k) % cap


# ------------------------------------------------------------------ operation lines

_hk_memo = {}


def hk(k):
    """hash words of a key (as the C code hashes it: all `namesize` bytes)"""
    if len(k) < 1000:
        return "%08x %s" % (murmur3_32(k), hashlib.md5(k).hexdigest())
    if k not in _hk_memo:
        _hk_memo[k] = "%08x %s" % (murmur3_32(k), hashlib.md5(k).hexdigest())
    return _hk_memo[k]


def op_put(k, v):
    return "put %s %s %s" % (hexs(k), hexs(v), hk(k))


def op_sput(k, v):     # string API: the key is k + NUL
    return "sput %s %s %s" % (hexs(k), hexs(v), hk(k + b"\0"))


def op_get(k):
    return "get %s %s" % (hexs(k), hk(k))


def op_sget(k):
    return "sget %s %s" % (hexs(k), hk(k + b"\0"))


def op_rm(k):
    return "rm %s %s" % (hexs(k), hk(k))


def op_srm(k):
    return "srm %s %s" % (hexs(k), hk(k + b"\0"))


def op_putstr(k, v):   # putstr: key k + NUL, value v + NUL
    return "putstr %s %s %s" % (hexs(k), hexs(v), hk(k + b"\0"))


def op_getstr(k):
    return "getstr %s %s" % (hexs(k), hk(k + b"\0"))


def op_inv(k):
    """every documented-invalid call; k is the probe key of the one valid lookup with a NULL size pointer"""
    return "inv %s %s" % (hexs(k), hk(k))


def op_init(cap, slack=0):
    return "init %d" % (memsize(cap) + slack)


def unhex(w):
    return b"" if w == "-" else bytes.fromhex(w)


def op_key(op):
    """the key bytes an operation line is about (None for key-less ops)"""
    w = op.split()
    if w[0] in ("put", "get", "rm"):
        return unhex(w[1])
    if w[0] in ("sput", "sget", "srm", "putstr", "getstr"):
        return unhex(w[1]) + b"\0"
    return None


INV_TOKENS = ["pbo:nn", "pbo:ns0", "pbo:dn", "pbo:ds0", "pbo:tbl", "put:nn", "put:dn", "put:ds0", "putstr:nn", "putstr:dn",
              "gbo:nn", "gbo:ns0", "gbo:tbl", "get:nn", "getstr:nn", "gbo:nosize", "rbo:nn", "rbo:ns0", "rbo:tbl", "rm:nn",
              "rmi:-1", "rmi:max", "next:obj", "next:idx", "next:tbl", "next:-1", "size:tbl", "size:noout", "clear:tbl",
              "debug:tbl", "debug:out"]


def inv_expected(probe_stored, num):
    """the documented answer of every call of the `inv` probe (qhasharr.c's doc comments: EINVAL "Invalid
    argument" for NULL / zero-size arguments and indexes outside the table, EIO for a NULL stream; a NULL
    size pointer and NULL output pointers are allowed)"""
    want = {t: "EINVAL" for t in INV_TOKENS}
    want["gbo:nosize"] = "data" if probe_stored else "null:ENOENT"
    want["size:noout"] = str(num)
    want["debug:out"] = "EIO"
    return "inv " + " ".join("%s=%s" % (t, want[t]) for t in INV_TOKENS)


def ctor_expected(ms):
    """qhasharr(memory, memsize) on a fresh region: 0 attaches (nothing written); a region too small for the
    handle-sized minimum or for one slot is refused with EINVAL and nothing is written; otherwise every byte
    is zeroed and maxslots = (memsize - header) / slotsize"""
    if ms == 0:
        return "ctor attach untouched g1"
    cap = (ms - HDR) // SLOT if ms >= HDR else 0
    if cap < 1 or ms <= HANDLE:
        return "ctor null EINVAL untouched g1"
    return "ctor ok %d 0 0 zero g1" % cap


def judge_standalone(op, line):
    """`ctor` / `memsize` lines (no image): None, or what is wrong"""
    w = op.split()
    if w[0] == "ctor":
        want = ctor_expected(int(w[1]))
        if line != want:
            return "qhasharr(memory, %s) on a fresh region: `%s`, documented `%s`" % (w[1], line[:100], want)
    elif w[0] == "memsize":
        want = "memsize %d" % (HDR + SLOT * int(w[1]))
        if line != want:
            return "qhasharr_calculate_memsize(%s): `%s`, expected `%s`" % (w[1], line[:100], want)
    return None


# ------------------------------------------------------------------ transcript parsing

class Slot:
    __slots__ = ("count", "hash", "datasize", "link", "u")

    def __init__(self, count, hash_, datasize, link, u):
        self.count, self.hash, self.datasize, self.link, self.u = count, hash_, datasize, link, u

    def is_key(self):
        return self.count >= 1 or self.count == -1

    def canon(self):
        """canonical key identity stored in a key slot"""
        ns = int.from_bytes(self.u[OFF_NS:OFF_NS + 2], "little")
        name = self.u[OFF_NAME:OFF_NAME + min(ns, NAMESIZE)]
        if ns <= NAMESIZE:
            return (ns, name)
        return (ns, name, self.u[OFF_MD5:OFF_MD5 + 16])

    def live(self):
        """the meaningful part of a slot (stale bytes masked) — BFS state identity only"""
        if self.count == 0:
            return (0,)
        if self.count == -2:
            return (-2, self.hash, self.datasize, self.link, self.u[:self.datasize])
        ns = int.from_bytes(self.u[OFF_NS:OFF_NS + 2], "little")
        return (self.count, self.hash, self.datasize, self.link, self.u[:self.datasize],
                self.u[OFF_NAME:OFF_NAME + min(ns, NAMESIZE)], ns, self.u[OFF_MD5:OFF_MD5 + 16])


class Parsed:
    """one result line"""
    __slots__ = ("res", "hdr", "delta", "g", "obs_o", "obs_c", "raw", "ok")


def parse_line(line):
    p = Parsed()
    p.raw, p.ok = line, False
    parts = line.split(" | ")
    p.res = parts[0]
    if len(parts) != 5:
        return p
    try:
        h = parts[1].split()
        assert h[0] == "h"
        p.hdr = (int(h[1]), int(h[2]), int(h[3]))
        p.delta = []
        d = parts[2].split()
        assert d[0] == "d"
        for t in d[1:]:
            i, rest = t.split("=", 1)
            c, hs, ds, ln, u = rest.split(",")
            p.delta.append((int(i), Slot(int(c), int(hs), int(ds), int(ln), unhex(u))))
        g = parts[3].split()
        assert g[0] == "g"
        p.g = g[1]
        o = parts[4]
        if o.startswith("o["):
            a, b = o.split("] c[")
            p.obs_o, p.obs_c = a[2:], b[:-1]
        else:
            w = o.split()
            assert w[0] == "o" and w[2] == "c"
            p.obs_o, p.obs_c = "#" + w[1], "#" + w[3]
        p.ok = True
    except (AssertionError, ValueError, IndexError):
        p.ok = False
    return p


class Image:
    def __init__(self):
        self.max = self.used = self.num = 0
        self.slots = []

    def apply(self, p, fresh):
        if fresh:
            self.slots = [None] * len(p.delta)
        self.max, self.used, self.num = p.hdr
        for i, s in p.delta:
            if i >= len(self.slots):
                self.slots += [None] * (i + 1 - len(self.slots))
            self.slots[i] = s

    def live_state(self):
        return (self.max, self.used, self.num, tuple(s.live() for s in self.slots))

    def keymap(self):
        """canon key -> (slot index, value) read off the image (assumes it is well-formed)"""
        out = {}
        for i, s in enumerate(self.slots):
            if s.is_key():
                v, cur, steps = b"", i, 0
                while True:
                    v += self.slots[cur].u[:self.slots[cur].datasize]
                    cur = self.slots[cur].link
                    steps += 1
                    if cur == -1 or not (0 <= cur < len(self.slots)) or steps > len(self.slots):
                        break
                out[s.canon()] = (i, v)
        return out


def parse_obs(text):
    """`s num max used w i:name=data … k r …` -> (num, max, used, [(idx, name, data)], [get results])"""
    if text.startswith("#"):
        return None
    w = text.split()
    assert w[0] == "s" and w[4] == "w"
    num, mx, used = int(w[1]), int(w[2]), int(w[3])
    j = 5
    walk = []
    while w[j] != "k":
        i, rest = w[j].split(":")
        nm, dt = rest.split("=")
        walk.append((int(i), unhex(nm), unhex(dt)))
        j += 1
    gets = w[j + 1:]
    return num, mx, used, walk, gets


# ------------------------------------------------------------------ C07: independent well-formedness checker

def wf_errors(img):
    errs = []
    sl, n = img.slots, len(img.slots)
    if any(s is None for s in sl):
        return ["slot never dumped"]
    if img.max != n or n < 1:
        errs.append("maxslots %d but the region holds %d slots" % (img.max, n))
    owner = [None] * n
    nkeys = 0
    ncolls = {}
    for t in sl:
        if t.count == -1:
            ncolls[t.hash] = ncolls.get(t.hash, 0) + 1
    for i, s in enumerate(sl):
        if len(s.u) != EXTSIZE:
            errs.append("slot %d: union has %d bytes" % (i, len(s.u)))
        if s.count < -2:
            errs.append("slot %d: count %d" % (i, s.count))
        if not s.is_key():
            continue
        nkeys += 1
        if s.count >= 1:
            if s.hash != i:
                errs.append("slot %d: leading key slot away from its home %d" % (i, s.hash))
            ncoll = ncolls.get(i, 0)
            if s.count != 1 + ncoll:
                errs.append("slot %d: count %d but %d collision slots name it" % (i, s.count, ncoll))
        else:
            if not (0 <= s.hash < n) or sl[s.hash].count < 1:
                errs.append("slot %d: collision slot whose home %d is not a leading slot" % (i, s.hash))
            elif s.hash == i:
                errs.append("slot %d: collision slot at its own home" % i)
        chain, cur = [i], i
        while sl[cur].link != -1:
            nxt = sl[cur].link
            if not (0 <= nxt < n):
                errs.append("slot %d: link %d outside the table" % (cur, nxt)); break
            if sl[nxt].count != -2:
                errs.append("slot %d: link to slot %d which is not an extension block" % (cur, nxt)); break
            if sl[nxt].hash != cur:
                errs.append("slot %d: back-link %d, predecessor is %d" % (nxt, sl[nxt].hash, cur)); break
            if nxt in chain:
                errs.append("slot %d: value chain is cyclic" % i); break
            chain.append(nxt); cur = nxt
        for pos, c in enumerate(chain):
            if owner[c] is not None:
                errs.append("slot %d belongs to the chains of slot %d and slot %d" % (c, owner[c], i))
            owner[c] = i
            lim = DATASIZE if pos == 0 else EXTSIZE
            ds = sl[c].datasize
            if not (1 <= ds <= lim):
                errs.append("slot %d: datasize %d" % (c, ds))
            if pos < len(chain) - 1 and ds != lim:
                errs.append("slot %d: inner block holds %d of %d bytes" % (c, ds, lim))
    for i, s in enumerate(sl):
        if s.count == -2 and owner[i] is None:
            errs.append("slot %d: extension block outside every value chain" % i)
    used = sum(1 for s in sl if s.count != 0)
    if img.used != used:
        errs.append("usedslots %d but %d slots are occupied" % (img.used, used))
    if img.num != nkeys:
        errs.append("num %d but %d key slots" % (img.num, nkeys))
    return errs


HUGESLOTS = 20000       # as in harness/hasharr.c


def name_block_error(line):
    """the harness found the name block handed out by getnext shorter than namesize + 1 bytes (or not terminated)"""
    j = line.find("!short-name-block:")
    if j >= 0:
        have, want = line[j + 18:].split()[0].split("=")[0].split(":")[0].split("/")
        return "getnext reports a key name of %s bytes but the block it hands out holds only %s bytes" % (want, have)
    if "!name-not-terminated" in line:
        return "the name handed out by getnext is not NUL-terminated"
    j = line.find("!process-address@")
    if j >= 0:
        return ("the image holds a process address at byte offset %s of the region (the harness fills the stack with the "
                "address of one of its objects before every call: the library copied an uninitialised local into the "
                "image)" % line[j + 17:].split()[0])
    if "!watchdog" in line:
        return "the operation did not return (watchdog of the harness: endless loop)"
    return None


def judge_c07(ops, lines):
    """(index, description) of the first line on which the image is not well-formed, a guard is
    damaged, or the relocated copy observes something else than the original"""
    img, have = Image(), False
    for i, (op, line) in enumerate(zip(ops, lines)):
        if line in ("noinit",):
            continue
        if line.startswith("init null"):
            have = False
            if "region-written" in line:
                return i, "failed qhasharr() wrote into the region"
            continue
        if line == "bad-op":
            return i, "harness rejected the operation line"
        if op.split()[0] in ("ctor", "memsize"):
            d = judge_standalone(op, line)
            if d:
                return i, d
            continue
        d = name_block_error(line)
        if d:
            return i, "after `%s`: %s" % (op[:60], d)
        p = parse_line(line)
        if not p.ok:
            return i, "`%s`: result line cut short (the harness died inside the call) or unparsable: %s" % (op[:60], line[:120])
        if op.split()[0] in ("inv", "next", "get", "sget", "getstr", "size", "walk") and have and (p.delta or p.hdr != (img.max, img.used, img.num)):
            return i, "`%s` changed the image (header %s -> %s, %d slots rewritten)" % (
                op[:40], (img.max, img.used, img.num), p.hdr, len(p.delta))
        if op.split()[0] == "next" and int(op.split()[1]) < 0 and p.res != "end %d EINVAL" % int(op.split()[1]):
            return i, "getnext with *idx = %s answered `%s` (documented: EINVAL, index untouched)" % (op.split()[1], p.res[:80])
        img.apply(p, op.startswith("init"))
        have = True
        if p.g != "111":
            what = [n for n, b in zip(("guard zone or byte copy damaged / observation wrote into the copy",
                                       "struct padding written", "tail of the region written"), p.g) if b != "1"]
            return i, "after `%s`: %s" % (op[:60], "; ".join(what))
        # tables of 10^5 slots: the whole-image check runs where the harness made its full observation
        e = wf_errors(img) if (len(img.slots) <= HUGESLOTS or p.obs_o != "#-") else []
        if e:
            return i, "image not well-formed after `%s`: %s" % (op[:60], "; ".join(e[:4]))
        if p.obs_o != p.obs_c:
            return i, "a handle attached to a byte copy of the region observes `%s`, the original `%s`" % (
                p.obs_c[:300], p.obs_o[:300])
    return None


# ------------------------------------------------------------------ C06: ideal bounded map

class IdealMap:
    def __init__(self, cap):
        self.cap, self.m = cap, {}      # canon -> (key prefix as stored, value)

    def used(self):
        return sum(need(len(v)) for _, v in self.m.values())

    def free(self):
        return self.cap - self.used()


def judge_c06(ops, lines):
    ideal, img = None, Image()
    keys = []                      # keys of the history in first-seen order (as the harness tracks them)
    for i, (op, line) in enumerate(zip(ops, lines)):
        w = op.split()
        kind = w[0]
        if line == "bad-op":
            return i, "harness rejected the operation line"
        if kind in ("ctor", "memsize"):
            d = judge_standalone(op, line)
            if d:
                return i, d
            continue
        if kind == "init":
            ms = int(w[1])
            cap = (ms - HDR) // SLOT if ms > HDR else 0
            if cap < 1 or ms <= HANDLE:
                ideal = None
                if not line.startswith("init null EINVAL"):
                    return i, "qhasharr() accepted a region of %d bytes" % ms
                continue
            if not line.startswith("init ok"):
                return i, "qhasharr() rejected a region of %d bytes (%d slots)" % (ms, cap)
            ideal, keys = IdealMap(cap), []
        elif ideal is None:
            continue
        d = name_block_error(line)
        if d:
            return i, "after `%s`: %s" % (op[:60], d)
        p = parse_line(line)
        if not p.ok:
            return i, "`%s`: result line cut short (the harness died inside the call) or unparsable: %s" % (op[:60], line[:120])
        before = img.keymap() if img.slots and kind in ("rmi", "walkrm", "next") else None
        if kind == "inv" and (p.delta or p.hdr != (img.max, img.used, img.num)):
            return i, "the invalid calls changed the image (header %s -> %s, %d slots rewritten)" % (
                (img.max, img.used, img.num), p.hdr, len(p.delta))
        img.apply(p, kind == "init")
        res = p.res
        k = op_key(op)
        if k is not None and k not in keys:
            keys.append(k)
        m = ideal.m
        if kind in ("put", "sput", "putstr"):
            v = unhex(w[2]) + (b"\0" if kind == "putstr" else b"")
            ck = canon(k)
            if len(k) == 0 or len(v) == 0:
                if res != "false EINVAL":
                    return i, "put of an empty key/value answered `%s`" % res
            elif len(k) > 65535:
                pass   # outside the property's quantifier (namesize is 16 bits)
            elif ck in m:
                old = m[ck][1]
                fits = ideal.free() >= 1 and need(len(v)) <= ideal.free() + need(len(old))
                if fits:
                    if res != "ok":
                        return i, "replacing put answered `%s` although free=%d, need=%d, released=%d" % (
                            res, ideal.free(), need(len(v)), need(len(old)))
                    m[ck] = (k[:NAMESIZE], v)
                else:
                    if res != "false ENOBUFS":
                        return i, "replacing put answered `%s` although it cannot fit (free=%d, need=%d, released=%d)" % (
                            res, ideal.free(), need(len(v)), need(len(old)))
                    # the key is left unchanged or absent; the counters tell which
                    if p.hdr[2] == len(m) - 1:
                        del m[ck]
            else:
                fits = need(len(v)) <= ideal.free()
                if fits:
                    if res != "ok":
                        return i, "put of a new key answered `%s` although need=%d <= free=%d" % (res, need(len(v)), ideal.free())
                    m[ck] = (k[:NAMESIZE], v)
                elif res != "false ENOBUFS":
                    return i, "put of a new key answered `%s` although need=%d > free=%d" % (res, need(len(v)), ideal.free())
        elif kind in ("get", "sget", "getstr"):
            ck = canon(k)
            want = "null EINVAL" if len(k) == 0 else ("data " + hexs(m[ck][1]) if ck in m else "null ENOENT")
            if res != want:
                return i, "get answered `%s`, the ideal map `%s`" % (res[:120], want[:120])
        elif kind in ("rm", "srm"):
            ck = canon(k)
            want = "false EINVAL" if len(k) == 0 else ("ok" if ck in m else "false ENOENT")
            if res != want:
                return i, "remove answered `%s`, the ideal map `%s`" % (res, want)
            m.pop(ck, None)
        elif kind == "rmi":
            idx = int(w[1])
            at = {ix: ck for ck, (ix, _) in before.items()}
            if idx < 0 or idx >= ideal.cap:
                want = "false EINVAL"          # outside the table: rejected, nothing touched
            elif idx in at:
                want = "ok"
                if at[idx] not in m:
                    return i, "slot %d holds a key the ideal map does not contain" % idx
                del m[at[idx]]
            else:
                want = "false ENOENT"
            if res != want:
                return i, "remove_by_idx(%d) answered `%s`, expected `%s`" % (idx, res, want)
        elif kind == "clear":
            m.clear()
        elif kind == "size":
            want = "size %d %d %d" % (len(m), ideal.cap, ideal.used())
            if res != want:
                return i, "size answered `%s`, the ideal map `%s`" % (res, want)
        elif kind == "walk":
            d = walk_mismatch(res.split()[1:], m)
            if d:
                return i, "walk: " + d
        elif kind == "next":
            idx = int(w[1])
            if idx < 0:
                want = "end %d EINVAL" % idx           # rejected, *idx untouched
            else:
                at = sorted((ix, ck) for ck, (ix, _) in before.items() if ix >= idx)
                if at:
                    ix, ck = at[0]
                    if ck not in m:
                        return i, "slot %d holds a key the ideal map does not contain" % ix
                    want = "obj %d %s %s" % (ix + 1, hexs(m[ck][0]), hexs(m[ck][1]))
                else:
                    want = "end %d ENOENT" % max(idx, ideal.cap)
            if res != want:
                return i, "getnext with *idx = %d answered `%s`, expected `%s`" % (idx, res[:100], want[:100])
        elif kind == "inv":
            want = inv_expected(canon(unhex(w[1])) in m, len(m))
            if res != want:
                got, exp = dict(t.split("=") for t in res.split()[1:] if "=" in t), dict(t.split("=") for t in want.split()[1:])
                bad = ["%s: %s (documented %s)" % (t, got.get(t), exp[t]) for t in INV_TOKENS if got.get(t) != exp[t]]
                return i, "invalid-argument calls: " + ("; ".join(bad[:5]) if bad else res[-80:])
        elif kind == "walkrm":
            at = {ix: ck for ck, (ix, _) in before.items()}
            for t in res.split()[1:]:
                ix, nm, r = t.split(":")
                if r == "ok":
                    # the key removed is the one whose stored prefix was reported at this index
                    now = img.keymap()
                    gone = [ck for ck in m if m[ck][0] == unhex(nm) and ck not in now]
                    if not gone:
                        return i, "walk-and-remove reported a removal of %s but the key is still stored" % nm
                    del m[gone[0]]
                elif r != "-":
                    return i, "remove_by_idx inside the traversal answered " + r
        # counters and contents after every operation
        if p.hdr != (ideal.cap, ideal.used(), len(m)):
            return i, "after `%s`: header (maxslots, usedslots, num) = %s, ideal map says %s" % (
                op[:60], p.hdr, (ideal.cap, ideal.used(), len(m)))
        o = parse_obs(p.obs_o)
        if o is not None:
            num, mx, used, walk, gets = o
            if (mx, used, num) != p.hdr:
                return i, "size() answers %s, header is %s" % ((mx, used, num), p.hdr)
            d = walk_mismatch(["%d:%s=%s" % (ix, hexs(nm), hexs(dt)) for ix, nm, dt in walk], m)
            if d:
                return i, "after `%s`: walk: %s" % (op[:60], d)
            for kk, g in zip(keys, gets):
                ck = canon(kk)
                want = "EINVAL" if len(kk) == 0 else ("=" + hexs(m[ck][1]) if ck in m else "ENOENT")
                if len(kk) <= 65535 and g != want:
                    return i, "after `%s`: get(%s) answers `%s`, the ideal map `%s`" % (op[:60], hexs(kk)[:40], g[:80], want[:80])
        elif ideal.cap <= HUGESLOTS or p.obs_o != "#-":
            # large table: contents are read off the decoded image instead (tables of 10^5 slots: where the
            # harness made its full observation - after init / walk / size and every 256th operation; every
            # operation's own result and the counters are judged always)
            now = img.keymap()
            if set(now) != set(m) or any(now[ck][1] != m[ck][1] for ck in m):
                return i, "after `%s`: stored keys/values differ from the ideal map" % op[:60]
    return None


def walk_mismatch(tokens, m):
    """the walk must yield every key of the ideal map exactly once (stored prefix, whole value)"""
    got = []
    for t in tokens:
        _, rest = t.split(":")
        nm, dt = rest.split("=")
        got.append((unhex(nm), unhex(dt)))
    want = sorted(m.values())
    if sorted(got) != want:
        return "yields %d entries %s, the ideal map has %d entries %s" % (
            len(got), [(a.hex()[:20], len(b)) for a, b in sorted(got)][:6], len(want), [(a.hex()[:20], len(b)) for a, b in want][:6])
    return None


# ------------------------------------------------------------------ generators

VAL_LENS = [1, 31, 32, 33, 97, 98, 99, 163, 164, 165, 230, 231]
INT_MAX = 2147483647


def OUT_IDX(cap):
    """indexes outside the table"""
    return [-1, -INT_MAX - 1, cap, cap + 1, INT_MAX]


def mkval(rng, n):
    return bytes(rng.randrange(256) for _ in range(n))


def find_keys(cap, target_home, length, count, rng, nul=False, taken=()):
    """brute-force keys of the given length whose home slot (on the Python murmur) is target_home"""
    out, tries = [], 0
    taken = set(taken)
    while len(out) < count and tries < 200000:
        tries += 1
        if length <= 4:
            k = bytes(rng.randrange(1, 256) for _ in range(length))
        else:
            k = b"k" + bytes(rng.choice(b"abcdefghijklmnopqrstuvwxyz0123456789") for _ in range(length - 1))
        hk_ = k + b"\0" if nul else k
        if k in taken:
            continue
        if home(hk_, cap) == target_home:
            out.append(k); taken.add(k)
    return out


def universe(cap, rng, lens=(1, 15, 16, 17, 40), per_home=2, homes=None):
    """keys engineered to share home slots: `per_home` keys of each listed length for each home"""
    homes = list(range(cap)) if homes is None else homes
    keys = []
    for h in homes:
        for ln in lens:
            keys += find_keys(cap, h, ln, per_home, rng, taken=keys)
    return keys


def long_prefix_family(cap, rng, n=3, length=40):
    """long keys sharing their first 16 bytes and their length (told apart by the digest only)"""
    pre = b"P" * NAMESIZE
    return [pre + bytes(rng.choice(b"abcdefgh") for _ in range(length - NAMESIZE)) for _ in range(n)]


def corpus_streams(prop):
    out = []
    for pr in ("C06", "C07"):
        d = os.path.join(vlib.ROOT, "corpus", pr)
        for f in sorted(os.listdir(d)) if os.path.isdir(d) else []:
            ops = [l.strip() for l in open(os.path.join(d, f)) if l.strip() and not l.startswith("#")]
            out.append(Stream("corpus:%s/%s" % (pr, f), ops, history=True))
    return out


def scenario_streams(rng, tier):
    """hand-built scenarios: every placement branch, every removal kind, fill to full and past,
    replacement at free in {0,1,2}, both sides of every slot boundary"""
    sts = []
    caps = list(range(1, 10))
    for cap in caps:
        ops = [op_init(cap, slack=(HANDLE + 1 - memsize(1)) if cap == 1 else 0)]
        ks = universe(cap, rng, lens=(1, 15, 16, 17, 40), per_home=1)
        rng.shuffle(ks)
        # fill with one-slot values to full and past
        for k in ks[:cap + 2]:
            ops.append(op_put(k, mkval(rng, rng.choice([1, 31, 32]))))
        ops.append("walk")
        for k in ks[:cap + 2]:
            ops.append(op_get(k))
        # replacement at free = 0: same size, bigger, smaller
        for k in ks[:2]:
            ops.append(op_put(k, mkval(rng, 32)))
            ops.append(op_put(k, mkval(rng, 33)))
            ops.append(op_put(k, mkval(rng, 1)))
        # free one / two slots, then replace across boundaries
        for nfree in (1, 2):
            for k in ks[2:2 + nfree]:
                ops.append(op_rm(k))
            for ln in (33, 98, 99, 32):
                ops.append(op_put(ks[0], mkval(rng, ln)))
                ops.append(op_put(ks[-1], mkval(rng, ln)))
        # remove-by-index of every slot, twice (free / stale slots answer ENOENT)
        for i in list(range(cap)) + [-1, cap, cap + 1, 2147483647, -2147483648]:
            ops.append("rmi %d" % i)
        ops.append("size")
        ops.append(op_inv(ks[0]))            # empty table: every invalid call, the probe key is absent
        # refill with multi-slot values
        for k in ks[:cap]:
            ops.append(op_put(k, mkval(rng, rng.choice([33, 97, 98, 99, 164, 165]))))
        # getnext from every index, inside and outside the table (negative: EINVAL, index untouched)
        for i in list(range(cap)) + OUT_IDX(cap):
            ops.append("next %d" % i)
        ops.append(op_inv(ks[0]))            # (nearly) full table, the probe key is stored
        ops.append(op_inv(b"not stored"))
        ops.append("walkrm 2 0")
        ops.append("walkrm 1 0")
        ops.append("clear")
        ops.append("clear")
        for k in ks[:3]:
            ops.append(op_sput(k.replace(b"\0", b"x"), mkval(rng, 40)))
            ops.append(op_sget(k.replace(b"\0", b"x")))
        for k in ks[:2]:
            ops.append(op_srm(k.replace(b"\0", b"x")))
        # putstr / getstr (key and value are C strings), replacing a value stored through put()
        for k in ks[2:5]:
            sk = k.replace(b"\0", b"x")
            ops += [op_putstr(sk, b"s" * rng.choice([1, 31, 32, 40])), op_getstr(sk), op_sget(sk)]
        ops += [op_putstr(b"", b""), op_getstr(b""), op_getstr(b"absent"), op_srm(b"")]
        ops += [op_put(b"", b"x"), op_put(b"k", b""), op_get(b""), op_rm(b""), op_inv(b"k")]
        sts.append(Stream("scenario:cap%d" % cap, ops, history=True))
    # re-put with a value RELATED to the stored one (seed C06-m9): stored lengths around the slot payload
    # sizes x new value = every prefix length around them / identical / extended / last byte changed, then a
    # put that needs exactly the slots the replacement must have released
    ops = []
    for ln in (1, 31, 32, 33, 64, 97, 98, 99, 100, 164, 165):
        base = mkval(rng, ln)
        news = {base[:n] for n in (1, 16, 31, 32, 33, 66, 97, 98, 99, ln - 1) if 0 < n < ln}
        news |= {base, base + b"x", base[:-1] + bytes([base[-1] ^ 0x80]), base[:32] + mkval(rng, 66)}
        for nv in sorted(news):
            ops += [op_init(6), op_put(b"k", base), op_put(b"k", nv), op_get(b"k"), "size",
                    op_put(b"fill", mkval(rng, 32 + 66 * 3)), op_get(b"fill"), op_get(b"k"), "walk", op_rm(b"k"), "size"]
    sts.append(Stream("reput-related-values", ops, history=True))
    # init boundaries
    ops = ["init %d" % ms for ms in (1, HDR, HDR + SLOT, HANDLE, HANDLE + 1, memsize(2) - 1, memsize(2), memsize(2) + 1, memsize(3) + 83)]
    ops2 = []
    for o in ops:
        ops2 += [o, op_put(b"a", b"1"), op_put(b"b", b"2"), op_put(b"c", b"3"), "size"]
    sts.append(Stream("init-boundaries", ops2, history=True))
    # very long keys and the 16-byte limit, long keys that share prefix and length
    for cap in (3, 7):
        fam = long_prefix_family(cap, rng, 3, 40) + long_prefix_family(cap, rng, 2, 17)
        big = [bytes(rng.randrange(256) for _ in range(n)) for n in (65535, 65534, 300, 4097)]
        ops = [op_init(cap)]
        for k in fam + big:
            ops.append(op_put(k, mkval(rng, rng.choice([1, 33]))))
        for k in fam + big:
            ops.append(op_get(k))
        ops.append(op_get(fam[0][:-1] + b"Z"))       # same prefix and length, other digest
        ops.append(op_rm(fam[1]))
        ops.append(op_put(fam[0], mkval(rng, 70)))
        ops.append("walk")
        for k in big:
            ops.append(op_rm(k))
        ops.append("size")
        sts.append(Stream("long-keys:cap%d" % cap, ops, history=True))
    return sts


def relocation_streams(rng, tier):
    """homes occupied by other chains' collision / extension blocks, relocation of inner, last and
    collision blocks, promotion of collision keys with and without extension chains"""
    sts = []
    for cap in range(3, 10):
        for rep in range(2 if tier == "quick" else 6):
            ops = [op_init(cap)]
            h = rng.randrange(cap)
            same = find_keys(cap, h, rng.choice([1, 15, 16, 17, 40]), 3, rng)
            ks_by_home = {x: find_keys(cap, x, rng.choice([1, 16, 17]), 2, rng, taken=same) for x in range(cap)}
            # a multi-slot value at home h spills extension blocks into the following slots
            ops.append(op_put(same[0], mkval(rng, rng.choice([99, 164, 165]))))
            # keys whose homes are now occupied by extension blocks -> relocation of an ext block
            for x in range(cap):
                if x != h:
                    ops.append(op_put(ks_by_home[x][0], mkval(rng, rng.choice([1, 33]))))
                    ops.append("size")
            ops.append(op_get(same[0]))
            for x in range(cap):
                ops.append(op_rm(ks_by_home[x][0]))
            # collision keys next to the home, then a key whose home holds a collision block
            ops.append(op_put(same[1], mkval(rng, rng.choice([1, 33, 99]))))
            ops.append(op_put(same[2], mkval(rng, 1)))
            for x in range(cap):
                ops.append(op_put(ks_by_home[x][1], mkval(rng, rng.choice([1, 33]))))
            for k in same:
                ops.append(op_get(k))
            # promotion: remove the leading key while collisions exist
            ops.append(op_rm(same[0]))
            ops.append(op_get(same[1])); ops.append(op_get(same[2]))
            ops.append(op_rm(same[1]))
            ops.append(op_put(same[0], mkval(rng, 98)))
            ops.append("walk")
            for i in range(cap):
                ops.append("rmi %d" % i)
            ops.append("size")
            sts.append(Stream("relocation:cap%d/%d" % (cap, rep), ops, history=True))
    return sts


def random_history(rng, cap, nops, keys, val_lens, p_put=0.5):
    ops = [op_init(cap, slack=rng.choice([0, 0, 1, 83]))]
    last = {}    # the value most recently offered under a key (stored or not: only used to derive related values)
    for _ in range(nops):
        r = rng.random()
        k = rng.choice(keys)
        if r < p_put:
            v = mkval(rng, rng.choice(val_lens))
            if k in last and rng.random() < 0.2:
                # a value RELATED to the one offered before: the same bytes, a prefix that ends at / next to a slot
                # boundary, an extension, one byte changed (a "nothing changed" fast path must look at all of it)
                o = last[k]
                c = rng.randrange(5)
                if c == 0:
                    v = o
                elif c == 1 and o:
                    v = o[:rng.choice([1, 31, 32, 33, 97, 98, 99, max(1, len(o) - 1)])]
                elif c == 2:
                    v = o + mkval(rng, rng.choice([1, 32, 66, 67]))
                elif c == 3 and o:
                    j = rng.randrange(len(o)); v = o[:j] + bytes([o[j] ^ 1]) + o[j + 1:]
                else:
                    v = (o + o)[:rng.choice(val_lens)]
            last[k] = v
            ops.append(op_put(k, v))
        elif r < p_put + 0.17:
            ops.append(op_rm(k))
        elif r < p_put + 0.27:
            ops.append(op_get(k))
        elif r < p_put + 0.37:
            ops.append("rmi %d" % (rng.randrange(-1, cap) if rng.random() < 0.85 else
                                   rng.choice([cap, cap + 1, 2147483647, -1, -2147483648, cap + rng.randrange(2, 50)])))
        elif r < p_put + 0.40:
            ops.append("walkrm %d %d" % (rng.choice([1, 2, 3]), 0))
        elif r < p_put + 0.42:
            ops.append("clear")
        elif r < p_put + 0.45:
            ops.append("walk")
        elif r < p_put + 0.47:
            ops.append("next %d" % (rng.randrange(0, cap + 1) if rng.random() < 0.7 else rng.choice(OUT_IDX(cap))))
        elif r < p_put + 0.48:
            ops.append(op_inv(k))
        else:
            ops.append("size")
    return ops


def random_streams(rng, tier):
    sts = []
    nsmall = 60 if tier == "quick" else 600
    for j in range(nsmall):
        cap = rng.choice([2, 2, 3, 3, 4, 5, 6, 7, 8, 9, 1])
        lens = rng.choice([(1,), (1, 16, 17), (15, 16, 17, 40), (1, 40)])
        nk = rng.choice([2, 3, 4, 6, 10])
        keys = universe(cap, rng, lens=lens, per_home=1)
        rng.shuffle(keys)
        keys = keys[:nk] + (long_prefix_family(cap, rng, 2, 40) if rng.random() < 0.3 else [])
        vl = rng.choice([[1, 32, 33], [1, 31, 32, 33, 98, 99], VAL_LENS, [1], [33, 99, 165], [1, 1, 1, 200, 300]])
        ops = random_history(rng, cap, 120 if tier == "quick" else 200, keys, vl, p_put=rng.choice([0.4, 0.55, 0.7]))
        if cap == 1:
            ops[0] = "init %d" % (HANDLE + 1 + rng.randrange(0, 40))
        sts.append(Stream("random-small/%d" % j, ops, history=True))
    # larger tables, digest observations
    for j, cap in enumerate([13, 17, 40, 100, 257, 1000] if tier == "quick" else [13, 17, 40, 64, 100, 257, 500, 1000, 1000]):
        nk = max(4, int(cap * rng.choice([0.5, 0.9, 1.3])))
        keys = [b"key-%d" % t + b"x" * rng.choice([0, 0, 10, 14]) for t in range(nk)]
        nops = min(1500, 200 + 3 * cap) if tier == "quick" else min(6000, 500 + 8 * cap)
        ops = random_history(rng, cap, nops, keys, rng.choice([[1, 32, 33], VAL_LENS, [1, 1, 1, 40, 500]]), p_put=0.6)
        sts.append(Stream("random-large/cap%d" % cap, ops, history=True))
    return sts


def bfs_streams(check, rng, cap, nkeys, val_lens, max_states, name):
    """BFS over all images reachable through the REAL code (states identified by their meaningful
    bytes); each level is one operation file `init; path; op` per (state, op).  The level files
    are yielded as correspondence streams.  Returns closure information through check.bfs_note."""
    keys = []
    # engineered: two keys share a home, the others take neighbouring homes; one long key
    h0 = rng.randrange(cap)
    keys += find_keys(cap, h0, 1, 2, rng)
    keys += find_keys(cap, (h0 + 1) % cap, 17, 1, rng, taken=keys)
    if nkeys > 3:
        keys += find_keys(cap, h0, 16, nkeys - 3, rng, taken=keys)
    keys = keys[:nkeys]
    vals = [bytes([0x41 + j]) * ln for j, ln in enumerate(val_lens)]
    alphabet = [op_put(k, v) for k in keys for v in vals] + [op_rm(k) for k in keys] + \
               ["rmi %d" % i for i in range(cap)] + ["clear"]
    init = op_init(cap)
    seen, frontier, level, nstates, closed = {}, [()], 0, 0, False
    # the state after `init`
    while frontier:
        ops, index = [], []
        for path in frontier:
            for o in alphabet:
                ops.append(init)
                ops += list(path)
                ops.append(o)
                index.append((path, o, len(ops) - 1))
        lines, rc, err = vlib.run_proc([check.hbin], "\n".join(ops) + "\n")
        yield Stream("%s/level%d" % (name, level), ops, history=True,
                     note="%d states x %d ops" % (len(frontier), len(alphabet)))
        if rc != 0 or len(lines) != len(ops):
            break
        nxt = []
        img, pos = Image(), 0
        ends = {e: (p_, o) for p_, o, e in index}
        for j, (o, line) in enumerate(zip(ops, lines)):
            p = parse_line(line)
            if not p.ok:
                continue
            img.apply(p, o.startswith("init"))
            if j in ends:
                st = img.live_state()
                if st not in seen:
                    seen[st] = True
                    path, o2 = ends[j]
                    nxt.append(tuple(path) + (o2,))
        nstates = len(seen)
        level += 1
        if nstates > max_states:
            break
        frontier = nxt
    else:
        closed = True
    if not frontier:
        closed = True
    check.bfs_notes.append("%s: cap=%d keys=%d vals=%s: %d distinct images, %d levels, %s" % (
        name, cap, len(keys), list(val_lens), nstates, level, "closed (all reachable images)" if closed else "cut at the state bound"))


# ------------------------------------------------------------------ glue: key lengths, constructor, argument validation

def keylen_keys(api, L, tag):
    """two keys of `namesize` L (as the code counts it: the string APIs include the NUL) that agree in their
    first 16 bytes where the length allows it and differ in the last byte"""
    n = L if api == "obj" else L - 1        # bytes the caller writes
    if n == 0:
        return [b""]                        # the empty string: namesize 1
    body = (tag + b"0123456789abcdefghijklmnopqrstuvwxyz" * (n // 36 + 1))[:n]
    return [body[:-1] + b"A", body[:-1] + b"B"]


def keylen_ops(api, L, rng, tag):
    put = {"obj": op_put, "str": op_sput, "putstr": op_putstr}[api]
    get = {"obj": op_get, "str": op_sget, "putstr": op_getstr}[api]
    rm = {"obj": op_rm, "str": op_srm, "putstr": op_srm}[api]
    probe = (lambda k: op_inv(k)) if api == "obj" else (lambda k: op_inv(k + b"\0"))

    def val(n):
        return b"v" * n if api == "putstr" else mkval(rng, n)
    ks = keylen_keys(api, L, tag)
    k = ks[0]
    ops = [put(k, val(1)), get(k)]
    for k2 in ks[1:]:
        ops += [get(k2), put(k2, val(33)), get(k2)]
    ops += [get(k), put(k, val(40)), get(k), put(k, val(2)), get(k), "next 0", "walk", probe(k), rm(k), get(k), rm(k)]
    for k2 in ks[1:]:
        ops += [get(k2), "next 0", rm(k2)]
    ops += ["size", probe(k)]
    return ops


def glue_streams(rng, tier):
    """the systematic pass over the entry points' argument space: every key length 1..40 (and the 16-bit
    limit) through each of the three put/get/remove families, the constructor for every region size up to
    three slots, qhasharr_calculate_memsize, every documented-invalid call"""
    sts = []
    for api in ("obj", "str", "putstr"):
        # 15, 16, 17 first (the inline-name limit), then every length
        ops = [op_init(7)]
        for L in [15, 16, 17] + list(range(1, 41)):
            ops += keylen_ops(api, L, rng, b"%s%02d-" % (api[:1].encode(), L))
        sts.append(Stream("keylen:%s" % api, ops, history=True))
        ops = [op_init(5)]
        for L in (65534, 65535):
            ops += keylen_ops(api, L, rng, b"%s%d-" % (api[:1].encode(), L))
        sts.append(Stream("keylen-16bit-limit:%s" % api, ops, history=True))
        # 65536 and above: pair.namesize (16 bits) truncates, the key cannot be found again — outside the
        # property's quantifier (DESIGN section 8): model/code correspondence and well-formedness only
        ops = [op_init(5)]
        for L in (65536, 65537):
            ops += keylen_ops(api, L, rng, b"%s%d-" % (api[:1].encode(), L))
        sts.append(Stream("keylen-beyond-16bit:%s" % api, ops, history=True, oracle=judge_c07))
    # constructor: every region size from 0 to three slots + 1, on a guarded and on an exactly sized region
    top = HDR + 3 * SLOT + 1
    ops = []
    for ms in range(0, top + 1):
        ops += ["ctor %d" % ms, "ctor %d exact" % ms]
    for ms in (memsize(1000), memsize(1000) + 83, 1 << 20):
        ops += ["ctor %d" % ms]
    for n in (0, 1, 2, 1000, INT_MAX):
        ops.append("memsize %d" % n)
    sts.append(Stream("ctor-sweep", ops, history=True))
    # ... and the table is usable on every accepted size (slack bytes behind the last slot stay zero)
    ops = []
    for ms in range(1, top + 1):
        ops += ["init %d" % ms, op_put(b"a", b"1"), op_sput(b"b", b"2" * 33), op_putstr(b"c", b"3"), op_put(b"d", b"4"),
                "size", "next -1", op_inv(b"a")]
    sts.append(Stream("init-sweep", ops, history=True))
    return sts


# ------------------------------------------------------------------ field widths: failing inputs for narrowed slot fields

def one_home_universe(cap, count, rng):
    """`count` keys of mixed lengths (1..4 random bytes, 5..24 text incl. the 16/17 boundary) that all share one home slot"""
    home_, keys = rng.randrange(cap), []
    for ln, share in ((3, 0.55), (4, 0.15), (8, 0.1), (15, 0.05), (16, 0.05), (17, 0.05), (24, 0.05)):
        keys += find_keys(cap, home_, ln, max(1, int(count * share + 0.5)), rng, taken=keys)
    keys = keys[:count]
    while len(keys) < count:
        keys += find_keys(cap, home_, 3, count - len(keys), rng, taken=keys)
    rng.shuffle(keys)
    return keys


def width_streams(rng, tier):
    sts = []
    # (count) 127, 128, 129 and 200 keys sharing ONE home slot of a 300-slot table: slot.count of the home
    # passes 127 / 128 / 129; all keys are read back at each of the three sizes, then removed first-in-first-out
    # (every removal promotes a collision key); 200 keys: read back, removed last-in-first-out (no promotion);
    # counters and contents after every step
    cap = 300
    uni = one_home_universe(cap, 200, rng)

    def val(j):
        return mkval(rng, 33 if j % 40 == 7 else 1)
    ops = [op_init(cap)] + [op_put(k, val(j)) for j, k in enumerate(uni[:127])]
    for n in (127, 128, 129):
        if n > 127:
            ops.append(op_put(uni[n - 1], val(n - 1)))
        ops += ["size"] + [op_get(k) for k in uni[:n]]
    ops += [op_put(uni[0], b"replaced"), op_get(uni[0]), op_put(uni[128], b"replaced too"), op_get(uni[128]), "walk"]
    ops += [op_rm(k) for k in uni[:129]] + ["size", "walk", op_get(uni[0]), op_get(uni[128])]
    sts.append(Stream("one-home:127-128-129", ops, history=True))
    ops = [op_init(cap)] + [op_put(k, val(j)) for j, k in enumerate(uni)]
    ops += ["size", "walk"] + [op_get(k) for k in uni[:130:2] + uni[190:]]
    ops += [op_rm(k) for k in uni[:119:-1]] + ["size", "walk", op_get(uni[0]), op_get(uni[199]), "clear", "size", op_get(uni[0])]
    sts.append(Stream("one-home:200", ops, history=True))
    # (getnext name) object keys of every length 1..20 with a zero byte at every position (and all zero):
    # the name handed out by getnext is compared byte for byte over the reported namesize
    ops = []
    for L in range(1, 21):
        ops.append(op_init(5))
        ks = [bytes((0 if i == p_ else 0x41 + i) for i in range(L)) for p_ in range(L)] + [bytes(L)]
        if L >= 3:
            ks.append(bytes([0x61, 0] + [0x62] * (L - 3) + [0]))
        for k in ks:
            ops += [op_put(k, mkval(rng, 1 if L % 2 else 40)), "walk", "next 0", op_get(k), op_rm(k)]
        ops += [op_put(k, b"v") for k in ks[:3]] + ["walk", "walkrm 1 0", "size"]
    sts.append(Stream("zero-byte-keys", ops, history=True))
    if tier != "quick":
        sts += huge_streams(rng)
    return sts


def huge_streams(rng):
    """(hash / link) tables of 70000 and 140000 slots, a few thousand keys chosen by their home slot: below
    2^15, between 2^15 and 2^16, beyond 2^16, homes shared by two or three keys in each range; values of 100
    bytes (extension chains next to the home). Implementation against the oracle (the list-based model is not
    run on 10^5 slots): every result, the counters after every operation, every key read back, full walks,
    the relocated copy at the harness' full observations."""
    sts = []
    for cap in (70000, 140000):
        pool = {}
        for t in range(120000):
            k = b"h%d-%d" % (cap, t) + b"x" * (t % 23)
            pool.setdefault(home(k, cap), []).append(k)
        regions = [(0, 32768, 200), (32768, 65536, 1200), (65536, cap, 1600)]
        keys = []
        for lo, hi, want in regions:
            homes = [h for h in pool if lo <= h < hi]
            rng.shuffle(homes)
            shared = [h for h in homes if len(pool[h]) >= 2][:60]
            got = []
            for h in shared:
                got += pool[h][:3]
            for h in homes:
                if len(got) >= want:
                    break
                if h not in shared:
                    got.append(pool[h][0])
            keys += got[:max(want, len(got))]
        rng.shuffle(keys)
        val = {k: mkval(rng, rng.choice([100, 100, 100, 1, 33, 170])) for k in keys}
        ops = [op_init(cap)]
        for j, k in enumerate(keys):
            ops.append(op_put(k, val[k]))
            if j < 200:
                ops.append(op_get(k))           # read back at once (the full observations come every 256th operation)
        ops += ["size", "walk"] + [op_get(k) for k in keys]
        for k in keys[:250]:
            ops += [op_put(k, mkval(rng, rng.choice([1, 99, 200]))), op_get(k)]
        gone = keys[100:100 + len(keys) // 2]
        for k in gone:
            ops.append(op_rm(k))
        ops += ["size", "walk"] + [op_get(k) for k in keys]
        ops += ["next %d" % i for i in (0, 32767, 32768, 65535, 65536, cap - 1, cap)]
        ops += ["clear", "size", op_put(keys[0], b"after clear"), op_get(keys[0]), "walk"]
        sts.append(Stream("huge:cap%d" % cap, ops, history=True, nomodel=True,
                          note="%d keys, homes up to %d" % (len(keys), max(home(k, cap) for k in keys))))
    return sts


# ------------------------------------------------------------------ truncated keys told apart by the digest only

# two C-string keys `<16-byte prefix><16 hex digits>` (33 bytes with the terminator, as put()/get() hash them)
# whose MD5 digests agree in their FIRST 8 bytes / in their LAST 8 bytes: the same length, the same first 16
# bytes, the same home slot in tables of the listed size - a comparison of part of the stored digest takes
# them for one key. Found by checks/md5half.c (16 threads, distinguished points; about 2^32 digests per
# pair: 11 s .. 92 s), verified with hashlib at start-up; the search is never needed at check time.
MD5_HALF_PAIRS = [
    ("first", b"qhasharr-md5-keA07e767eab6234b6f", b"qhasharr-md5-keA6fb6e5f63fc6aa65"),
    ("first", b"qhasharr-md5-key4c5bdf28a3e49399", b"qhasharr-md5-keycfcf380b3680f8d9"),   # no common home below 790137371 slots
    ("last", b"qhasharr-md5-keyc6237130775dc799", b"qhasharr-md5-key4214d46b8bd83e9d"),
]
for _half, _a, _b in MD5_HALF_PAIRS:
    _da, _db = hashlib.md5(_a + b"\0").digest(), hashlib.md5(_b + b"\0").digest()
    assert _a != _b and len(_a) == len(_b) == 32 and _a[:16] == _b[:16] and _da != _db, (_a, _b)
    assert (_da[:8] == _db[:8]) if _half == "first" else (_da[8:] == _db[8:]), (_a, _b)


def search_md5_half_pair(half, prefix=b"qhasharr-md5-key"):
    """(re)run the search: builds checks/md5half.c into build/ and caches its output there"""
    import subprocess
    exe = os.path.join(vlib.BUILD, "md5half")
    out = os.path.join(vlib.BUILD, "md5half-%s-%s.txt" % (half, prefix.decode()))
    if not os.path.exists(out):
        os.makedirs(vlib.BUILD, exist_ok=True)
        subprocess.run(["gcc", "-O2", "-pthread", os.path.join(vlib.ROOT, "checks", "md5half.c"), "-o", exe], check=True)
        r = subprocess.run([exe, half, prefix.decode(), str(os.cpu_count() or 4)], capture_output=True, text=True, check=True)
        open(out, "w").write(r.stdout)
    w = open(out).read().split()
    return half, w[0].encode(), w[1].encode()


def shared_home_cap(a, b, lo=3, hi=4000):
    """smallest table size in which the string keys a and b (hashed with their terminator) have the same home slot"""
    ha, hb = murmur3_32(a + b"\0"), murmur3_32(b + b"\0")
    for n in range(lo, hi):
        if ha % n == hb % n:
            return n
    return None


def digest_pair_ops(a, b, cap, rng, sput=op_sput, sget=op_sget, srm=op_srm, init=None, extra=("walk", "size")):
    """both insertion orders; put / get / replace / remove / walk"""
    ops = []
    for x, y in ((a, b), (b, a)):
        ops.append(init if init is not None else op_init(cap))
        ops += [sput(x, b"value of the first"), sget(x), sget(y), sput(y, b"value of the second key, two slots long"), sget(x), sget(y)]
        ops += list(extra)
        ops += [sput(x, b"REPLACED"), sget(x), sget(y), sput(y, mkval(rng, 33)), sget(x), sget(y)] + list(extra)
        ops += [srm(x), sget(x), sget(y)] + list(extra) + [srm(y), sget(y), srm(x)] + list(extra)
        ops += [sput(y, b"again"), sput(x, b"again too"), srm(y), sget(x), sget(y)] + list(extra)
    return ops


def digest_streams(rng, tier):
    sts = []
    for half, a, b in MD5_HALF_PAIRS:
        cap = shared_home_cap(a, b)
        if cap is None:
            continue
        sts.append(Stream("digest-%s-half:cap%d" % (half, cap), digest_pair_ops(a, b, cap, rng), history=True))
    return sts

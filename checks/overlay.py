"""Streams for the properties that span all containers (C11 memory safety / leak freedom,
C12 private copies, C15 allocation failure). Each container family contributes a provider
`(check, prop) -> [Stream]` whose streams carry their own harness, model module, library
variant and oracle. Providers register themselves in PROVIDERS."""
import os
import vlib
from vlib import Stream, hexs

PROVIDERS = []


def provider(fn):
    PROVIDERS.append(fn)
    return fn


def regenerate():
    """translators behind the models the overlay theorems import (run by C11 / C12 / C15)"""
    from checks.seqcommon import regenerate_vecprims
    return regenerate_vecprims()


def all_streams(check, prop):
    out = []
    for p in PROVIDERS:
        out += p(check, prop)
    return out


# ------------------------------------------------------------------ tree table

@provider
def tree_streams(check, prop):
    from checks.treecommon import TreeCheck, TreeOracle
    big = check.tier != "quick"
    rng = check.rng
    helper = TreeCheck(check.tier, check.seed)
    helper.rng = rng
    aspects = {"C11": ("ledger", "map", "shape"), "C12": ("copies", "map", "walk", "nearest"),
               "C15": ("atomic", "ledger", "map", "walk", "nearest")}[prop]

    def oracle(ops, lines):
        o = TreeOracle(aspects)
        for i, (op, l) in enumerate(zip(ops, lines)):
            e = o.step(op, l)
            if e:
                return i, e
        return None

    def S(name, ops):
        return Stream("tree:" + name, ops, history=True, module="tree", harness="tree", lib="libqw.a", oracle=oracle)

    sts = []
    for d in ("C11", "C15") if prop in ("C11", "C15") else ():
        cdir = os.path.join(vlib.ROOT, "corpus", d)
        for f in sorted(os.listdir(cdir)) if os.path.isdir(cdir) else []:
            if f.startswith("tree_") and f.endswith(".ops") and d == prop:
                sts.append(S("corpus:" + f, [l.strip() for l in open(os.path.join(cdir, f)) if l.strip()] + ["end"]))
    keys = [b"k%02d" % i for i in range(9)]
    sts.append(S("null-data-values", TreeCheck.nulldata_ops(faults=(prop == "C15")) + ["end"]))
    sts.append(S("string-level-api", TreeCheck.stringapi_ops(big) + ["end"]))
    if prop == "C15":
        sts.append(S("faults-inside-walks", TreeCheck.fault_walk_ops(big) + ["end"]))
        # the failure reports (result AND errno-derived verdicts) of a table created thread-safe
        ts = [o.replace("new 0", "new 10") for o in TreeCheck.nulldata_ops(faults=True) + TreeCheck.fault_walk_ops(False)[:400]]
        sts.append(S("threadsafe-option", ts + ["end"]))
    if prop == "C15":
        # every allocating operation x failure at the 1st, 2nd, ... allocation (single and
        # "all from k on"), from a corpus of prefix states; full observation afterwards
        prefixes = [[]]
        for n in (1, 2, 3, 5, 8):
            for _ in range(2 if not big else 6):
                ks = keys[:]
                rng.shuffle(ks)
                pre = ["put %s %s" % (hexs(k), rng.choice(["76", "-", "7677"])) for k in ks[:n]]
                if n > 3:
                    pre += ["rm %s" % hexs(ks[0])]
                prefixes.append(pre)
        ops = []
        observe = ["size", "walk", "dump"] + ["get %s" % hexs(k) for k in keys[:4]]
        for pre in prefixes:
            targets = ["put %s 7778" % hexs(keys[8]), "put %s -" % hexs(keys[8]), "put %s 99" % hexs(keys[0]),
                       "get %s" % hexs(keys[0]), "min", "max", "near %s" % hexs(keys[4]), "rm %s" % hexs(keys[1])]
            for t in targets:
                for arm in ["fault %d" % k for k in (1, 2, 3, 4)] + ["faultfrom 1", "faultfrom 2"]:
                    ops += ["new 0"] + pre + [arm, t] + observe
            # walks: failure inside the k-th getnext call, retried
            for k in (1, 2):
                ops += ["new 0"] + pre + ["cursor0", "next", "fault %d" % k, "next", "next", "next", "next"] + ["next"] * 8 + observe
            ops += ["fault 1", "new 0", "put %s 76" % hexs(keys[2])] + observe + ["end"]
        sts.append(S("fault-enumeration", ops))
        # random histories with random single failures
        hist = ["new 0"]
        for i in range(800 if not big else 8000):
            if rng.random() < 0.3:
                hist.append(rng.choice(["fault %d" % rng.randrange(1, 4), "faultfrom %d" % rng.randrange(1, 3)]))
            k = rng.choice(keys)
            hist.append(rng.choice(["put %s %s" % (hexs(k), rng.choice(["76", "-", "777879"])), "rm %s" % hexs(k),
                                    "get %s" % hexs(k), "min", "near %s" % hexs(k), "next", "cursor0", "size"]))
            if i % 50 == 49:
                hist += ["walk", "dump"]
        hist += ["walk", "end"]
        # a cursor must not be used across a modification of the table (outside the API contract)
        clean, dirty = [], True
        for o in hist:
            k = o.split()[0]
            if k in ("put", "rm", "clear", "new", "end", "walk"):
                dirty = True
            elif k in ("cursor0", "near"):
                dirty = False
            elif k == "next" and dirty:
                clean.append("cursor0"); dirty = False
            clean.append(o)
        sts.append(S("random-faults", clean))
    else:
        # C11 / C12: ordinary histories; the ledger is checked after every operation and at release,
        # returned copies are kept and re-checked after later mutations and after release
        for mode in (0, 2):
            kg = (lambda n_: [bytes(rng.choice(b"aAbB") for _ in range(rng.randrange(1, 4))) for _ in range(n_)]) if mode == 2 else None
            h = helper.random_history(900 if not big else 9000, 40 if not big else 400, mode,
                                      ops=("put", "put", "rm", "get", "min", "max", "near", "walk", "abandon", "fullnext", "clear"),
                                      quiet=False, keygen=kg)
            sts.append(S("random-mode%d" % mode, h + ["end"]))
        ops = []
        for n in range(0, 7):
            ops += ["new 0"] + ["put %s %s" % (hexs(k), v) for k, v in zip(keys[:n], ["76", "-", "00", "7600", "0000", "ff", "76"])]
            ops += ["get %s" % hexs(k) for k in keys[:n]] + ["min", "max", "cursor0"] + ["next"] * (n + 1)
            ops += ["put %s 5a5a" % hexs(k) for k in keys[:n]] + ["rm %s" % hexs(k) for k in keys[:n:2]] + ["end"]
        sts.append(S("copies-then-mutate", ops))
    return sts


# ------------------------------------------------------------------ list / queue / stack / grow buffer / vector

@provider
def seq_streams(check, prop):
    from checks import seqoverlay
    return seqoverlay.streams(check, prop)


# ------------------------------------------------------------------ hash table and list table

@provider
def map_streams(check, prop):
    """qhashtbl / qlisttbl: fault forms in lean/QlibcModel/{HashTbl,ListTbl}/Fault.lean, theorems in
    Props/C15Map.lean and Props/C11Map.lean, oracles and generators in checks/mapcommon.py"""
    from checks import mapcommon
    return mapcommon.hash_streams(check, prop) + mapcommon.list_streams(check, prop)


# ------------------------------------------------------------------ static hash table

@provider
def harr_streams(check, prop):
    """qhasharr: plan forms in lean/QlibcModel/HashArr/Fault.lean, theorems in Props/C15Harr.lean and
    Props/C11Harr.lean, oracle and generators in checks/harrmem.py"""
    from checks import harrmem
    return harrmem.harr_streams(check, prop)

"""Hash table / list table part of the cross-container properties C11 (ledger), C12 (private
copies) and C15 (allocation failure): fault-aware oracles on top of the ideal containers of C05
and C08, and the stream generators used by the provider in checks/overlay.py."""
import os, re
import vlib
from vlib import Stream, hexs
from checks.murmur import murmur3_32
from checks import c05, c08
from checks.c05 import kop, unhex, colliding, FULL_COLLISIONS, VS_LENGTHS, vs_value, full_collision_ops

ALLOCS = re.compile(r"^allocs=(\d+) ")


class FaultAware:
    """mixin for the ideal-container oracles: `fault k` / `faultfrom k` arm an allocation failure
    for the next library call. A call in which the armed allocation really happened (k <= number
    of attempts reported by the allocator wrapper) may either complete correctly or report ENOMEM;
    in the second case the contents must be exactly what they were. Without an injected failure
    ENOMEM is never acceptable. After EVERY operation the contents dumped through the public
    structs must equal the ideal contents and the number of live blocks must equal the block
    count of the ideal contents."""
    ENOMEM_RES = {
        "put": "false ENOMEM", "putalias": "false ENOMEM", "putkeyalias": "false ENOMEM", "putstr": "false ENOMEM", "putstrf": "false ENOMEM", "putint": "false ENOMEM",
        "get": "null ENOMEM", "getstr": "null ENOMEM", "getint": "int 0 ENOMEM", "getmulti": "null ENOMEM 0",
        "next": "false ENOMEM", "nextn": "false ENOMEM", "new": "null ENOMEM ctorlive=0",
        "load": "loaded -1 ENOMEM", "save": "false ENOMEM",
    }

    def fa_init(self, aspects):
        self.aspects = aspects
        self.armed = None
        self.ts = False
        self.walk_seen = None       # entries returned by the step-wise walk since `reset`
        self.injected = 0
        self.reported = 0

    # --- to be provided by the concrete oracle
    def ideal_items(self):
        raise NotImplementedError

    def blocks(self):
        raise NotImplementedError

    def contents_of(self, dump):
        """-> (num, [(name, data)], live)"""
        raise NotImplementedError

    def same_contents(self, got):
        raise NotImplementedError

    def reset_ideal(self):
        raise NotImplementedError

    def walk_complete(self, seen):
        raise NotImplementedError

    # ---
    def check_state(self, op, line):
        res, dump = line.split(" | ", 1)
        num, got, live = self.contents_of(dump)
        if num != len(self.ideal_items()) or not self.same_contents(got):
            return "after `%s` (%s) the container holds (num=%d) %r; the ideal contents are %r" % (
                op[:60], res[:40], num, got[:6], self.ideal_items()[:6])
        if "ledger" in self.aspects and live != self.blocks():
            return "after `%s` (%s) the library holds %d blocks for the container; its contents account for %d" % (
                op[:60], res[:40], live, self.blocks())
        return None

    def step(self, op, line):
        w = op.split()
        kind = w[0]
        if " | " not in line:
            raise ValueError("malformed result line")      # truncated by a dying harness, or garbage
        res = line.split(" | ", 1)[0]
        if res.startswith("fault ") or res.startswith("dead"):
            return "undefined behaviour predicted: " + res
        if kind in ("fault", "faultfrom"):
            self.armed = (int(w[1]), kind == "faultfrom")
            return None if res == "ok" else "harness rejected the operation"
        armed, self.armed = self.armed, None
        m = ALLOCS.match(res)
        allocs = int(m.group(1)) if m else None
        body = res[m.end():] if m else res
        fired = armed is not None and armed[0] >= 1 and allocs is not None and armed[0] <= allocs
        if fired:
            self.injected += 1
        if kind == "end":
            mm = re.match(r"end live=(-?\d+) bad=(\d+)$", body)
            self.reset_ideal()
            self.ts = False
            self.walk_seen = None
            if not mm:
                return "malformed end line"
            if "ledger" in self.aspects and int(mm.group(1)) != 0:
                return "%s blocks allocated by the container are still live after it was released" % mm.group(1)
            if "copies" in self.aspects and int(mm.group(2)) != 0:
                return "%s returned copies changed after later mutations / release of the container" % mm.group(2)
            return self.check_state(op, line)
        if body.endswith("ENOMEM") or "ENOMEM " in body:
            # the call reports an allocation failure
            if not fired:
                return "`%s` reported %s although no allocation failed" % (op[:60], body)
            if body != self.ENOMEM_RES.get(kind):
                return "`%s` reported the allocation failure as `%s`" % (op[:60], body)
            self.reported += 1
            if kind == "new":
                # a failed constructor leaves nothing behind (ctorlive=0); the harness continues
                # with a plain table of the same shape
                self.fa_new(w, False)
                self.walk_seen = None
            return self.check_state(op, line)
        # ordinary completion: judged by the ideal container
        if kind == "new":
            self.fa_new(w, True)
        if kind == "rt" and body != "nonul":
            self.ts = False             # the table is replaced by a plain one with the given options
        bad = self.base_step(op, line)
        if bad:
            return bad
        # step-wise walks: with failed calls in between, an uninterrupted walk over an unmodified
        # table still returns every entry exactly once
        if kind == "reset":
            self.walk_seen = []
        elif kind == "next":
            if body.startswith("true ") and self.walk_seen is not None:
                mm = c05.ENTRY.match(body.split()[1])
                self.walk_seen.append((unhex(mm.group(1)), unhex(mm.group(3))))
            elif body == "false ENOENT" and self.walk_seen is not None:
                seen, self.walk_seen = self.walk_seen, None
                if not self.walk_complete(seen):
                    return "the step-wise walk returned %r; the container holds %r" % (seen[:8], self.ideal_items()[:8])
            elif body == "skip":
                self.walk_seen = None
        elif kind not in ("get", "getstr", "getint", "getmulti", "size", "save", "fault", "faultfrom"):
            self.walk_seen = None
        return self.check_state(op, line)


class HashFaultOracle(FaultAware, c05.Oracle):
    def __init__(self, aspects):
        c05.Oracle.__init__(self)
        self.fa_init(aspects)

    def base_step(self, op, line):
        return c05.Oracle.step(self, op, line)

    def fa_new(self, w, ok):
        self.m.clear()
        self.ts = ok and len(w) == 3 and w[2] == "1"

    def reset_ideal(self):
        self.m.clear()

    def ideal_items(self):
        return sorted(self.m.items())

    def blocks(self):
        return 2 + (1 if self.ts else 0) + 3 * len(self.m)

    def contents_of(self, dump):
        rng, num, ents = self.dump_entries(dump)
        return num, sorted((n, d) for n, d, _ in ents), self.live

    def same_contents(self, got):
        return got == self.ideal_items()

    def walk_complete(self, seen):
        return sorted(seen) == self.ideal_items()


class ListFaultOracle(FaultAware, c08.Oracle):
    def __init__(self, aspects):
        c08.Oracle.__init__(self)
        self.fa_init(aspects)

    def base_step(self, op, line):
        return c08.Oracle.step(self, op, line)

    def fa_new(self, w, ok):
        self.l = []
        self.set_opts("".join(w[1:5]))
        self.ts = ok and len(w) == 6 and w[5] == "1"

    def reset_ideal(self):
        self.l = []
        self.set_opts("0000")

    def ideal_items(self):
        return list(self.l)

    def blocks(self):
        return 1 + (1 if self.ts else 0) + 3 * len(self.l)

    def contents_of(self, dump):
        d = dump.split()
        ents = c08.parse_entries(d[3])
        return int(d[1]), [(n, v) for n, v, _ in ents], int(d[2][5:])

    def same_contents(self, got):
        return got == self.l

    def walk_complete(self, seen):
        return seen == self.look()

    def step(self, op, line):
        if line.endswith("BACKLINKS-BROKEN"):
            return "after `%s` the prev links / last pointer do not mirror the next links" % op[:60]
        w = op.split()
        if w[0] == "save" and " | " in line:
            # a save that reports success wrote exactly the entries, in order (url-encoded values)
            res = ALLOCS.sub("", line.split(" | ", 1)[0])
            if res.startswith("saved ") and w[2] == "1":
                want = b"".join(k + unhex(w[1]) + urlencode(v) + b"\n" for k, v in self.l)
                if unhex(res.split()[1]) != want:
                    return "save reported success but the file holds %r; the entries are %r" % (unhex(res.split()[1])[:60], self.l[:6])
        if w[0] == "load" and " | " in line:
            # all entries or none: a load that reports n entries appended exactly the n entry lines
            res = ALLOCS.sub("", line.split(" | ", 1)[0])
            mm = re.match(r"loaded (\d+)$", res)
            if mm:
                want = sum(1 for ln in unhex(w[1]).split(b"\0")[0].split(b"\n") if ln.strip(b" \t\r\n") and not ln.strip(b" \t\r\n").startswith(b"#"))
                if int(mm.group(1)) != want:
                    return "load reported %s entries; the file has %d entry lines" % (mm.group(1), want)
        return FaultAware.step(self, op, line)


URLSAFE = set(b"-./0123456789:@ABCDEFGHIJKLMNOPQRSTUVWXYZ\\_abcdefghijklmnopqrstuvwxyz")


def urlencode(v):
    return b"".join(bytes([c]) if c in URLSAFE else b"%%%02x" % c for c in v)


def judge_with(cls, aspects, stats=None):
    def oracle(ops, lines):
        o = cls(aspects)
        for i, (op, l) in enumerate(zip(ops, lines)):
            try:
                e = o.step(op, l)
            except (IndexError, ValueError, AttributeError, AssertionError, KeyError):
                if i == len(lines) - 1:
                    return None          # truncated last line of a dying harness: reported as a crash
                e = "malformed result line `%s`" % l[:120]
            if e:
                return i, e
        if stats is not None:
            stats["injected"] = stats.get("injected", 0) + o.injected
            stats["reported"] = stats.get("reported", 0) + o.reported
        return None
    return oracle


ASPECTS = {"C11": ("ledger",), "C12": ("copies", "ledger"), "C15": ("atomic", "ledger")}
ARMS = ["fault %d" % k for k in (1, 2, 3, 4)] + ["faultfrom 1", "faultfrom 2", "faultfrom 3"]


def corpus_ops(prop, prefix):
    out = []
    cdir = os.path.join(vlib.ROOT, "corpus", prop)
    for f in sorted(os.listdir(cdir)) if os.path.isdir(cdir) else []:
        if f.startswith(prefix) and f.endswith(".ops"):
            out.append((f, [l.strip() for l in open(os.path.join(cdir, f)) if l.strip() and not l.startswith("#")] + ["end"]))
    return out


# ------------------------------------------------------------------ hash table

def hash_streams(check, prop):
    rng, big = check.rng, check.tier != "quick"
    stats = {}
    oracle = judge_with(HashFaultOracle, ASPECTS[prop], stats)

    def S(name, ops):
        return Stream("hashtbl:" + name, ops, history=True, module="hashtbl", harness="hashtbl", lib="libqw.a", oracle=oracle)

    sts = []
    if prop == "C15":
        for f, ops in corpus_ops("C15", "hashtbl_"):
            sts.append(S("corpus:" + f, ops))
        ops = []
        for r in (1, 3, 0):
            eff = r or 1000
            keys = colliding(eff, 4, b"k", start=rng.randrange(500)) + [b"x%d" % rng.randrange(100), b""]
            fresh = b"new%d" % rng.randrange(100)
            prefixes = [[]]
            for n in (1, 2, 4, 6):
                ks = keys[:]
                rng.shuffle(ks)
                pre = [kop("put", k, hexs(rng.choice([b"v", b"", b"12\0", b"long value \0\0"]))) for k in ks[:n]]
                if n > 2:
                    pre.append(kop("rm", ks[0]))
                prefixes.append(pre)
            observe = ["size", "walk 0"] + [kop("get", k, "0") for k in keys[:3] + [fresh]]
            tsflag = " 1" if r == 3 else ""       # the middle range runs on a QHASHTBL_THREADSAFE table: ENOMEM / ENOENT survive the unlock
            for pre in prefixes:
                targets = [kop("put", fresh, hexs(b"nv")), kop("put", fresh, "-"), kop("put", keys[0], hexs(b"replaced")),
                           kop("putstr", keys[1], hexs(b"str")), kop("putint", fresh, "-42"), kop("putstrf", fresh, hexs(b"fmt")),
                           kop("putstrf", keys[0], hexs(b"y" * 1030)), kop("get", keys[0], "1"),
                           kop("get", keys[1], "0"), kop("getstr", keys[0]), kop("getint", keys[1]), kop("rm", keys[0]), "next 1",
                           kop("putalias", keys[0], "0", "1", "2"), kop("putalias", keys[1], "3", "0", "0"), kop("putkeyalias", keys[0], "0", "6b61")]
                for t in targets:
                    for arm in ARMS:
                        ops += ["new %d%s" % (r, tsflag)] + pre + ["reset", arm, t] + observe
                # constructor (plain and thread-safe)
                for arm in ARMS:
                    for ts in "01":
                        ops += ["new %d" % r] + pre + [arm, "new %d %s" % (r, ts), kop("put", fresh, hexs(b"after"))] + observe
                # step-wise walks with a failure inside the j-th call, retried until the end
                for j in range(0, len(pre) + 1):
                    for arm in ("fault 1", "fault 2", "faultfrom 1"):
                        ops += ["new %d%s" % (r, tsflag)] + pre + ["reset"] + ["next 1"] * j + [arm] + ["next 1"] * (len(pre) + 3) + observe
            ops.append("end")
        sts.append(S("fault-enumeration", ops))
        # distinct names with identical 32-bit hash: the deeper key (both insertion orders) under every failure
        ops = []
        for r in (1, 2, 7, 0):
            for a, b in FULL_COLLISIONS:
                for x, y in ((a, b), (b, a)):
                    pre = ["new %d" % r, kop("put", x, "01"), kop("put", y, "02")]
                    for t in (kop("get", x, "1"), kop("getstr", x), kop("getint", x), kop("put", x, "09"), kop("putstrf", x, hexs(b"s")), kop("rm", x)):
                        for arm in ("fault 1", "fault 2", "fault 3", "faultfrom 1"):
                            ops += pre + [arm, t, kop("get", x, "0"), kop("get", y, "0"), "size", "walk 0"]
        ops.append("end")
        sts.append(S("full-hash-collisions", ops))
        # putstrf: every formatted length around the buffer sizes of DYNAMIC_VSPRINTF x a failure at
        # every allocation of the call (format buffers, then strdup / malloc / node)
        ops = []
        for i, n in enumerate(VS_LENGTHS):
            rounds = 1 + (n >= 1024) + (n >= 2048) + (n >= 4096) + (n >= 8192)
            v = hexs(vs_value(n, i))
            arms = ["fault %d" % k for k in range(1, rounds + 5)] + ["faultfrom %d" % k for k in range(1, rounds + 3)]
            for arm in arms:
                ops += ["new 3", arm, kop("putstrf", b"p", v), kop("getstr", b"p"), kop("rm", b"p")]
            if n in (1023, 1024, 2047, 2048, 4095, 4096, 5000, 10000):
                for arm in arms:         # replace path: no node allocation
                    ops += ["new 3", kop("put", b"p", hexs(b"old")), arm, kop("putstrf", b"p", v), kop("getstr", b"p"), kop("rm", b"p")]
        ops.append("end")
        sts.append(S("putstrf-lengths", ops))
        # random histories with random failures
        ops = []
        for hno in range(40 if not big else 400):
            r = rng.choice([1, 2, 3, 7, 0])
            pool = colliding(r or 1000, 3, b"r", start=rng.randrange(2000)) + [b"k%d" % rng.randrange(30) for _ in range(5)] + [b""]
            pool += list(rng.choice(FULL_COLLISIONS))
            ops.append("new %d %s" % (r, rng.choice("01")))
            for _ in range(rng.randrange(20, 200)):
                if rng.random() < 0.35:
                    ops.append(rng.choice(["fault %d" % rng.randrange(1, 4), "faultfrom %d" % rng.randrange(1, 4)]))
                k = rng.choice(pool)
                v = bytes(rng.choice([0, rng.randrange(256)]) for _ in range(rng.choice([0, 1, 3, 9])))
                ops.append(rng.choice([kop("put", k, hexs(v)), kop("put", k, hexs(v)), kop("putstr", k, hexs(v.replace(b"\0", b"z"))),
                                       kop("putstrf", k, hexs(v.replace(b"\0", b"z") * rng.choice([1, 1, 300]))),
                                       kop("putint", k, str(rng.randrange(-99, 99))), kop("get", k, "1"), kop("get", k, "0"),
                                       kop("getstr", k), kop("getint", k), kop("rm", k), "next 1", "next 0", "reset", "size",
                                       "walk 1", "new %d %s" % (r, rng.choice("01")), "inv", "lock", "debug",
                                       kop("putalias", k, rng.choice("0123"), str(rng.randrange(4)), str(rng.randrange(4))),
                                       kop("putkeyalias", k, str(rng.randrange(2)), "6b61")]))
            ops += ["walk 0", "inv", "end"]
        sts.append(S("random-faults", ops))
    else:
        # C11 / C12: ordinary histories, ledger after every operation and at release; every copy
        # handed out is kept and re-checked after later mutations and after the release
        ops = []
        for hno in range(48 if not big else 480):
            r = rng.choice([1, 2, 3, 7, 1000, 0])
            pool = colliding(r or 1000, rng.randrange(2, 6), b"r", start=rng.randrange(2000))
            pool += [b"k%d" % rng.randrange(50) for _ in range(6)] + [b"", bytes(rng.randrange(1, 256) for _ in range(rng.randrange(1, 30)))]
            pool += list(rng.choice(FULL_COLLISIONS))
            ops.append("new %d %s" % (r, rng.choice("01")))
            for _ in range(rng.randrange(20, 260)):
                k = rng.choice(pool)
                v = bytes(rng.choice([0, rng.randrange(256), 0x31]) for _ in range(rng.choice([0, 1, 2, 5, 17, 40])))
                ops.append(rng.choice([kop("put", k, hexs(v))] * 4 + [kop("putstr", k, hexs(v.replace(b"\0", b"z"))),
                                       kop("putstrf", k, hexs(v.replace(b"\0", b"z") * rng.choice([1, 1, 100]))),
                                       kop("putint", k, str(rng.randrange(-10 ** 6, 10 ** 6))), kop("get", k, "1"), kop("get", k, "1"),
                                       kop("get", k, "0"), kop("getstr", k), kop("getint", k), kop("rm", k), kop("rm", k),
                                       "next 1", "next 1", "reset", "size", "walk 1", "inv", "lock", "debug",
                                       kop("putalias", k, rng.choice("0123"), str(rng.randrange(5)), str(rng.randrange(5))),
                                       kop("putalias", k, "2", "0", "1"), kop("putkeyalias", k, str(rng.randrange(3)), "6b61"),
                                       "clear"][:26 if rng.random() < 0.9 else 27]))
            ops += ["walk 1", "inv", "end"]
        sts.append(S("random-histories", ops))
        # distinct names with identical 32-bit hash (both insertion orders); putstrf around the buffer sizes
        ops = []
        for r in (1, 2, 7, 0):
            for a, b in FULL_COLLISIONS:
                ops += full_collision_ops(r, a, b) + full_collision_ops(r, b, a)
        ops.append("new 3")
        for i, n in enumerate(VS_LENGTHS):
            ops += [kop("putstrf", b"p", hexs(vs_value(n, i))), kop("getstr", b"p"), kop("rm", b"p")]
        ops.append("end")
        sts.append(S("collisions-putstrf", ops))
        # copies, then every kind of mutation, then release
        ops = []
        vals = [b"v", b"", b"\0", b"a\0b\0", b"\0\0\0\0", b"\xff" * 33]
        for r in (1, 3, 0):
            for n in range(0, 6):
                keys = colliding(r or 1000, max(n, 1), b"c", start=rng.randrange(300))[:n]
                ops += ["new %d" % r] + [kop("put", k, hexs(vals[i])) for i, k in enumerate(keys)]
                ops += [kop("get", k, "1") for k in keys] + [kop("getstr", k) for k in keys[1:5]] + ["walk 1", "reset"] + ["next 1"] * (n + 1)
                ops += [kop("put", k, hexs(b"ZZZZ")) for k in keys] + [kop("rm", k) for k in keys[::2]] + ["clear", "end"]
        sts.append(S("copies-then-mutate", ops))
    check.extra_cov = dict(getattr(check, "extra_cov", {}), **{"hashtbl_faults": stats})
    return sts


# ------------------------------------------------------------------ list table

def nkey(op, k, *rest):
    return " ".join([op, hexs(k), "%08x" % murmur3_32(k)] + list(rest))


def list_streams(check, prop):
    rng, big = check.rng, check.tier != "quick"
    stats = {}
    oracle = judge_with(ListFaultOracle, ASPECTS[prop], stats)

    def S(name, ops):
        return Stream("listtbl:" + name, ops, history=True, module="listtbl", harness="listtbl", lib="libqw.a", oracle=oracle)

    K = [b"a", b"A", b"b"]
    sts = []
    files = [b"x=1\ny=2\n", b"a=one\n# c\n\n  A = two \nb=%33\n", b"", b"k=" + b"v" * 40 + b"\nlast=1", b"\n\n#\n"]
    if prop == "C15":
        for f, ops in corpus_ops("C15", "listtbl_"):
            sts.append(S("corpus:" + f, ops))
        ops = []
        optsets = c08.ALL_OPTS
        for o in optsets:
            prefixes = [[]]
            for n in (1, 3, 5):
                pre = [kop("put", rng.choice(K), hexs(b"v%d" % i)) for i in range(n)]
                prefixes.append(pre)
            # twelve entries under one key: the object array of getmulti grows a second time
            prefixes.append([kop("put", b"a", hexs(b"m%d" % i)) for i in range(12)])
            observe = ["size", "walk 0", kop("getmulti", b"a", "0")]
            for pi, pre in enumerate(prefixes):
                many = pi == len(prefixes) - 1
                if many and o.startswith("1"):
                    continue
                targets = [kop("put", b"a", hexs(b"new")), kop("put", b"c", hexs(b"new")), kop("putstr", b"A", hexs(b"s")),
                           kop("putint", b"b", "7"), kop("putstrf", b"a", hexs(b"fmt")), kop("putstrf", b"c", hexs(b"y" * 2050)), kop("put", b"a", "-"), kop("get", b"a", "1"), kop("getstr", b"a"), kop("getint", b"b"),
                           kop("getmulti", b"a", "1"), kop("getmulti", b"a", "2"), kop("getmulti", b"a", "0"), kop("rm", b"a"), "sort",
                           "next 1", nkey("nextn", b"a", "1"), "save 3d 1", "save 3d 0",
                           kop("putalias", b"a", "0", "0", "1"), kop("putalias", b"A", "2", "1", "1"), kop("putkeyalias", b"a", "0", "6b61"),
                           "load %s 3d 1" % hexs(files[0]), "load %s 3d 0" % hexs(files[1])]
                arms = ARMS
                if many:
                    targets = [kop("getmulti", b"a", "1"), kop("getmulti", b"a", "2"), kop("getmulti", b"a", "0"), "save 3d 1"]
                    arms = ["fault %d" % k for k in range(1, 30)] + ["faultfrom %d" % k for k in (5, 20, 23, 26)]
                for t in targets:
                    for arm in arms:
                        ops += ["new " + o] + pre + ["reset", arm, t] + observe
                if many:
                    continue
                # long operations: failure at every allocation of a load / save
                for fl in files[:2]:
                    for k in range(1, 18):
                        ops += ["new " + o] + pre + ["fault %d" % k, "load %s 3d 1" % hexs(fl)] + observe
                for k in range(1, 3 + 2 * len(pre) + 2):
                    ops += ["new " + o] + pre + ["fault %d" % k, "save 3d 1"] + observe
                # constructor (plain and thread-safe)
                for arm in ARMS[:3] + ARMS[4:6]:
                    for ts in "01":
                        ops += ["new " + o] + pre + [arm, "new %s %s" % (o, ts), kop("put", b"a", hexs(b"after"))] + observe
                # step-wise walks with a failure inside the j-th call, retried until the end
                for j in range(0, len(pre) + 1):
                    for arm in ("fault 1", "fault 2", "faultfrom 1"):
                        ops += ["new " + o] + pre + ["reset"] + ["next 1"] * j + [arm] + ["next 1"] * (len(pre) + 3) + observe
            ops.append("end")
        sts.append(S("fault-enumeration", ops))
        # distinct names with identical 32-bit hash, put in descending order: sort / lookups under failures
        ops = []
        for o in c08.ALL_OPTS:
            for a, b in FULL_COLLISIONS:
                lo, hi = sorted((a, b))
                pre = ["new " + o, kop("put", hi, "31"), kop("put", lo, "32"), kop("put", hi, "33")]
                for t in ("sort", kop("get", lo, "1"), kop("getmulti", hi, "1"), kop("put", lo, "39"), kop("rm", hi), "save 3d 1"):
                    for arm in ("fault 1", "fault 2", "fault 3", "faultfrom 1"):
                        ops += pre + [arm, t, "sort", kop("getmulti", lo, "0"), kop("getmulti", hi, "0"), "walk 0"]
        ops.append("end")
        sts.append(S("full-hash-collisions", ops))
        # putstrf: every formatted length around the buffer sizes of DYNAMIC_VSPRINTF x a failure at
        # every allocation of the call (format buffers, then the three of newobj)
        ops = []
        for i, n in enumerate(VS_LENGTHS):
            rounds = 1 + (n >= 1024) + (n >= 2048) + (n >= 4096) + (n >= 8192)
            v = hexs(vs_value(n, i))
            arms = ["fault %d" % k for k in range(1, rounds + 5)] + ["faultfrom %d" % k for k in range(1, rounds + 3)]
            for o in ("0 0 0 0", "1 0 0 0"):
                for arm in arms:
                    ops += ["new " + o, kop("put", b"p", hexs(b"old")), arm, kop("putstrf", b"p", v), kop("getmulti", b"p", "1"), "clear"]
        ops.append("end")
        sts.append(S("putstrf-lengths", ops))
        # a value longer than the first buffers of DYNAMIC_VSPRINTF: every attempt of the line
        ops = []
        for ln in (1000, 1100, 2100):
            for k in range(1, 9):
                ops += ["new 0 0 0 0", kop("putstr", b"k", hexs(b"x" * ln)), "fault %d" % k, "save 3d 0", "fault %d" % k, "save 3d 1", "size"]
        ops.append("end")
        sts.append(S("save-long-lines", ops))
        ops = []
        for hno in range(48 if not big else 480):
            o = c08.ALL_OPTS[hno % 16]
            pool = K + [b"B", b"k1", b"", b"x y"] + list(rng.choice(FULL_COLLISIONS))
            ops.append("new %s %s" % (o, rng.choice("01")))
            for _ in range(rng.randrange(20, 160)):
                if rng.random() < 0.35:
                    ops.append(rng.choice(["fault %d" % rng.randrange(1, 7), "faultfrom %d" % rng.randrange(1, 7)]))
                k = rng.choice(pool)
                v = bytes(rng.choice([0, rng.randrange(256)]) for _ in range(rng.choice([0, 1, 3, 9])))
                ops.append(rng.choice([kop("put", k, hexs(v)), kop("put", k, hexs(v)), kop("putstr", k, hexs(v.replace(b"\0", b"z"))),
                                       kop("putstrf", k, hexs(v.replace(b"\0", b"z") * rng.choice([1, 1, 300]))),
                                       kop("putint", k, str(rng.randrange(-99, 99))), kop("get", k, "1"), kop("getstr", k), kop("getint", k),
                                       kop("getmulti", k, rng.choice("012")), kop("rm", k), "next 1", "next 0", nkey("nextn", k, "1"),
                                       "reset", "rmobj", "size", "sort", "walk 1", "save 3d 1",
                                       "load %s 3d %s" % (hexs(rng.choice(files)), rng.choice("01")),
                                       "new %s %s" % (o, rng.choice("01")), "inv", "lock", "walkrmc %d" % rng.getrandbits(5), "debug",
                                       kop("putalias", k, rng.choice("0123"), str(rng.randrange(4)), str(rng.randrange(1, 4))),
                                       kop("putkeyalias", k, str(rng.randrange(2)), "6b61")]))
            ops += ["walk 0", "inv", "end"]
        sts.append(S("random-faults", ops))
    else:
        ops = []
        for hno in range(48 if not big else 480):
            o = c08.ALL_OPTS[hno % 16]
            pool = K + [b"B", b"ab", b"", b"k1", bytes(rng.randrange(1, 256) for _ in range(rng.randrange(1, 20)))]
            pool += list(rng.choice(FULL_COLLISIONS))
            ops.append("new %s %s" % (o, rng.choice("01")))
            for _ in range(rng.randrange(20, 200)):
                k = rng.choice(pool)
                v = bytes(rng.choice([0, rng.randrange(256), 0x31]) for _ in range(rng.choice([0, 1, 2, 5, 17])))
                ops.append(rng.choice([kop("put", k, hexs(v))] * 4 + [kop("putstr", k, hexs(v.replace(b"\0", b"z"))),
                                       kop("putstrf", k, hexs(v.replace(b"\0", b"z") * rng.choice([1, 1, 100]))),
                                       kop("putint", k, str(rng.randrange(-1000, 1000))), kop("get", k, "1"), kop("get", k, "0"),
                                       kop("getstr", k), kop("getint", k), kop("getmulti", k, "1"), kop("getmulti", k, "2"),
                                       kop("getmulti", k, "0"), kop("rm", k), "next 1", "next 1", nkey("nextn", k, "1"), "rmobj",
                                       "reset", "size", "sort", "walk 1", nkey("walkn", k, "1"), "walkrm %d" % rng.getrandbits(6),
                                       "save 3d 1", "load %s 3d 1" % hexs(rng.choice(files)), "rt 3d " + o,
                                       "inv", "lock", "walkrmc %d" % rng.getrandbits(6), "rt 3a %s 0" % o, "debug",
                                       kop("putalias", k, rng.choice("0123"), str(rng.randrange(5)), str(rng.randrange(1, 5))),
                                       kop("putalias", k, "0", "0", "1"), kop("putkeyalias", k, str(rng.randrange(3)), "6b61")]))
            ops += ["walk 1", "inv", "end"]
        sts.append(S("random-histories", ops))
        # distinct names with identical 32-bit hash in descending order, sorted; putstrf around the buffer sizes
        ops = []
        for o in c08.ALL_OPTS:
            for a, b in FULL_COLLISIONS:
                lo, hi = sorted((a, b))
                ops += ["new " + o, kop("put", hi, "31"), kop("put", lo, "32"), kop("put", hi, "33"), "sort", "walk 1",
                        kop("get", lo, "1"), kop("getmulti", hi, "1"), kop("getmulti", lo, "2"), kop("rm", lo), kop("get", hi, "1"), "sort"]
        for o in ("0 0 0 0", "1 1 0 1"):
            ops.append("new " + o)
            for i, n in enumerate(VS_LENGTHS):
                ops += [kop("putstrf", b"p", hexs(vs_value(n, i))), kop("getstr", b"p"), "clear"]
        ops.append("end")
        sts.append(S("collisions-putstrf", ops))
        ops = []
        vals = [b"v", b"\0", b"a\0b\0", b"\0\0\0\0", b"\xff" * 33, b"1"]
        for o in ("0 0 0 0", "1 1 0 0", "0 0 1 1", "0 1 0 1"):
            for n in range(0, 6):
                keys = [rng.choice(K) for _ in range(n)]
                ops += ["new " + o] + [kop("put", k, hexs(vals[i])) for i, k in enumerate(keys)]
                ops += [kop("get", k, "1") for k in K] + [kop("getstr", b"a"), kop("getmulti", b"a", "1"), kop("getmulti", b"A", "1"), "walk 1", "reset"]
                ops += ["next 1"] * (n + 1) + [nkey("walkn", b"a", "1")]
                ops += [kop("put", k, hexs(b"ZZZZ")) for k in K] + ["sort", kop("rm", b"a"), "walkrm 3", "clear", "end"]
        sts.append(S("copies-then-mutate", ops))
    check.extra_cov = dict(getattr(check, "extra_cov", {}), **{"listtbl_faults": stats})
    return sts

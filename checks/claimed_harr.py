"""MANIFEST entries (CLAIMED) for the static hash table checks C06 / C07 — to be merged into gen_manifest.py."""

CLAIMED = {
    "C06": dict(
        text="Lean 4 theorems (full strength, no _partial) over the byte-exact mechanism-level model of qhasharr.c "
             "(slot layout regenerated from the header on every run): for every capacity >= 1, key length 1..65535, value "
             "length >= 1 and every history, put/get/remove/remove_by_idx/clear/size refine the ideal bounded map on canonical "
             "keys with the exact space rule need(v) = 1 + ceil((|v|-32)+/66) (history_refines, lock-step with the ideal map); "
             "put of a new key succeeds iff need <= free, a replacement iff a slot is free and need <= free + need(old), a "
             "failed put answers ENOBUFS and leaves the key unchanged or absent and every other key untouched (put_new, "
             "put_replace); num = |map| and usedslots = sum of need (counters_exact); getnext from 0 yields every key once "
             "with its whole value (walk_complete). Model tied to the code by a differential correspondence run comparing "
             "every API result and the whole decoded slot array (stale bytes included) after every operation.",
        note="trusted: Lean kernel; translator/harr_layout.py (sizeof/offsetof program); the hand transcription of qhasharr.c "
             "(validated on the explored histories only: engineered collision universes for capacities 1-9, BFS over all "
             "reachable images of small tables, random histories up to 1000 slots); the key's murmur3 hash and MD5 are "
             "parameters of the model (theorems: hash is a function of the canonical key identity, digest has 16 bytes), "
             "computed by an independent Python implementation and compared with what the C code stored; slot.count / "
             "usedslots / num / hash / link / datasize modelled unbounded: exact iff the stored values fit the fields of the current "
             "header (theorem widths_suffice: for maxslots < 2^31 iff no home carries more than 32767 keys; always for "
             "maxslots <= 32767); key length < 2^16 is the width of pair.namesize, which the model stores itself.",
        technique="Lean 4 proof (structural invariant + key correspondence + lock-step refinement by induction over "
                  "operation lists) + K-gen layout + differential correspondence with an ideal-map oracle",
        design="7/C06"),
    "C07": dict(
        text="Lean 4 theorems (full strength): the well-formedness invariant WF of the image (every non-free slot belongs "
             "to exactly one value chain, chains are acyclic, anchored and terminated, collision counts match, header "
             "counters match the slots, data sizes exact) holds initially and is preserved by put (all outcomes incl. "
             "relocation and rollback), remove, remove_by_idx (incl. promotion) and clear, none of which can fault from a "
             "well-formed image (wf_put, wf_remove, wf_remove_by_idx, wf_clear, wf_reachable for arbitrary operation lists); "
             "the Boolean checker evaluated by the driver after every operation decides WF (wf_check_sound, wf_check_iff); the image is the whole state "
             "(attach_same). Self-containedness / relocatability of the C image is carried by the correspondence: region "
             "between guard zones, byte-exact comparison of the whole decoded image after every operation, observation "
             "through a second handle attached to a byte copy at another address after every operation, history continued "
             "through the copy every 32nd operation, ASan+UBSan.",
        note="trusted: Lean kernel; translator/harr_layout.py; the hand transcription of qhasharr.c (validated on explored "
             "histories only); 'no process addresses / nothing written outside the region / a byte copy behaves identically' "
             "is true by type in the value-semantic model and sampled on the C side by the harness (guard zones filled with a "
             "byte pattern or with fake slot images, exactly sized heap regions under ASan); remove_by_idx is total in the "
             "index after fix 1eb7244 (EINVAL outside the table) and getnext after fix 5acdcf6 (EINVAL for a negative index, "
             "index untouched), the theorems carry no index hypothesis (getnext_total); the constructor is total in the "
             "region size (init_total, the unsigned wrap for regions smaller than the header is modelled) and every "
             "documented-invalid call is the identity on the image (inv_identity); systematic glue streams: every key length "
             "1..40, 65534, 65535 through put/get/remove, the string family and putstr/getstr (65536 and above: "
             "correspondence only), qhasharr() on every region size 0..265 bytes guarded and exactly sized, "
             "qhasharr_calculate_memsize, 31 invalid calls per `inv` operation; field widths: widths_suffice / widths_necessary / widths_reachable "
             "(Fits cWidths over the regenerated sizeof constants), streams one-home:127-128-129 / one-home:200 (slot.count), "
             "zero-byte-keys (names handed out by getnext compared over the reported namesize, block size tested through the "
             "ASan interface), thorough: huge:cap70000 / huge:cap140000 (home slots and extension slots beyond 2^15 and 2^16, "
             "implementation against the oracle); digest handling: obligation Shapes.Harr.digest_compared_whole over byte counts "
             "recorded from the CURRENT qhasharr.c (memcmp of get_idx / memcpy of put_data on MD5 operands = 16 = sizeof "
             "namemd5), streams digest-first-half / digest-last-half (33-byte keys with a common 16-byte prefix, a common "
             "home slot and MD5 digests agreeing in 8 of 16 bytes, found by checks/md5half.c and stored as constants); "
             "both harnesses plant a cycling ambient errno (0, ENOMEM, ERANGE, EINTR, ENOENT, EINVAL, EAGAIN, ENOBUFS) "
             "before every library call.",
        technique="Lean 4 proof (local slot invariants + ghost ranks, preservation lemma per image transformation, induction "
                  "over operation lists) + K-gen layout + differential correspondence with an independent Python "
                  "well-formedness checker",
        design="7/C07"),
}

"""Common machinery of the qlibc verification checks (see DESIGN.md section 1.1).

build-impl -> regenerate -> prove (lake build + axiom audit + forbidden-token grep) ->
correspond (C harness vs compiled Lean driver on the same operation files) -> judge (property
oracle on the implementation's transcript) -> decide (exit code, VIOLATION line, evidence file).
"""
import fcntl, glob, hashlib, json, os, random, re, shutil, subprocess, sys, time
from concurrent.futures import ThreadPoolExecutor

ROOT = os.path.dirname(os.path.abspath(__file__))
REPO = os.environ.get("VERIF_REPO", "/repo")
BUILD = os.path.join(ROOT, "build")
LEAN = os.path.join(ROOT, "lean")
GUARD = "QLIBC_VERIF"
ALLOWED_AXIOMS = {"propext", "Classical.choice", "Quot.sound"}
FORBIDDEN = [r"\bsorry\b", r"\badmit\b", r"^\s*axiom\s", r"native_decide", r"bv_decide",
             r"implemented_by", r"\bunsafe\s", r"maxHeartbeats\s+0\b"]

SRC_GLOBS = ["src/containers/*.c", "src/utilities/*.c", "src/internal/*.c", "src/internal/md5/*.c",
             "src/extensions/qconfig.c", "src/extensions/qaconf.c", "src/extensions/qlog.c",
             "src/ipc/*.c"]
SAN_FLAGS = ["-fsanitize=address,undefined", "-fno-sanitize-recover=all", "-fno-omit-frame-pointer"]
IMPL_VERSION = "3"   # bump when the layout of build/impl-* changes
BASE_FLAGS = ["-std=gnu99", "-O1", "-g", "-D" + GUARD, "-D_GNU_SOURCE", "-w"]
# coverage measurement of the correspondence (covreport.py): VERIF_COV=1 instruments the library
# with gcov counters; the .gcda files accumulate next to the objects in build/impl-*/
COV = bool(os.environ.get("VERIF_COV"))
if COV:
    BASE_FLAGS = BASE_FLAGS + ["--coverage", "-fprofile-update=atomic"]


def log(*a):
    print(*a, file=sys.stderr, flush=True)


def sh(cmd, **kw):
    return subprocess.run(cmd, capture_output=True, text=True, **kw)


_NUM_CACHE = {}


def source_numbers(relpaths, lo=8, hi=1 << 20):
    """Integer constants of the CURRENT source files AFTER preprocessing (PATH_MAX, sizeof-free array
    sizes, thresholds of fast paths ...), restricted to the text of the files themselves (line markers
    decide), string literals removed. The generators place lengths N-1, N, N+1 around every one of them:
    a boundary a rewrite introduces is hit because the source names it, not because a sweep happens to
    reach it."""
    key = (tuple(relpaths), lo, hi)
    if key in _NUM_CACHE:
        return _NUM_CACHE[key]
    nums = set()
    for rp in relpaths:
        path = os.path.join(REPO, rp)
        r = sh(["gcc", "-E", "-D_GNU_SOURCE", "-D" + GUARD] + include_flags() + [path])
        if r.returncode != 0:
            continue
        own = False
        for line in r.stdout.splitlines():
            m = re.match(r'# \d+ "([^"]*)"', line)
            if m:
                own = os.path.realpath(m.group(1)) == os.path.realpath(path)
                continue
            if not own:
                continue
            line = re.sub(r'"(?:[^"\\]|\\.)*"', '""', line)
            line = re.sub(r"'(?:[^'\\]|\\.)+'", "0", line)
            for t in re.findall(r"(?<![\w.])(0[xX][0-9a-fA-F]+|\d+)[uUlL]*(?![\w.])", line):
                try:
                    v = int(t, 0) if t.lower().startswith("0x") else int(t.lstrip("0") or "0")
                except ValueError:
                    continue
                if lo <= v <= hi:
                    nums.add(v)
            # constant expressions written as a product or a shift of two literals ((1024 * 1024), 1 << 20)
            for a_, op_, b_ in re.findall(r"(?<![\w.])(\d+)[uUlL]*\s*(\*|<<)\s*(\d+)[uUlL]*(?![\w.])", line):
                v = int(a_) * int(b_) if op_ == "*" else (int(a_) << min(int(b_), 40))
                if lo <= v <= hi:
                    nums.add(v)
    _NUM_CACHE[key] = sorted(nums)
    return _NUM_CACHE[key]


class Lock:
    def __init__(self, name):
        os.makedirs(BUILD, exist_ok=True)
        self.path = os.path.join(BUILD, name + ".lock")

    def __enter__(self):
        self.f = open(self.path, "w")
        fcntl.flock(self.f, fcntl.LOCK_EX)

    def __exit__(self, *a):
        fcntl.flock(self.f, fcntl.LOCK_UN)
        self.f.close()


# ------------------------------------------------------------------ implementation build

def repo_sources():
    out = []
    for g in SRC_GLOBS:
        out += sorted(glob.glob(os.path.join(REPO, g)))
    return out


def tree_hash(extra=""):
    h = hashlib.sha256()
    files = repo_sources() + sorted(glob.glob(os.path.join(REPO, "include/qlibc/**/*.h"), recursive=True)) \
        + sorted(glob.glob(os.path.join(REPO, "src/internal/**/*.h"), recursive=True))
    for f in files:
        h.update(f.encode())
        h.update(open(f, "rb").read())
    h.update(extra.encode())
    return h.hexdigest()[:16]


def include_flags():
    return ["-I", os.path.join(REPO, "include/qlibc"), "-I", os.path.join(REPO, "include"),
            "-I", os.path.join(REPO, "src/internal"), "-I", os.path.join(ROOT, "harness")]


def build_impl(variant="asan"):
    """Compile /repo's current working tree into build/<hash>-<variant>/libq.a. Returns the dir."""
    if variant == "asan":
        cc, flags = "gcc", BASE_FLAGS + SAN_FLAGS
    elif variant == "asan-ndebug":
        # the project's own release build defines NDEBUG: code inside assert() disappears
        cc, flags = "gcc", BASE_FLAGS + SAN_FLAGS + ["-DNDEBUG"]
    elif variant == "tsan":
        cc, flags = "clang-14", BASE_FLAGS + ["-fsanitize=thread", "-fno-omit-frame-pointer"]
    elif variant == "plain":
        cc, flags = "gcc", BASE_FLAGS
    else:
        raise ValueError(variant)
    key = tree_hash(variant + " ".join(flags) + IMPL_VERSION)
    d = os.path.join(BUILD, "impl-%s-%s" % (variant, key))
    with Lock("impl-" + variant):
        if os.path.exists(os.path.join(d, "libq.a")):
            return d
        # drop stale builds of this variant (disk hygiene)
        for old in glob.glob(os.path.join(BUILD, "impl-%s-*" % variant)):
            shutil.rmtree(old, ignore_errors=True)
        tmp = d if COV else d + ".tmp"   # gcov records the object path at compile time
        shutil.rmtree(tmp, ignore_errors=True)
        os.makedirs(tmp)
        srcs = repo_sources()

        def comp(src):
            obj = os.path.join(tmp, os.path.relpath(src, REPO).replace("/", "_")[:-2] + ".o")
            r = sh([cc] + flags + include_flags() + ["-c", src, "-o", obj])
            return (src, obj, r.returncode, r.stderr)
        with ThreadPoolExecutor(16) as ex:
            res = list(ex.map(comp, srcs))
        bad = [(s, e) for s, o, rc, e in res if rc != 0]
        if bad:
            shutil.rmtree(tmp, ignore_errors=True)
            raise BuildError("implementation does not compile:\n" + "\n".join(e for _, e in bad)[:4000])
        r = sh(["ar", "rcs", os.path.join(tmp, "libq.a")] + [o for _, o, _, _ in res])
        if r.returncode != 0:
            raise BuildError(r.stderr)
        # libqw.a: the same objects with the allocator symbols renamed (harness/allocwrap.h)
        ren = []
        for sym in ("malloc", "calloc", "realloc", "strdup", "strndup", "vasprintf", "asprintf", "free"):
            ren += ["--redefine-sym", "%s=vf_%s" % (sym, sym)]
        r = sh(["objcopy"] + ren + [os.path.join(tmp, "libq.a"), os.path.join(tmp, "libqw.a")])
        if r.returncode != 0:
            raise BuildError(r.stderr)
        if tmp != d:
            os.rename(tmp, d)
    return d


class BuildError(Exception):
    pass


_C_ESC = {"n": 10, "t": 9, "r": 13, "0": 0, "\\": 92, "'": 39, '"': 34, "a": 7, "b": 8, "f": 12, "v": 11, "?": 63}


def _c_unescape(body):
    out, i = bytearray(), 0
    while i < len(body):
        c = body[i]
        if c != "\\" or i + 1 >= len(body):
            out += c.encode("latin-1", "replace"); i += 1; continue
        n = body[i + 1]
        if n == "x":
            m = re.match(r"[0-9a-fA-F]+", body[i + 2:])
            if m:
                out.append(int(m.group(0), 16) & 0xff); i += 2 + len(m.group(0)); continue
        m = re.match(r"[0-7]{1,3}", body[i + 1:])
        if m:
            out.append(int(m.group(0), 8) & 0xff); i += 1 + len(m.group(0)); continue
        out.append(_C_ESC.get(n, ord(n) & 0xff)); i += 2
    return bytes(out)


def source_dictionary(relpaths, maxlen=24):
    """String literals and character constants of the CURRENT source files (comments removed, printf
    conversions cut out) - the generators mix them into names, values and texts, so that a code path
    that waits for one particular token (an escape sequence, a keyword, a magic prefix) is reached by
    construction and not by luck. Returns a sorted list of distinct non-empty byte strings."""
    toks = set()
    for rp in relpaths:
        try:
            text = open(os.path.join(REPO, rp), errors="replace").read()
        except OSError:
            continue
        text = re.sub(r"/\*.*?\*/", " ", text, flags=re.S)
        text = re.sub(r"//[^\n]*", " ", text)
        for m in re.finditer(r'"((?:[^"\\\n]|\\.)*)"', text):
            raw = _c_unescape(m.group(1))
            for piece in re.split(rb"%[-+ #0]*[0-9*]*(?:\.[0-9*]+)?(?:hh|h|ll|l|z|j|t)?[diouxXcsfgeEpn%]", raw):
                if 0 < len(piece) <= maxlen:
                    toks.add(piece)
                    toks.add(piece.strip())
        for m in re.finditer(r"'((?:[^'\\\n]|\\.)+)'", text):
            b = _c_unescape(m.group(1))
            if len(b) == 1:
                toks.add(b)
    toks.discard(b"")
    return sorted(t for t in toks if not re.search(rb"\.[ch]$", t))


def build_harness(name, impl_dir, variant="asan", wraps=(), extra=(), lib="libq.a"):
    src = os.path.join(ROOT, "harness", name + ".c")
    h = hashlib.sha256(open(src, "rb").read())
    for f in sorted(glob.glob(os.path.join(ROOT, "harness", "*.h"))):
        h.update(open(f, "rb").read())
    h.update(" ".join(wraps).encode() + " ".join(extra).encode() + lib.encode())
    out = os.path.join(impl_dir, "%s-%s" % (name, h.hexdigest()[:10]))
    with Lock("harness-" + name):
        if os.path.exists(out):
            return out
        if variant in ("asan", "asan-ndebug"):
            cc, flags = "gcc", BASE_FLAGS + SAN_FLAGS
        elif variant == "tsan":
            cc, flags = "clang-14", BASE_FLAGS + ["-fsanitize=thread"]
        else:
            cc, flags = "gcc", BASE_FLAGS
        wrapflags = ["-Wl,--wrap=" + w for w in wraps]
        r = sh([cc] + flags + include_flags() + list(extra) + [src, os.path.join(impl_dir, lib),
                                                              "-lpthread", "-o", out + ".tmp"] + wrapflags)
        if r.returncode != 0:
            raise BuildError("harness %s does not build:\n%s" % (name, r.stderr[:4000]))
        os.rename(out + ".tmp", out)
    return out


# ------------------------------------------------------------------ Lean side

def lake(args, timeout=3600):
    with Lock("lake"):
        return sh(["lake"] + args, cwd=LEAN, timeout=timeout)


def lake_build(targets):
    t0 = time.time()
    r = lake(["build"] + targets)
    out = r.stdout + r.stderr
    errs = [l for l in out.splitlines() if l.startswith("error:")]
    return r.returncode == 0, errs, out, time.time() - t0


def driver_path():
    return os.path.join(LEAN, ".lake/build/bin/qdriver")


def module_file(mod):
    return os.path.join(LEAN, mod.replace(".", "/") + ".lean")


def import_closure(mod):
    seen, todo = [], [mod]
    while todo:
        m = todo.pop()
        if m in seen:
            continue
        f = module_file(m)
        if not os.path.exists(f):
            continue
        seen.append(m)
        for line in open(f):
            mm = re.match(r"\s*(?:public\s+)?import\s+([\w.]+)", line)
            if mm and (mm.group(1).startswith("QlibcModel") or mm.group(1).startswith("Driver")):
                todo.append(mm.group(1))
    return seen


def strip_comments(text):
    # remove /- ... -/ (nested) and -- ... comments
    out, i, depth = [], 0, 0
    while i < len(text):
        if text.startswith("/-", i):
            depth += 1; i += 2; continue
        if depth and text.startswith("-/", i):
            depth -= 1; i += 2; continue
        if depth:
            if text[i] == "\n":
                out.append("\n")
            i += 1; continue
        if text.startswith("--", i):
            while i < len(text) and text[i] != "\n":
                i += 1
            continue
        out.append(text[i]); i += 1
    return "".join(out)


def forbidden_tokens(mod):
    hits = []
    for m in import_closure(mod):
        text = strip_comments(open(module_file(m)).read())
        for n, line in enumerate(text.splitlines(), 1):
            for pat in FORBIDDEN:
                if re.search(pat, line):
                    hits.append("%s:%d: %s" % (m, n, line.strip()[:100]))
    return hits


def theorems_of(mod):
    text = strip_comments(open(module_file(mod)).read())
    ns = []
    names = []
    for line in text.splitlines():
        m = re.match(r"\s*namespace\s+([\w.]+)", line)
        if m:
            ns.append(m.group(1)); continue
        m = re.match(r"\s*end\s+([\w.]+)", line)
        if m and ns and ns[-1] == m.group(1):
            ns.pop(); continue
        m = re.match(r"\s*(?:@\[[^\]]*\]\s*)?(?:private\s+|protected\s+)?theorem\s+([\w.']+)", line)
        if m:
            names.append(".".join(ns + [m.group(1)]))
    return names


def audit(prop, extra=()):
    """#print axioms for every theorem of Props/<prop>.lean (plus `extra`, fully qualified names of
    theorems in modules that Props/<prop>.lean imports); returns (ok, {thm: [axioms]}, msg)"""
    mod = "QlibcModel.Props." + prop
    thms = theorems_of(mod) + list(extra)
    path = os.path.join(LEAN, "Audit", prop + ".lean")
    text = "import %s\n" % mod + "".join("#print axioms %s\n" % t for t in thms)
    if not os.path.exists(path) or open(path).read() != text:
        open(path, "w").write(text)
    r = lake(["env", "lean", path])
    out = r.stdout + r.stderr
    res, cur = {}, None
    # output: "'name' depends on axioms: [a, b]" or "'name' does not depend on any axioms"
    for m in re.finditer(r"'([^']+)' (does not depend on any axioms|depends on axioms: \[([^\]]*)\])", out):
        res[m.group(1)] = [a.strip() for a in (m.group(3) or "").replace("\n", " ").split(",") if a.strip()]
    bad = []
    for t in thms:
        if t not in res:
            bad.append("%s: no axiom report" % t)
        else:
            extra = [a for a in res[t] if a not in ALLOWED_AXIOMS]
            if extra:
                bad.append("%s: axioms %s" % (t, extra))
    if r.returncode != 0:
        bad.append("lean exited %d: %s" % (r.returncode, out[-500:]))
    return (not bad), res, bad


def leanchecker(mod):
    r = lake(["env", "leanchecker", mod], timeout=1800)
    return r.returncode == 0, (r.stdout + r.stderr)[-800:]


# ------------------------------------------------------------------ running both sides

def run_proc(cmd, text, timeout=600, env=None):
    e = dict(os.environ)
    e["ASAN_OPTIONS"] = "detect_leaks=1:abort_on_error=0:exitcode=99:allocator_may_return_null=1"
    e["UBSAN_OPTIONS"] = "print_stacktrace=1:halt_on_error=1:abort_on_error=1:exitcode=98"
    e["LSAN_OPTIONS"] = "exitcode=97"
    if env:
        e.update(env)
    try:
        r = subprocess.run(cmd, input=text, capture_output=True, text=True, timeout=timeout, env=e)
        return r.stdout.splitlines(), r.returncode, r.stderr
    except subprocess.TimeoutExpired as ex:
        out = ex.stdout.decode() if isinstance(ex.stdout, bytes) else (ex.stdout or "")
        return out.splitlines(), -9, "TIMEOUT after %ss" % timeout


def run_model(module, ops_text, timeout=900):
    return run_proc([driver_path(), module], ops_text, timeout)


def first_diff(a, b):
    for i in range(max(len(a), len(b))):
        x = a[i] if i < len(a) else "<missing>"
        y = b[i] if i < len(b) else "<missing>"
        if x != y:
            return i
    return None


def ddmin(items, fails, budget=200):
    """delta debugging: smallest sublist (keeping order) for which fails(sublist) is true"""
    n, calls = 2, 0
    items = list(items)
    while len(items) >= 2 and calls < budget:
        chunk = max(1, len(items) // n)
        reduced = False
        for i in range(0, len(items), chunk):
            cand = items[:i] + items[i + chunk:]
            calls += 1
            if cand and fails(cand):
                items, n, reduced = cand, max(n - 1, 2), True
                break
            if calls >= budget:
                break
        if not reduced:
            if chunk == 1:
                break
            n = min(len(items), n * 2)
    return items


# ------------------------------------------------------------------ known findings

def known_findings(prop):
    path = os.path.join(ROOT, "known_findings.txt")
    out = []
    if os.path.exists(path):
        for line in open(path):
            m = re.match(r"finding:\s+property=(\w+)\s+key=(\S+)\s+(.*)", line.strip())
            if m and m.group(1) == prop:
                out.append((m.group(2), m.group(3)))
    return out


# ------------------------------------------------------------------ the check driver

def regenerate_all(skip=()):
    """Bring EVERY generated Lean file (K-gen) up to date with the current source tree before a
    check builds anything: a check whose theorems or driver import a fact file it does not own must
    not see the facts of an earlier tree (a run on a modified tree followed by a run on the restored
    one). A translator that cannot read the current source leaves its last output in place; that
    failure is reported by the check that owns the translator, not here."""
    gen = os.path.join(LEAN, "QlibcModel", "Generated")

    def put(name, text):
        path = os.path.join(gen, name)
        if not os.path.exists(path) or open(path).read() != text:
            open(path, "w").write(text)

    def harr():
        from translator import harr_layout
        put("HarrLayout.lean", harr_layout.render(harr_layout.extract(REPO)))

    def tables_():
        from translator import tables
        put("EncodeTables.lean", tables.render(tables.extract(REPO)))

    def vec():
        from translator import vecprims
        put("VectorPrims.lean", vecprims.render(vecprims.extract(REPO)))

    def conf():
        from translator import confconsts
        put("ConfConsts.lean", confconsts.render(confconsts.extract(REPO)))

    def md5():
        from translator import md5steps
        put("HashConsts.lean", md5steps.render(md5steps.extract(REPO)))

    def tree():
        from translator import treeconfig
        treeconfig.write(REPO, os.path.join(gen, "TreeConfig.lean"))

    def lock():
        from checks import lockcommon
        lockcommon.regenerate_lock()

    def shapes():
        from translator import shapes as sh
        put("Shapes.lean", sh.render(sh.extract(REPO)))

    def fmt():
        from translator import fmtmacro
        put("FmtMacro.lean", fmtmacro.render(fmtmacro.extract(REPO)))

    for name, fn in (("harr", harr), ("tables", tables_), ("vec", vec), ("conf", conf), ("md5", md5), ("tree", tree), ("lock", lock), ("shapes", shapes), ("fmt", fmt)):
        if name in skip:
            continue
        try:
            fn()
        except (SystemExit, Exception) as e:
            log("  (translator %s cannot read the current source: %s - its check reports this)" % (name, str(e)[:120]))


# shape obligations (lean/QlibcModel/Shapes/*.lean over Generated/Shapes.lean) imported by each Props module
SHAPES_OF = {"C01": ["Tree"], "C02": ["Tree"], "C03": ["Tree"], "C04": ["Tree"], "C05": ["Hashtbl"], "C06": ["Harr"], "C07": ["Harr"],
             "C08": ["Listtbl", "Encode"], "C09": ["Seq"], "C10": ["Seq"], "C11": ["Tree", "Hashtbl", "Listtbl", "Seq", "Harr"],
             "C12": ["Tree", "Hashtbl", "Listtbl", "Seq", "Harr"], "C13": ["Tree", "Hashtbl", "Listtbl", "Seq"],
             "C15": ["Tree", "Hashtbl", "Listtbl", "Seq", "Harr"], "C16": ["Encode"], "C17": ["Encode", "Conf"], "C18": ["Hash"],
             "C19": ["Str"], "C20": ["Conf"]}


def shape_theorems(prop):
    out = []
    for fam in SHAPES_OF.get(prop, []):
        out += theorems_of("QlibcModel.Shapes." + fam)
    return out


class Stream:
    """one correspondence stream: a list of operation lines (each op is one line, or a whole
    history when `history` is true: then the ops of one file depend on each other)"""
    def __init__(self, name, ops, history=False, note="", module=None, harness=None, lib=None, wraps=None, oracle=None,
                 nomodel=False):
        self.name, self.ops, self.history, self.note = name, ops, history, note
        # nomodel: implementation-vs-oracle only (inputs too large for the list-based Lean model);
        # such streams validate the code against the property's oracle, not the model against the code
        self.nomodel = nomodel
        # a stream may bring its own model module / harness / library variant / oracle
        # (checks that span several containers: C11, C12, C15)
        self.module, self.harness, self.lib, self.wraps, self.oracle = module, harness, lib, wraps, oracle


class Check:
    prop = None            # "C16"
    module = None          # driver module name, e.g. "encode"
    harness = None         # harness source name
    wraps = ()
    lib = "libq.a"         # "libqw.a": allocator calls of the library go through harness/allocwrap.h
    ndebug_reruns = 6      # how many corpus / random streams are re-run on the -DNDEBUG build of the library
    lean_targets = ()      # extra lake targets besides Props.<prop>
    max_corr = 3           # correspondence breaks after which streams run implementation + oracle only
    also_audit = ()        # obligations proved in other Props modules (fully qualified theorem names)
    multi = False          # streams bring their own harness/module (no default harness)
    trusted_base = ["Lean 4.33 kernel", "axioms propext / Classical.choice / Quot.sound only",
                    "hand-written model tied by the correspondence harness (differential, sampled)"]
    assumptions = []

    def __init__(self, tier, seed):
        self.tier, self.seed = tier, seed
        self.rng = random.Random(seed)
        self.t0 = time.time()
        self.violations = []       # (kind, key, detail, replay_payload)
        self.cov = {"streams": {}, "samples": []}
        self.evals = 0
        self.nontrivial = set()

    # --- to override
    def regenerate(self):
        return []

    def streams(self):
        return []

    def judge(self, op, impl_line):
        """property oracle on ONE implementation result line; return None or a description of
        how the implementation's observable behaviour contradicts the property"""
        return None

    def judge_history(self, ops, impl_lines):
        """property oracle on a whole history; return (index, description) or None"""
        for i, (op, l) in enumerate(zip(ops, impl_lines)):
            d = self.judge(op, l)
            if d:
                return i, d
        return None

    def classify(self, op, detail):
        """stable key of a violation for known_findings matching"""
        return "unclassified"

    def nontrivial_key(self, op, line):
        return op

    def extra(self, impl_dir):
        """property-specific additional steps; may call self.violation(...)"""
        return

    def corpus_streams(self):
        """minimised past failures, always run first"""
        d = os.path.join(ROOT, "corpus", self.prop)
        out = []
        for f in sorted(os.listdir(d)) if os.path.isdir(d) else []:
            if f.endswith(".ops"):
                ops = [l.strip() for l in open(os.path.join(d, f)) if l.strip() and not l.startswith("#")]
                out.append(Stream("corpus:" + f, ops, history=True))
        return out

    # --- machinery
    def violation(self, kind, key, detail, payload):
        self.violations.append((kind, key, detail, payload))

    def run(self):
        prop = self.prop
        log("[%s] tier=%s seed=%d" % (prop, self.tier, self.seed))
        proof = {"built": False, "audited": False, "errors": []}
        # 1 regenerate
        regenerate_all()
        try:
            regen = self.regenerate()
        except SystemExit as e:
            regen = []
            proof["errors"].append("translator failed: %s" % e)
        # 2 prove
        ok, errs, out, dt = lake_build(["QlibcModel.Props." + prop] + list(self.lean_targets))
        proof["built"], proof["build_s"] = ok, round(dt, 1)
        if not ok:
            proof["errors"] += errs[:10] or [out[-1500:]]
        self.also_audit = tuple(self.also_audit) + tuple(t for t in shape_theorems(prop) if t not in self.also_audit)
        thms, axioms = theorems_of("QlibcModel.Props." + prop) + list(self.also_audit), {}
        if ok:
            aok, axioms, bad = audit(prop, self.also_audit)
            hits = forbidden_tokens("QlibcModel.Props." + prop)
            proof["audited"] = aok and not hits
            proof["errors"] += bad + ["forbidden token: " + h for h in hits]
            if self.tier == "thorough" and proof["audited"]:
                cok, cout = leanchecker("QlibcModel.Props." + prop)
                proof["leanchecker"] = cok
                if not cok:
                    proof["audited"] = False
                    proof["errors"].append("leanchecker: " + cout)
        dok, derrs, dout, _ = lake_build(["qdriver"])
        if not dok:
            proof["errors"] += ["driver does not build: " + e for e in derrs[:5]]
        self.proof, self.thms, self.axioms = proof, thms, axioms
        # 3 build impl + harness
        impl_dir = None
        try:
            impl_dir = build_impl("asan")
            self.hbin = build_harness(self.harness, impl_dir, "asan", self.wraps, lib=self.lib) if self.harness else None
        except BuildError as e:
            self.violation("build", "build-failure", str(e)[:2000], {"error": str(e)[:4000]})
        # 4 correspondence + oracle
        self.impl_dir = impl_dir
        if impl_dir and (self.harness or self.multi):
            cand = {}
            prio = ("random", "relocation", "scenario", "fault", "corpus")

            def rank(st):
                return (min([i for i, k in enumerate(prio) if k in st.name] or [len(prio)]), -len(st.ops))
            for st in self.streams():
                self.run_stream(st, dok)
                if len(st.ops) <= 60000:
                    # one candidate per stream family (text before the last ':' or '/'): random histories first
                    fam = re.split(r"[:/](?=[^:/]*$)", st.name)[0]
                    if fam not in cand or rank(st) < rank(cand[fam]):
                        cand[fam] = st
            self.extra(impl_dir)
            rerun = sorted(cand.values(), key=rank)[:self.ndebug_reruns]
            # the same streams on a library built with -DNDEBUG (the project's release build): an
            # assert() with a side effect, or code that only works because an assert aborts first,
            # behaves differently there; model, oracle and expected lines are the same
            if rerun and not [v for v in self.violations if v[0] in ("property", "crash")]:
                try:
                    nd = build_impl("asan-ndebug")
                except BuildError as e:
                    nd = None
                    self.violation("build", "build-failure", "NDEBUG build: " + str(e)[:2000], {"error": str(e)[:4000]})
                if nd:
                    saved, self.impl_dir = self.impl_dir, nd
                    saved_hbin = self.hbin
                    self.impl_variant = "asan-ndebug"
                    try:
                        if self.harness:
                            self.hbin = build_harness(self.harness, nd, "asan", self.wraps, lib=self.lib)
                        for st in rerun:
                            st2 = Stream(st.name + " [NDEBUG build]", st.ops, history=st.history, note=st.note, module=st.module,
                                         harness=st.harness, lib=st.lib, wraps=st.wraps, oracle=st.oracle, nomodel=st.nomodel)
                            self.run_stream(st2, dok)
                    except BuildError as e:
                        self.violation("build", "build-failure", "NDEBUG build: " + str(e)[:2000], {"error": str(e)[:4000]})
                    finally:
                        self.impl_dir, self.hbin = saved, saved_hbin
                        self.impl_variant = "asan"
        # 5 decide
        return self.decide()

    def stream_bin(self, st):
        if st.harness is None:
            return self.hbin
        return build_harness(st.harness, self.impl_dir, "asan", st.wraps if st.wraps is not None else self.wraps,
                             lib=st.lib or self.lib)

    def run_stream(self, st, have_driver):
        # after a few correspondence breaks the model comparison (and its shrinking runs) adds
        # nothing: keep searching with the implementation + property oracle only
        if len([v for v in self.violations if v[0] == "corr"]) >= self.max_corr:
            have_driver = False
        text = "\n".join(st.ops) + "\n"
        try:
            hbin = self.stream_bin(st)
        except BuildError as e:
            self.violation("build", "build-failure", str(e)[:2000], {"error": str(e)[:4000], "stream": st.name})
            return
        module = None if st.nomodel else (st.module or self.module)
        raw_judge = st.oracle or self.judge_history

        def judge_history(ops, lines):
            """the oracle, robust against a result line cut short by a crash of the harness: such a
            line is dropped (the crash itself is reported); a line the oracle cannot interpret
            otherwise is a finding at that line, not a crash of the check"""
            try:
                return raw_judge(ops, lines)
            except Exception as e:
                try:
                    r = raw_judge(ops, lines[:-1]) if lines else None
                except Exception:
                    r = (max(0, len(lines) - 1), "the oracle cannot interpret the transcript (%s: %s)" % (type(e).__name__, e))
                return r
        impl, rc, err = run_proc([hbin], text)
        info = {"ops": len(st.ops), "impl_rc": rc}
        self.evals += len(st.ops)
        crashed = rc != 0
        # oracle on the implementation's own transcript
        j = judge_history(st.ops, impl)
        model = None
        if have_driver and module:
            model, mrc, merr = run_model(module, text)
            if mrc != 0:
                self.violation("corr", "driver-crash", "model driver failed on stream %s: %s" % (st.name, merr[-300:]),
                               {"stream": st.name})
                model = None
        d = first_diff(impl, model) if model is not None else None
        for op, l in zip(st.ops, impl):
            self.nontrivial.add(self.nontrivial_key(op, l))
        if len(self.cov["samples"]) < 6 and st.ops:
            k = min(len(st.ops) - 1, self.rng.randrange(len(st.ops)))
            self.cov["samples"].append({"stream": st.name, "op": st.ops[k][:200],
                                        "impl": (impl[k] if k < len(impl) else "<none>")[:200]})
        info["diff_at"] = d
        info["note"] = st.note
        self.cov["streams"][st.name] = info
        if j is not None:
            i, desc = j
            ops = self.shrink(st, i, lambda o, im, mo, rc: judge_history(o, im) is not None)
            self.violation("property", self.classify(st.ops[i], desc), desc,
                           {"stream": st.name, "ops": ops, "first_bad_op": st.ops[i], "impl_line": impl[i] if i < len(impl) else None,
                            "module": module, "harness": st.harness or self.harness, "lib": st.lib or self.lib,
                            "impl_variant": getattr(self, "impl_variant", "asan")})
        elif crashed:
            i = min(len(impl), len(st.ops) - 1)
            op = st.ops[i] if len(impl) < len(st.ops) else "<end of stream: %s>" % st.ops[-1].split()[0]
            desc = "harness died (rc=%d) at op #%d `%s`: %s" % (rc, i, op[:120], sanitizer_summary(err))
            ops = self.shrink(st, i, lambda o, im, mo, rc: rc != 0)
            self.violation("crash", self.classify(op, desc), desc,
                           {"stream": st.name, "ops": ops, "stderr": err[-3000:],
                            "module": module, "harness": st.harness or self.harness, "lib": st.lib or self.lib,
                            "impl_variant": getattr(self, "impl_variant", "asan")})
        elif d is not None:
            op = st.ops[d] if d < len(st.ops) else "<end>"
            desc = "model and implementation differ at op #%d `%s`: impl `%s` model `%s`" % (
                d, op[:120], (impl[d] if d < len(impl) else "<missing>")[:200],
                (model[d] if d < len(model) else "<missing>")[:200])
            ops = self.shrink(st, d, lambda o, im, mo, rc: mo is not None and first_diff(im, mo) is not None)
            self.violation("corr", "corr:" + st.name, desc, {"stream": st.name, "ops": ops, "module": module,
                                                             "harness": st.harness or self.harness, "lib": st.lib or self.lib})

    def shrink(self, st, idx, pred):
        """minimise the failing operation list; for independent ops that is the single op"""
        if not st.history:
            return [st.ops[idx]] if idx < len(st.ops) else st.ops[-1:]
        ops = st.ops[:idx + 1]

        hbin = self.stream_bin(st)
        module = None if st.nomodel else (st.module or self.module)

        def fails(cand):
            text = "\n".join(cand) + "\n"
            im, rc, _ = run_proc([hbin], text, timeout=60)
            mo = None
            if os.path.exists(driver_path()) and module:
                mo, mrc, _ = run_model(module, text, timeout=60)
            return pred(cand, im, mo, rc)
        try:
            return ddmin(ops, fails, budget=120 if self.tier == "quick" else 400)
        except Exception:
            return ops

    def decide(self):
        prop = self.prop
        proof = self.proof
        os.makedirs(os.path.join(ROOT, "replays", prop), exist_ok=True)
        known = known_findings(prop)
        fatal, lines = [], []
        proof_broken = not (proof["built"] and proof["audited"])
        real = [v for v in self.violations if v[0] in ("property", "crash")]
        corr = [v for v in self.violations if v[0] == "corr"]
        other = [v for v in self.violations if v[0] not in ("property", "crash", "corr")]
        n = 0
        for kind, key, detail, payload in real:
            match = [k for k in known if k[0] == key]
            if match:
                lines.append("KNOWN-FINDING: property=%s %s (%s)" % (prop, match[0][1], key))
                continue
            n += 1
            path = os.path.join(ROOT, "replays", prop, "%s-%d.json" % (kind, n))
            json.dump({"property": prop, "kind": kind, "key": key, "detail": detail,
                       "module": self.module, "harness": self.harness, **payload}, open(path, "w"), indent=1)
            fatal.append("VIOLATION property=%s replay=%s" % (prop, path))
            log("  violation: " + detail[:400])
        if (proof_broken or corr or other) and not fatal:
            # a proof obligation or the correspondence no longer checks and the search (oracle over
            # every explored input, see judge) found no input on which the property itself fails
            n += 1
            path = os.path.join(ROOT, "replays", prop, "unproved-%d.json" % n)
            json.dump({"property": prop, "kind": "no-failing-input-found",
                       "proof_errors": proof["errors"], "theorems": self.thms,
                       "correspondence": [{"key": k, "detail": d, **p} for _, k, d, p in corr + other]},
                      open(path, "w"), indent=1)
            fatal.append("VIOLATION property=%s replay=%s no-failing-input-found" % (prop, path))
            for e in proof["errors"][:5]:
                log("  proof: " + e[:300])
            for _, k, d, p in (corr + other)[:5]:
                log("  corr: " + d[:400])
        elif proof_broken or corr or other:
            for e in proof["errors"][:5]:
                log("  proof: " + e[:300])
        self.write_evidence(len(fatal))
        for l in lines + fatal:
            print(l)
        sys.stdout.flush()
        return 1 if fatal else 0

    def write_evidence(self, nviol):
        proof = self.proof
        discharged = len([t for t in self.thms if t in self.axioms]) if proof["built"] and proof["audited"] else 0
        cov = {
            "obligations": max(1, len(self.thms)),
            "discharged": discharged,
            "checker_cmd": "cd lean && lake build QlibcModel.Props.%s && lake env lean Audit/%s.lean%s" % (
                self.prop, self.prop, " && lake env leanchecker QlibcModel.Props.%s" % self.prop if self.tier == "thorough" else ""),
            "trusted_base": self.trusted_base,
            "theorems": [{"name": t, "axioms": self.axioms.get(t)} for t in self.thms],
            "proof_errors": proof["errors"][:10],
            "evaluations": max(1, self.evals),
            "distinct_nontrivial": len(self.nontrivial),
            "rule": getattr(self, "rule", "operation lines executed by both the C harness (ASan+UBSan build of /repo's working tree) and the Lean driver; distinct = distinct (op class, result class) keys"),
            "samples": self.cov["samples"] or [{"note": "no correspondence stream ran"}],
            "streams": self.cov["streams"],
            "exhaustive": getattr(self, "exhaustive_note", False) and True,
        }
        cov.update(getattr(self, "extra_cov", {}))
        ev = {"property_id": self.prop, "tier": self.tier, "seed": self.seed, "level": "proof",
              "coverage": cov, "assumptions": self.assumptions, "wall_s": round(time.time() - self.t0, 2),
              "violations": nviol}
        os.makedirs(os.path.join(ROOT, "evidence"), exist_ok=True)
        json.dump(ev, open(os.path.join(ROOT, "evidence", self.prop + ".json"), "w"), indent=1)


def sanitizer_summary(err):
    for line in err.splitlines():
        if "ERROR: AddressSanitizer" in line or "runtime error" in line or "ERROR: LeakSanitizer" in line or "TIMEOUT" in line:
            return line.strip()[:300]
    return err.strip().splitlines()[-1][:300] if err.strip() else "no stderr"


def hexs(b):
    return b.hex() if b else "-"

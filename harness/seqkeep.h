/* C12 helper shared by harness/seq.c and harness/vector.c (include after allocwrap.h).
 * Every copy the library hands out (newmem accessors, pop, toarray, tostring) is kept together
 * with a private duplicate and re-compared when the container has been released: a retained
 * internal pointer would have been freed (ASan) or overwritten (bad > 0) by then. */
#ifndef VERIF_SEQKEEP_H
#define VERIF_SEQKEEP_H

typedef struct { void *p; void *dup; size_t n; } kept_t;
static kept_t *kept; static size_t nkept, capkept;

static void keep(void *p, size_t n) {
    if (!p) return;
    if (nkept == capkept) { capkept = capkept ? capkept * 2 : 256; kept = realloc(kept, capkept * sizeof(*kept)); }
    kept[nkept].p = p; kept[nkept].n = n; kept[nkept].dup = malloc(n ? n : 1); memcpy(kept[nkept].dup, p, n); nkept++;
    if (nkept > 4096) {      /* bound the memory: release the oldest half after checking it */
        size_t h = nkept / 2;
        for (size_t i = 0; i < h; i++) { if (memcmp(kept[i].p, kept[i].dup, kept[i].n)) abort(); vf_free(kept[i].p); free(kept[i].dup); }
        memmove(kept, kept + h, (nkept - h) * sizeof(*kept)); nkept -= h;
    }
}

static long check_kept(void) {
    long bad = 0;
    for (size_t i = 0; i < nkept; i++) {
        if (memcmp(kept[i].p, kept[i].dup, kept[i].n)) bad++;
        vf_free(kept[i].p); free(kept[i].dup);
    }
    nkept = 0;
    return bad;
}

/* blocks the library currently owns (the kept copies are the caller's) */
static long live_blocks(void) { return aw_live - (long) nkept; }

/* the caller's buffer is overwritten and released right after the call that was given it */
static void scribble_free(bytes_t *a) {
    if (a->p) { memset(a->p, 0xAA, a->n); free(a->p); a->p = NULL; }
}

/* ---- the errno the CALLER brings in. Before every library call the harness plants the next value
 * of a fixed cycle (deterministic: the n-th library call of a run always sees the same value), so
 * that a result or a state that depends on a stale errno shows. Where errno is read after a failed
 * call the library must have set it itself. PLANT0() is used only where the API makes errno the
 * ONLY failure report of a call that also succeeds silently (popint/getint returning 0, the void
 * qvector_reverse): there the documented protocol is that the caller clears errno first. */
static unsigned long plant_n;
static int plant_last;
static int plant_next(void) {
    static const int cycle[8] = {0, ENOMEM, ERANGE, EINTR, ENOENT, EINVAL, EAGAIN, ENOBUFS};
    plant_last = cycle[plant_n++ % 8];
    return plant_last;
}
static void plant_restart(unsigned long seed) { plant_n = seed; }
#define PLANT() (errno = plant_next())
#define PLANT0() (errno = 0, plant_last = 0)

#endif

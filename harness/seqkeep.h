/* C12 helper shared by harness/seq.c and harness/vector.c (include after allocwrap.h).
 * Every copy the library hands out (newmem accessors, pop, toarray, tostring) is kept together
 * with a private duplicate and re-compared when the container has been released: a retained
 * internal pointer would have been freed (ASan) or overwritten (bad > 0) by then. */
#ifndef VERIF_SEQKEEP_H
#define VERIF_SEQKEEP_H

typedef struct { void *p; void *dup; size_t n; } kept_t;
static kept_t *kept; static size_t nkept, capkept;

static void keep(void *p, size_t n) {
    if (!p) return;
    if (nkept == capkept) { capkept = capkept ? capkept * 2 : 256; kept = realloc(kept, capkept * sizeof(*kept)); }
    kept[nkept].p = p; kept[nkept].n = n; kept[nkept].dup = malloc(n ? n : 1); memcpy(kept[nkept].dup, p, n); nkept++;
    if (nkept > 4096) {      /* bound the memory: release the oldest half after checking it */
        size_t h = nkept / 2;
        for (size_t i = 0; i < h; i++) { if (memcmp(kept[i].p, kept[i].dup, kept[i].n)) abort(); vf_free(kept[i].p); free(kept[i].dup); }
        memmove(kept, kept + h, (nkept - h) * sizeof(*kept)); nkept -= h;
    }
}

static long check_kept(void) {
    long bad = 0;
    for (size_t i = 0; i < nkept; i++) {
        if (memcmp(kept[i].p, kept[i].dup, kept[i].n)) bad++;
        vf_free(kept[i].p); free(kept[i].dup);
    }
    nkept = 0;
    return bad;
}

/* blocks the library currently owns (the kept copies are the caller's) */
static long live_blocks(void) { return aw_live - (long) nkept; }

/* the caller's buffer is overwritten and released right after the call that was given it */
static void scribble_free(bytes_t *a) {
    if (a->p) { memset(a->p, 0xAA, a->n); free(a->p); a->p = NULL; }
}

#endif

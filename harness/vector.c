/* Correspondence harness for qvector.c (property C10).
 * One operation per input line, one result line per operation (see lean/Driver/Seq.lean).
 *
 *   new <max> <objsize> <options>   start a fresh vector (the previous one is freed)
 *
 * Result line:  <result of the call> sz=.. obs=[..] | num=.. max=.. objsize=.. opt=.. init=.. [..]
 * The part before `|` is what the public API returns (obs = content read back with getat(i,
 * newmem)); the part after it is the private state and the live slots of the buffer read through
 * the public struct, for the correspondence with the mechanism-level model only.
 * Element arguments must be exactly objsize bytes long (they are handed over in exactly sized
 * malloc blocks, so that reading more than objsize bytes traps under ASan). */
#include "common.h"
#include "qlibc.h"

static qvector_t *V;
static size_t OS;           /* objsize given at construction: the size of the caller's elements */
static qvector_obj_t cur;

static void dump(void) {
    size_t sz = qvector_size(V);
    printf(" sz=%zu obs=[", sz);
    for (size_t i = 0; i < sz; i++) {
        void *d = qvector_getat(V, (int) i, true);
        if (i) printf(",");
        /* the caller knows elements to be OS bytes long */
        if (d == NULL) printf("null");
        else if (V->objsize >= OS) puthex(stdout, d, OS);
        else { puthex(stdout, d, V->objsize); printf("+short"); }
        free(d);
    }
    printf("] | num=%zu max=%zu objsize=%zu opt=%d init=%zu [", V->num, V->max, V->objsize, V->options, V->initnum);
    for (size_t i = 0; i < V->num; i++) {
        if (i) printf(",");
        puthex(stdout, (unsigned char *) V->data + i * V->objsize, V->objsize);
    }
    printf("]");
}

static void res_bool(bool b, int e) {
    if (b) printf("true"); else printf("false %s", errname(e));
}

static void res_data(void *d, int e, bool own) {
    if (d == NULL) { printf("null %s", errname(e)); return; }
    printf("data ");
    if (V->objsize >= OS) puthex(stdout, d, OS);
    else { puthex(stdout, d, V->objsize); printf("+short"); }
    if (own) free(d);
}

/* element argument: exactly objsize bytes */
static bool elem(const char *w, bytes_t *a) {
    if (!unhex(w, a)) return false;
    if (a->n != OS) { free(a->p); return false; }
    return true;
}

static int do_op(int nw, char **w) {
    const char *op = w[0];
    bytes_t a = {0, 0};
    errno = 0;
    if ((!strcmp(op, "addfirst") || !strcmp(op, "addlast")) && nw == 2) {
        if (!elem(w[1], &a)) return 0;
        errno = 0;
        bool r = op[3] == 'f' ? qvector_addfirst(V, a.p) : qvector_addlast(V, a.p);
        int e = errno; res_bool(r, e); free(a.p);
    } else if (!strcmp(op, "addat") && nw == 3) {
        if (!elem(w[2], &a)) return 0;
        errno = 0;
        bool r = qvector_addat(V, atoi(w[1]), a.p);
        int e = errno; res_bool(r, e); free(a.p);
    } else if (!strcmp(op, "addnull") && nw == 2) {
        bool r = qvector_addat(V, atoi(w[1]), NULL);
        int e = errno; res_bool(r, e);
    } else if (!strcmp(op, "getfirst") && nw == 2) {
        bool nm = atoi(w[1]);
        void *d = qvector_getfirst(V, nm); int e = errno; res_data(d, e, nm);
    } else if (!strcmp(op, "getlast") && nw == 2) {
        bool nm = atoi(w[1]);
        void *d = qvector_getlast(V, nm); int e = errno; res_data(d, e, nm);
    } else if (!strcmp(op, "getat") && nw == 3) {
        bool nm = atoi(w[2]);
        void *d = qvector_getat(V, atoi(w[1]), nm); int e = errno; res_data(d, e, nm);
    } else if ((!strcmp(op, "setfirst") || !strcmp(op, "setlast")) && nw == 2) {
        if (!elem(w[1], &a)) return 0;
        errno = 0;
        bool r = op[3] == 'f' ? qvector_setfirst(V, a.p) : qvector_setlast(V, a.p);
        int e = errno; res_bool(r, e); free(a.p);
    } else if (!strcmp(op, "setat") && nw == 3) {
        if (!elem(w[2], &a)) return 0;
        errno = 0;
        bool r = qvector_setat(V, atoi(w[1]), a.p);
        int e = errno; res_bool(r, e); free(a.p);
    } else if (!strcmp(op, "popfirst") && nw == 1) {
        void *d = qvector_popfirst(V); int e = errno; res_data(d, e, true);
    } else if (!strcmp(op, "poplast") && nw == 1) {
        void *d = qvector_poplast(V); int e = errno; res_data(d, e, true);
    } else if (!strcmp(op, "popat") && nw == 2) {
        void *d = qvector_popat(V, atoi(w[1])); int e = errno; res_data(d, e, true);
    } else if (!strcmp(op, "removefirst") && nw == 1) {
        bool r = qvector_removefirst(V); int e = errno; res_bool(r, e);
    } else if (!strcmp(op, "removelast") && nw == 1) {
        bool r = qvector_removelast(V); int e = errno; res_bool(r, e);
    } else if (!strcmp(op, "removeat") && nw == 2) {
        bool r = qvector_removeat(V, atoi(w[1])); int e = errno; res_bool(r, e);
    } else if (!strcmp(op, "size") && nw == 1) {
        printf("n %zu", qvector_size(V));
    } else if (!strcmp(op, "resize") && nw == 2) {
        bool r = qvector_resize(V, strtoull(w[1], NULL, 10)); int e = errno; res_bool(r, e);
    } else if (!strcmp(op, "reverse") && nw == 1) {
        qvector_reverse(V); printf("ok");
    } else if (!strcmp(op, "clear") && nw == 1) {
        qvector_clear(V); printf("ok");
    } else if (!strcmp(op, "toarray") && nw == 1) {
        size_t sz = 7777;
        void *d = qvector_toarray(V, &sz); int e = errno;
        if (d == NULL) printf("null %s", errname(e));
        else { printf("data "); puthex(stdout, d, sz * V->objsize); free(d); }
        printf(" size=%zu", sz);
    } else if (!strcmp(op, "walk") && nw == 2) {
        bool nm = atoi(w[1]);
        qvector_obj_t o; memset(&o, 0, sizeof(o));
        printf("walk");
        size_t guard = V->num + 4;
        errno = 0;
        while (qvector_getnext(V, &o, nm)) {
            printf(" "); puthex(stdout, o.data, V->objsize);
            if (nm) free(o.data);
            errno = 0;
            if (guard-- == 0) { printf(" ENDLESS"); break; }
        }
        printf(" end %s", errname(errno));
    } else if (!strcmp(op, "reset") && nw == 1) {
        memset(&cur, 0, sizeof(cur)); printf("ok");
    } else if (!strcmp(op, "next") && nw == 2) {
        bool nm = atoi(w[1]);
        bool r = qvector_getnext(V, &cur, nm); int e = errno;
        if (r) { printf("data "); puthex(stdout, cur.data, V->objsize); if (nm) free(cur.data); }
        else printf("false %s", errname(e));
        printf(" idx=%d", cur.index);
    } else {
        return 0;
    }
    return 1;
}

int main(void) {
    char *line = NULL; size_t cap = 0; ssize_t len;
    setvbuf(stdout, NULL, _IOFBF, 1 << 16);
    while ((len = getline(&line, &cap, stdin)) > 0) {
        char *w[MAXW]; int nw = split_words(line, w);
        if (nw == 0) continue;
        int done = 0;
        if (!strcmp(w[0], "new") && nw == 4) {
            if (V) qvector_free(V);
            memset(&cur, 0, sizeof(cur));
            OS = strtoull(w[2], NULL, 10);
            errno = 0;
            V = qvector(strtoull(w[1], NULL, 10), OS, atoi(w[3]));
            if (V == NULL) { printf("null %s\n", errname(errno)); fflush(stdout); continue; }
            printf("ok"); done = 1;
        } else if (V != NULL) done = do_op(nw, w);
        if (!done) { printf("bad-op\n"); fflush(stdout); continue; }
        dump();
        printf("\n");
        fflush(stdout);     /* a sanitizer abort must not lose the lines of the operations before it */
    }
    free(line);
    if (V) qvector_free(V);
    return 0;
}

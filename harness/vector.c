/* Correspondence harness for qvector.c (property C10, and the vector part of C11 / C12 / C15).
 * Linked against libqw.a: the library's allocator calls go through harness/allocwrap.h.
 * One operation per input line, one result line per operation (see lean/Driver/Seq.lean).
 *
 *   new <max> <objsize> <options>   start a fresh vector (the previous one is freed);
 *                                   bit 1 of options = QVECTOR_THREADSAFE
 *   fault k | faultfrom k           fail the k-th allocation (all from the k-th on) of the next
 *                                   windowed call
 *   end                             free the vector, re-check the kept copies:
 *                                   `end live=<blocks still allocated> bad=<changed copies>`
 *
 * Result line:  [allocs=<n>] <result of the call> sz=.. obs=[..] | live=.. num=.. max=.. objsize=.. opt=.. init=.. [..]
 * `allocs=` = allocation attempts inside the call (windowed calls only). The part before `|` is
 * what the public API returns (obs = content read back with getat(i, newmem)); the part after it
 * is the private state, the number of blocks the library owns and the live slots of the buffer
 * read through the public struct, for the correspondence with the mechanism-level model (the C11
 * oracle reads live= and max=).
 * Element arguments must be exactly objsize bytes long (they are handed over in exactly sized
 * malloc blocks, so that reading more than objsize bytes traps under ASan); they are overwritten
 * and freed right after the call. Every copy the library hands out is kept with a private
 * duplicate until the vector is gone (harness/seqkeep.h). */
#include "common.h"
#include "allocwrap.h"
#include "seqkeep.h"
#include "qlibc.h"

/* C15/C11: `fault k` / `faultfrom k` arm an allocation failure for the next WINDOWED library
 * call (every call whose result line starts with `allocs=<n> `, the number of allocation
 * attempts the library made inside that call); `live=<n>` in the private part of every result
 * line is the number of blocks the library owns; `end` releases the vector and the kept copies
 * and prints `end live=<n> bad=<n>`. Bit 1 of <options> is QVECTOR_THREADSAFE. */
static int E;       /* errno of the windowed call */
static long A;      /* allocation attempts of the windowed call */
#define WIN(stmt) do { PLANT(); aw_begin(); stmt; E = errno; A = aw_end(); printf("allocs=%ld ", A); } while (0)
/* errno is the call's only failure report: the caller clears it first (see seqkeep.h) */
#define WIN0(stmt) do { PLANT0(); aw_begin(); stmt; E = errno; A = aw_end(); printf("allocs=%ld ", A); } while (0)

static qvector_t *V;
static size_t OS;           /* objsize given at construction: the size of the caller's elements */
static qvector_obj_t cur;

static void dump(void) {
    size_t sz = qvector_size(V);
    printf(" sz=%zu obs=[", sz);
    for (size_t i = 0; i < sz; i++) {
        PLANT();
        void *d = qvector_getat(V, (int) i, true);
        if (i) printf(",");
        /* the caller knows elements to be OS bytes long */
        if (d == NULL) printf("null");
        else if (V->objsize >= OS) puthex(stdout, d, OS);
        else { puthex(stdout, d, V->objsize); printf("+short"); }
        vf_free(d);
    }
    printf("] | live=%ld num=%zu max=%zu objsize=%zu opt=%d init=%zu [", live_blocks(), V->num, V->max, V->objsize, V->options, V->initnum);
    for (size_t i = 0; i < V->num; i++) {
        if (i) printf(",");
        puthex(stdout, (unsigned char *) V->data + i * V->objsize, V->objsize);
    }
    printf("]");
}

static void res_bool(bool b, int e) {
    if (b) printf("true"); else printf("false %s", errname(e));
}

static void res_data(void *d, int e, bool own) {
    if (d == NULL) { printf("null %s", errname(e)); return; }
    printf("data ");
    if (V->objsize >= OS) puthex(stdout, d, OS);
    else { puthex(stdout, d, V->objsize); printf("+short"); }
    if (own) keep(d, V->objsize);
}

/* element argument: exactly objsize bytes */
static bool elem(const char *w, bytes_t *a) {
    if (!unhex(w, a)) return false;
    if (a->n != OS) { free(a->p); return false; }
    return true;
}

/* ---- `huge <count> <objsize>` (thorough tier only, no model line): self-checking pass over a
 * vector whose byte size exceeds 2^31. The harness fills a vector with <count> elements whose
 * bytes are a function of an id, mirrors addfirst / addat(k) / addat(-k) / removefirst /
 * removeat(k) / popat(k) on a plain id array of its own and after EVERY step walks the whole
 * vector with getnext, comparing every element with the function. Prints `ok` or the first
 * mismatch. */
static void hg_gen(uint32_t id, unsigned char *buf, size_t os) {
    uint64_t x = ((uint64_t) id + 1) * 0x9E3779B97F4A7C15ULL;
    size_t w = 0;
    for (; w + 8 <= os; w += 8) { uint64_t v = x ^ (w * 0x100000001B3ULL); memcpy(buf + w, &v, 8); }
    for (; w < os; w++) buf[w] = (unsigned char) ((x >> ((w & 7) * 8)) ^ w);
}
static int hg_verify(qvector_t *v, const uint32_t *ids, size_t n, size_t os, unsigned char *tmp, const char *step) {
    if (qvector_size(v) != n) { printf("mismatch after %s: size %zu, expected %zu", step, qvector_size(v), n); return 0; }
    qvector_obj_t o; memset(&o, 0, sizeof(o));
    size_t i = 0;
    while (qvector_getnext(v, &o, false)) {
        if (i >= n) { printf("mismatch after %s: walk longer than %zu", step, n); return 0; }
        hg_gen(ids[i], tmp, os);
        if (memcmp(o.data, tmp, os) != 0) { printf("mismatch after %s: element %zu of %zu is not the expected one", step, i, n); return 0; }
        i++;
    }
    if (i != n) { printf("mismatch after %s: walk ended after %zu of %zu", step, i, n); return 0; }
    /* spot checks through getat from both ends */
    size_t probes[6] = {0, 1, n / 2, n - 2, n - 1, n / 3};
    for (int k = 0; k < 6; k++) {
        size_t p = probes[k]; if (p >= n) continue;
        void *d = qvector_getat(v, (int) p, false);
        hg_gen(ids[p], tmp, os);
        if (d == NULL || memcmp(d, tmp, os) != 0) { printf("mismatch after %s: getat(%zu)", step, p); return 0; }
        d = qvector_getat(v, (int) p - (int) n, false);
        if (d == NULL || memcmp(d, tmp, os) != 0) { printf("mismatch after %s: getat(%zu - n)", step, p); return 0; }
    }
    return 1;
}
static void hg_ins(uint32_t *ids, size_t *n, size_t pos, uint32_t id) {
    memmove(ids + pos + 1, ids + pos, (*n - pos) * sizeof(*ids)); ids[pos] = id; (*n)++;
}
static void hg_del(uint32_t *ids, size_t *n, size_t pos) {
    memmove(ids + pos, ids + pos + 1, (*n - pos - 1) * sizeof(*ids)); (*n)--;
}
static void do_huge(size_t count, size_t os, int opt, long cap) {
    if (count < 8 || count > 0x7ffffff0u || os == 0) { printf("bad-op"); return; }
    /* half of the final capacity first: the fill also goes through one big realloc (double policy) */
    qvector_t *v = qvector(cap < 0 ? count / 2 + 1 : (size_t) cap, os, opt);
    uint32_t *ids = malloc((count + 8) * sizeof(*ids));
    unsigned char *tmp = malloc(os), *el = malloc(os);
    size_t n = 0; uint32_t next = 0; int ok = 0;
    if (v == NULL || ids == NULL || tmp == NULL || el == NULL) { printf("no-memory"); goto out; }
    for (size_t i = 0; i < count; i++) {
        hg_gen(next, el, os);
        if (!qvector_addlast(v, el)) { printf("mismatch: addlast #%zu failed (%s)", i, errname(errno)); goto out; }
        ids[n++] = next++;
    }
    if (!hg_verify(v, ids, n, os, tmp, "fill")) goto out;
    size_t k = count / 3;
    hg_gen(next, el, os);
    if (!qvector_addfirst(v, el)) { printf("mismatch: addfirst failed"); goto out; }
    hg_ins(ids, &n, 0, next++);
    if (!hg_verify(v, ids, n, os, tmp, "addfirst")) goto out;
    hg_gen(next, el, os);
    if (!qvector_addat(v, (int) k, el)) { printf("mismatch: addat(k) failed"); goto out; }
    hg_ins(ids, &n, k, next++);
    if (!hg_verify(v, ids, n, os, tmp, "addat(k)")) goto out;
    hg_gen(next, el, os);
    if (!qvector_addat(v, -(int) k, el)) { printf("mismatch: addat(-k) failed"); goto out; }
    hg_ins(ids, &n, n - k, next++);
    if (!hg_verify(v, ids, n, os, tmp, "addat(-k)")) goto out;
    if (!qvector_removefirst(v)) { printf("mismatch: removefirst failed"); goto out; }
    hg_del(ids, &n, 0);
    if (!hg_verify(v, ids, n, os, tmp, "removefirst")) goto out;
    if (!qvector_removeat(v, (int) k)) { printf("mismatch: removeat(k) failed"); goto out; }
    hg_del(ids, &n, k);
    if (!hg_verify(v, ids, n, os, tmp, "removeat(k)")) goto out;
    {
        void *d = qvector_popat(v, 1);
        hg_gen(ids[1], tmp, os);
        if (d == NULL || memcmp(d, tmp, os) != 0) { printf("mismatch: popat(1) returned the wrong element"); vf_free(d); goto out; }
        vf_free(d);
        hg_del(ids, &n, 1);
        if (!hg_verify(v, ids, n, os, tmp, "popat(1)")) goto out;
        d = qvector_popat(v, -2);
        hg_gen(ids[n - 2], tmp, os);
        if (d == NULL || memcmp(d, tmp, os) != 0) { printf("mismatch: popat(-2) returned the wrong element"); vf_free(d); goto out; }
        vf_free(d);
        hg_del(ids, &n, n - 2);
        if (!hg_verify(v, ids, n, os, tmp, "popat(-2)")) goto out;
    }
    qvector_reverse(v);
    for (size_t i = 0, j = n - 1; i < j; i++, j--) { uint32_t t = ids[i]; ids[i] = ids[j]; ids[j] = t; }
    if (!hg_verify(v, ids, n, os, tmp, "reverse")) goto out;
    ok = 1;
out:
    if (v) qvector_free(v);
    free(ids); free(tmp); free(el);
    if (ok) printf("ok live=%ld", live_blocks());
}


/* ---- `inv`: every documented-invalid call (and the calls with the optional out-pointer left
 * NULL, and a resize to the current capacity) on the current state, `name=result:errno` per call;
 * nothing may change. Not a windowed call (an armed failure stays armed and cannot fire here). */
static const char *ename(int e) { return e == EIO ? "EIO" : errname(e); }
/* errno is read after a FAILED call only (a successful call may leave any value behind) */
static void iv_bool(const char *name, bool r) { int e = errno; printf(" %s=%s:%s", name, r ? "true" : "false", r ? "0" : ename(e)); }
static void iv_data(const char *name, void *d, size_t n, bool own) {
    int e = errno;
    printf(" %s=", name);
    if (d == NULL) printf("null"); else { printf("data"); puthex(stdout, d, n); }
    printf(":%s", d != NULL ? "0" : ename(e));
    if (d != NULL && own) vf_free(d);
}
#define IVB(name, call) do { PLANT(); bool r_ = (call); iv_bool(name, r_); } while (0)
/* a refusal for which no errno is documented: `kept` when the caller's errno is still there */
#define IVK(name, call) do { PLANT(); bool r_ = (call); int e_ = errno; printf(" %s=%s:%s", name, r_ ? "true" : "false", r_ ? "0" : e_ == plant_last ? "kept" : ename(e_)); } while (0)

static void inv_vector(void) {
    unsigned char *x = calloc(1, OS ? OS : 1);      /* exactly objsize bytes */
    int n = (int) V->num;
    printf("inv");
    IVB("addnull", qvector_addat(V, 0, NULL));
    IVB("addfirstnull", qvector_addfirst(V, NULL));
    IVB("addlastnull", qvector_addlast(V, NULL));
    IVB("addabove", qvector_addat(V, n + 1, x));
    IVB("addbelow", qvector_addat(V, -n - 1, x));
    PLANT(); { void *d = qvector_getat(V, n, true); iv_data("getabove", d, V->objsize, true); }
    PLANT(); { void *d = qvector_getat(V, -n - 1, false); iv_data("getbelow", d, V->objsize, false); }
    IVB("setabove", qvector_setat(V, n, x));
    IVB("setbelow", qvector_setat(V, -n - 1, x));
    PLANT(); { void *d = qvector_popat(V, n); iv_data("popabove", d, V->objsize, true); }
    PLANT(); { void *d = qvector_popat(V, -n - 1); iv_data("popbelow", d, V->objsize, true); }
    IVB("removeabove", qvector_removeat(V, n));
    IVB("removebelow", qvector_removeat(V, -n - 1));
    IVK("nextnull0", qvector_getnext(V, NULL, false));
    IVK("nextnull1", qvector_getnext(V, NULL, true));
    IVB("debugnull", qvector_debug(V, NULL));
    PLANT(); { size_t ts = V->num * V->objsize; void *d = qvector_toarray(V, NULL); iv_data("toarraynosize", d, ts, true); }
    IVB("resizesame", qvector_resize(V, V->max));
    free(x);
}


/* ---- `lockprobe` (THREADSAFE containers): lock(); a nested public call (it takes the lock again,
 * qvector's addlast three levels deep); ANOTHER thread tries the container's mutex: it must be
 * busy (the outer lock() is still in force); unlock(); the other thread tries again: free.
 * Prints `lockprobe <result of the nested call> held=<0|1> after=<0|1>`; `nolock` for a container
 * without a mutex. Not a windowed call. */
#include <pthread.h>
#include "qinternal.h"
static void *probe_thread(void *m) {
    pthread_mutex_t *mx = &((qmutex_t *) m)->mutex;
    int r = pthread_mutex_trylock(mx);
    if (r == 0) pthread_mutex_unlock(mx);
    return (void *) (intptr_t) (r != 0);          /* 1 = busy */
}
static int probe_busy(void *qmutex) {
    pthread_t t; void *res = NULL;
    if (pthread_create(&t, NULL, probe_thread, qmutex) != 0) return -1;
    pthread_join(t, &res);
    return (int) (intptr_t) res;
}

static void do_lockprobe(void) {
    unsigned char *x = calloc(1, OS ? OS : 1);
    memset(x, 0x4c, OS);
    printf("lockprobe ");
    if (V->qmutex == NULL) {
        PLANT(); bool r = qvector_addlast(V, x); int e = errno;
        res_bool(r, e); printf(" nolock");
    } else {
        V->lock(V);
        PLANT(); bool r = qvector_addlast(V, x); int e = errno;       /* addlast -> addat -> resize */
        int held = probe_busy(V->qmutex);
        V->unlock(V);
        int after = probe_busy(V->qmutex);
        res_bool(r, e); printf(" held=%d after=%d", held, after);
    }
    free(x);
}

static int do_op(int nw, char **w) {
    const char *op = w[0];
    bytes_t a = {0, 0};
    PLANT();
    if ((!strcmp(op, "addfirst") || !strcmp(op, "addlast")) && nw == 2) {
        if (!elem(w[1], &a)) return 0;
        bool r; WIN(r = op[3] == 'f' ? qvector_addfirst(V, a.p) : qvector_addlast(V, a.p));
        scribble_free(&a); res_bool(r, E);
    } else if (!strcmp(op, "addat") && nw == 3) {
        if (!elem(w[2], &a)) return 0;
        bool r; WIN(r = qvector_addat(V, atoi(w[1]), a.p));
        scribble_free(&a); res_bool(r, E);
    } else if (!strcmp(op, "addnull") && nw == 2) {
        bool r; WIN(r = qvector_addat(V, atoi(w[1]), NULL)); res_bool(r, E);
    } else if (!strcmp(op, "getfirst") && nw == 2) {
        bool nm = atoi(w[1]);
        void *d; WIN(d = qvector_getfirst(V, nm)); res_data(d, E, nm);
    } else if (!strcmp(op, "getlast") && nw == 2) {
        bool nm = atoi(w[1]);
        void *d; WIN(d = qvector_getlast(V, nm)); res_data(d, E, nm);
    } else if (!strcmp(op, "getat") && nw == 3) {
        bool nm = atoi(w[2]);
        void *d; WIN(d = qvector_getat(V, atoi(w[1]), nm)); res_data(d, E, nm);
    } else if ((!strcmp(op, "setfirst") || !strcmp(op, "setlast")) && nw == 2) {
        if (!elem(w[1], &a)) return 0;
        bool r; WIN(r = op[3] == 'f' ? qvector_setfirst(V, a.p) : qvector_setlast(V, a.p));
        scribble_free(&a); res_bool(r, E);
    } else if (!strcmp(op, "setat") && nw == 3) {
        if (!elem(w[2], &a)) return 0;
        bool r; WIN(r = qvector_setat(V, atoi(w[1]), a.p));
        scribble_free(&a); res_bool(r, E);
    } else if (!strcmp(op, "popfirst") && nw == 1) {
        void *d; WIN(d = qvector_popfirst(V)); res_data(d, E, true);
    } else if (!strcmp(op, "poplast") && nw == 1) {
        void *d; WIN(d = qvector_poplast(V)); res_data(d, E, true);
    } else if (!strcmp(op, "popat") && nw == 2) {
        void *d; WIN(d = qvector_popat(V, atoi(w[1]))); res_data(d, E, true);
    } else if (!strcmp(op, "removefirst") && nw == 1) {
        bool r; WIN(r = qvector_removefirst(V)); res_bool(r, E);
    } else if (!strcmp(op, "removelast") && nw == 1) {
        bool r; WIN(r = qvector_removelast(V)); res_bool(r, E);
    } else if (!strcmp(op, "removeat") && nw == 2) {
        bool r; WIN(r = qvector_removeat(V, atoi(w[1]))); res_bool(r, E);
    } else if (!strcmp(op, "size") && nw == 1) {
        printf("n %zu", qvector_size(V));
    } else if (!strcmp(op, "resize") && nw == 2) {
        bool r; WIN(r = qvector_resize(V, strtoull(w[1], NULL, 10))); res_bool(r, E);
    } else if (!strcmp(op, "reverse") && nw == 1) {
        /* void function: an allocation failure is visible in errno only */
        WIN0(qvector_reverse(V)); printf(E == ENOMEM ? "ENOMEM" : "ok");
    } else if (!strcmp(op, "clear") && nw == 1) {
        WIN(qvector_clear(V)); printf("ok");
    } else if (!strcmp(op, "toarray") && nw == 1) {
        size_t sz = 7777;
        void *d; WIN(d = qvector_toarray(V, &sz));
        if (d == NULL) printf("null %s", errname(E));
        else { printf("data "); puthex(stdout, d, sz * V->objsize); keep(d, sz * V->objsize); }
        printf(" size=%zu", sz);
    } else if (!strcmp(op, "walk") && nw == 2) {
        /* not a windowed call (many library calls): an armed failure stays armed */
        bool nm = atoi(w[1]);
        qvector_obj_t o; memset(&o, 0, sizeof(o));
        printf("walk");
        size_t guard = V->num + 4;
        PLANT();
        while (qvector_getnext(V, &o, nm)) {
            printf(" "); puthex(stdout, o.data, V->objsize);
            if (nm) keep(o.data, V->objsize);
            PLANT();
            if (guard-- == 0) { printf(" ENDLESS"); break; }
        }
        printf(" end %s", errname(errno));
    } else if (!strcmp(op, "inv") && nw == 1) {
        inv_vector();
    } else if (!strcmp(op, "lockprobe") && nw == 1) {
        do_lockprobe();
    } else if (!strcmp(op, "reset") && nw == 1) {
        memset(&cur, 0, sizeof(cur)); printf("ok");
    } else if (!strcmp(op, "next") && nw == 2) {
        bool nm = atoi(w[1]);
        bool r; WIN(r = qvector_getnext(V, &cur, nm));
        if (r) { printf("data "); puthex(stdout, cur.data, V->objsize); if (nm) keep(cur.data, V->objsize); }
        else printf("false %s", errname(E));
        printf(" idx=%d", cur.index);
    } else {
        return 0;
    }
    return 1;
}

int main(void) {
    char *line = NULL; size_t cap = 0; ssize_t len;
    harness_init();
    while ((len = getline(&line, &cap, stdin)) > 0) {
        char *w[MAXW]; int nw = split_words(line, w);
        if (nw == 0) continue;
        int done = 0;
        if ((!strcmp(w[0], "fault") || !strcmp(w[0], "faultfrom")) && nw == 2) {
            aw_arm(atol(w[1]), w[0][5] == 'f');
            printf("ok\n"); fflush(stdout); continue;
        }
        if (!strcmp(w[0], "end") && nw == 1) {
            if (V) qvector_free(V);
            V = NULL;
            long bad = check_kept();
            printf("end live=%ld bad=%ld\n", aw_live, bad); fflush(stdout); continue;
        }
        if (!strcmp(w[0], "huge") && (nw == 3 || nw == 5)) {   /* huge <count> <objsize> [<options> <capacity>] */
            if (V) qvector_free(V);
            V = NULL;
            do_huge(strtoull(w[1], NULL, 10), strtoull(w[2], NULL, 10), nw == 5 ? atoi(w[3]) : QVECTOR_RESIZE_DOUBLE,
                    nw == 5 ? atol(w[4]) : -1);
            printf("\n"); fflush(stdout); continue;
        }
        if (!strcmp(w[0], "new") && nw == 4) {
            if (V) qvector_free(V);
            long bad = check_kept();
            memset(&cur, 0, sizeof(cur));
            OS = strtoull(w[2], NULL, 10);
            plant_restart(strtoull(w[1], NULL, 10) * 3 + OS * 5 + (unsigned long) atoi(w[3]));
            WIN(V = qvector(strtoull(w[1], NULL, 10), OS, atoi(w[3])));
            if (bad) printf("KEPT-BAD=%ld ", bad);
            if (V == NULL) { printf("null %s live=%ld\n", errname(E), live_blocks()); fflush(stdout); continue; }
            printf("ok"); done = 1;
        } else if (V != NULL) done = do_op(nw, w);
        if (!done) { printf("bad-op\n"); fflush(stdout); continue; }
        dump();
        printf("\n");
        fflush(stdout);     /* a sanitizer abort must not lose the lines of the operations before it */
    }
    free(line);
    if (V) qvector_free(V);
    check_kept(); free(kept);
    return 0;
}

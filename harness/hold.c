/* Long-hold scenario (C13 + C14): what happens when a thread keeps the container lock longer than a
 * waiter's patience (MAX_MUTEX_LOCK_WAIT polls of Q_MUTEX_ENTER, then the "force to unlock" branch)?
 *
 *   T0 (main)  lock(); walk1 = locked walk; start T1; HOLD until T1 has gone through <rounds> forced
 *              unlock attempts (observed through the wrapped pthread_mutex_unlock: EPERM results of
 *              T1) + a settle time; walk2 = locked walk; unlock()
 *   T1         one mutating call (addlast / put) on the same container; it must block while T0 holds
 *   then       T1's call must complete; T0's lock depth (successful trylock/lock minus successful
 *              unlock calls of T0) must be back to 0; a probe thread must lock/unlock within a
 *              bounded number of polls; walk1 = walk2 (T1's update not visible during the hold);
 *              final content = walk1 + T1's element.
 *
 * mode=nested  (nested locking under observation): T0: lock(); one locking public call (tree:
 *              putstr + find_nearest, list/vector: addlast, queue: pushstr, hashtbl/listtbl: putstr);
 *              walk1 (getnext calls, themselves locking except for the tree); start T1 and wait until it
 *              has failed <polls> trylocks -- it must NOT get in; more (copying get) calls; walk2;
 *              unlock(); T1 must get in now; probe.  `nested_delta` = change of T0's REAL lock depth
 *              (wrapped pthread calls) across the nested public calls: must be 0.
 * mode=contend (short contention): T0 holds the lock only until T1's first <polls> trylocks have
 *              failed (a few ms, far below the time-out), unlocks; T1 completes; T1's real depth must be
 *              0 and a THIRD thread must get in.
 *
 * Nothing is slept by a fixed amount: the hold ends on the observed event (or a cap), so the scenario
 * does not depend on the speed of usleep(1).  One scenario per input line:
 *     hold kind=<vector|list|queue|hashtbl|listtbl|treetbl> init=<n> [mode=long|nested|contend] rounds=<r>
 *          [polls=<n>] [cap_ms=<ms>]
 * result:
 *     forced=<n> polls=<n> hold_ms=<ms> t1_done_in_hold=<0|1> walk1=<..> walk2=<..> t0_depth=<d>
 *     t1_completed=<0|1> t1_ret=<r> t1_depth=<d> probe=<ok|blocked> final=<..>
 * Linked with -Wl,--wrap=pthread_mutex_trylock,--wrap=pthread_mutex_unlock,--wrap=pthread_mutex_lock,
 * --wrap=pthread_mutex_timedlock.
 */
#include "common.h"
#include <pthread.h>
#include <time.h>
#include "qlibc.h"

int __real_pthread_mutex_trylock(pthread_mutex_t *m);
int __real_pthread_mutex_lock(pthread_mutex_t *m);
int __real_pthread_mutex_unlock(pthread_mutex_t *m);
int __real_pthread_mutex_timedlock(pthread_mutex_t *m, const struct timespec *ts);

static __thread int tid = -1;                 /* 0 = T0 (main), 1 = T1, 2 = probe */
static volatile long ok_lock[3], ok_unlock[3], fail_try[3], fail_unlock[3];
static volatile int probe_blocked;
#define PROBE_LIMIT 3000

int __wrap_pthread_mutex_trylock(pthread_mutex_t *m) {
    int r = __real_pthread_mutex_trylock(m);
    if (tid >= 0) {
        if (r == 0) ok_lock[tid]++; else fail_try[tid]++;
        if (tid == 2 && r != 0 && fail_try[2] > PROBE_LIMIT) { probe_blocked = 1; pthread_exit(NULL); }
    }
    return r;
}
int __wrap_pthread_mutex_lock(pthread_mutex_t *m) {
    int r = __real_pthread_mutex_lock(m);
    if (tid >= 0 && r == 0) ok_lock[tid]++;
    return r;
}
int __wrap_pthread_mutex_timedlock(pthread_mutex_t *m, const struct timespec *ts) {
    int r = __real_pthread_mutex_timedlock(m, ts);
    if (tid >= 0) { if (r == 0) ok_lock[tid]++; else fail_try[tid]++; }
    return r;
}
int __wrap_pthread_mutex_unlock(pthread_mutex_t *m) {
    int r = __real_pthread_mutex_unlock(m);
    if (tid >= 0) { if (r == 0) ok_unlock[tid]++; else fail_unlock[tid]++; }
    return r;
}

static const char *kind;
static void *cont;
static volatile int t1_done;
static char t1_ret[32];

static double now_ms(void) {
    struct timespec ts; clock_gettime(CLOCK_MONOTONIC, &ts);
    return ts.tv_sec * 1e3 + ts.tv_nsec / 1e6;
}
static void nap_ms(int ms) { struct timespec ts = {ms / 1000, (ms % 1000) * 1000000L}; nanosleep(&ts, NULL); }

static void c_lock(void) {
    if (!strcmp(kind, "vector")) ((qvector_t *) cont)->lock(cont);
    else if (!strcmp(kind, "list")) ((qlist_t *) cont)->lock(cont);
    else if (!strcmp(kind, "queue")) { qlist_t *l = ((qqueue_t *) cont)->list; l->lock(l); }
    else if (!strcmp(kind, "hashtbl")) ((qhashtbl_t *) cont)->lock(cont);
    else if (!strcmp(kind, "listtbl")) ((qlisttbl_t *) cont)->lock(cont);
    else ((qtreetbl_t *) cont)->lock(cont);
}
static void c_unlock(void) {
    if (!strcmp(kind, "vector")) ((qvector_t *) cont)->unlock(cont);
    else if (!strcmp(kind, "list")) ((qlist_t *) cont)->unlock(cont);
    else if (!strcmp(kind, "queue")) { qlist_t *l = ((qqueue_t *) cont)->list; l->unlock(l); }
    else if (!strcmp(kind, "hashtbl")) ((qhashtbl_t *) cont)->unlock(cont);
    else if (!strcmp(kind, "listtbl")) ((qlisttbl_t *) cont)->unlock(cont);
    else ((qtreetbl_t *) cont)->unlock(cont);
}

/* a walk with the container's own cursor function (the documented lock(); while (getnext()); unlock()
 * protocol: the caller holds the lock) */
static void walk(char *out, size_t cap) {
    size_t o = 0; int cnt = 0;
    out[0] = 0;
    if (!strcmp(kind, "vector")) {
        qvector_t *v = cont; qvector_obj_t ob; memset(&ob, 0, sizeof(ob));
        o += snprintf(out + o, cap - o, "%zu", v->num);
        while (v->getnext(v, &ob, false) && cnt++ < 200 && o < cap - 16) o += snprintf(out + o, cap - o, ",%d", *(int32_t *) ob.data);
    } else if (!strcmp(kind, "list") || !strcmp(kind, "queue")) {
        qlist_t *l = !strcmp(kind, "list") ? cont : ((qqueue_t *) cont)->list;
        qlist_obj_t ob; memset(&ob, 0, sizeof(ob));
        o += snprintf(out + o, cap - o, "%zu", l->num);
        while (l->getnext(l, &ob, false) && cnt++ < 200 && o < cap - 32) o += snprintf(out + o, cap - o, ",%s", (char *) ob.data);
    } else if (!strcmp(kind, "hashtbl")) {
        qhashtbl_t *t = cont; qhashtbl_obj_t ob; memset(&ob, 0, sizeof(ob));
        o += snprintf(out + o, cap - o, "%zu", t->num);
        while (t->getnext(t, &ob, false) && cnt++ < 200 && o < cap - 48) o += snprintf(out + o, cap - o, ",%s=%s", ob.name, (char *) ob.data);
    } else if (!strcmp(kind, "listtbl")) {
        qlisttbl_t *t = cont; qlisttbl_obj_t ob; memset(&ob, 0, sizeof(ob));
        o += snprintf(out + o, cap - o, "%zu", t->num);
        while (t->getnext(t, &ob, NULL, false) && cnt++ < 200 && o < cap - 48) o += snprintf(out + o, cap - o, ",%s=%s", ob.name, (char *) ob.data);
    } else {
        qtreetbl_t *t = cont; qtreetbl_obj_t ob; memset(&ob, 0, sizeof(ob));
        o += snprintf(out + o, cap - o, "%zu", t->num);
        while (t->getnext(t, &ob, false) && cnt++ < 200 && o < cap - 48) o += snprintf(out + o, cap - o, ",%s=%s", (char *) ob.name, (char *) ob.data);
    }
}

static long depth0(void) { return ok_lock[0] - ok_unlock[0]; }
static long nested_delta;            /* largest |change of T0's real depth| across one nested public call */
#define NESTED(call) do { long _b = depth0(); call; long _d = depth0() - _b; if (_d < 0) _d = -_d; if (_d > nested_delta) nested_delta = _d; } while (0)

/* a locking (mutating) public call made by the lock holder */
static void nested_first(void) {
    if (!strcmp(kind, "vector")) { int32_t x = 555; NESTED(((qvector_t *) cont)->addlast(cont, &x)); }
    else if (!strcmp(kind, "list")) NESTED(((qlist_t *) cont)->addlast(cont, "v555", 5));
    else if (!strcmp(kind, "queue")) NESTED(((qqueue_t *) cont)->pushstr(cont, "v555"));
    else if (!strcmp(kind, "hashtbl")) NESTED(((qhashtbl_t *) cont)->putstr(cont, "k55", "v555"));
    else if (!strcmp(kind, "listtbl")) NESTED(((qlisttbl_t *) cont)->putstr(cont, "k55", "v555"));
    else {
        qtreetbl_t *t = cont;
        NESTED(t->putstr(t, "k55", "v555"));
        qtreetbl_obj_t o; NESTED(o = t->find_nearest(t, "k00", 4, false)); (void) o;
    }
}
/* more locking calls that do not change the content (copying gets) */
static void nested_more(void) {
    void *p = NULL;
    if (!strcmp(kind, "vector")) NESTED(p = ((qvector_t *) cont)->getat(cont, 0, true));
    else if (!strcmp(kind, "list")) NESTED(p = ((qlist_t *) cont)->getat(cont, 0, NULL, true));
    else if (!strcmp(kind, "queue")) NESTED(p = ((qqueue_t *) cont)->getstr(cont));
    else if (!strcmp(kind, "hashtbl")) NESTED(p = ((qhashtbl_t *) cont)->getstr(cont, "k55", true));
    else if (!strcmp(kind, "listtbl")) NESTED(p = ((qlisttbl_t *) cont)->getstr(cont, "k55", true));
    else { qtreetbl_t *t = cont; NESTED(p = t->getstr(t, "k55", true)); qtreetbl_obj_t o; NESTED(o = t->find_nearest(t, "k55", 4, false)); (void) o; }
    free(p);
}

static void *t1_main(void *arg) {
    (void) arg;
    tid = 1;
    bool r;
    if (!strcmp(kind, "vector")) { int32_t x = 777; r = ((qvector_t *) cont)->addlast(cont, &x); }
    else if (!strcmp(kind, "list")) r = ((qlist_t *) cont)->addlast(cont, "v777", 5);
    else if (!strcmp(kind, "queue")) r = ((qqueue_t *) cont)->pushstr(cont, "v777");
    else if (!strcmp(kind, "hashtbl")) r = ((qhashtbl_t *) cont)->putstr(cont, "k77", "v777");
    else if (!strcmp(kind, "listtbl")) r = ((qlisttbl_t *) cont)->putstr(cont, "k77", "v777");
    else r = ((qtreetbl_t *) cont)->putstr(cont, "k77", "v777");
    snprintf(t1_ret, sizeof(t1_ret), "%d", (int) r);
    t1_done = 1;
    return NULL;
}

static void *probe_main(void *arg) {
    (void) arg;
    tid = 2;
    c_lock(); c_unlock();
    return NULL;
}

int main(void) {
    char *line = NULL; size_t cap = 0;
    if (getline(&line, &cap, stdin) <= 0) return 2;
    char *w[MAXW]; int nw = split_words(line, w);
    int init = 2, rounds = 1, cap_ms = 6000, polls_target = 50;
    const char *mode = "long";
    kind = "list";
    for (int i = 1; i < nw; i++) {
        char *eq = strchr(w[i], '='); if (!eq) continue;
        *eq = 0; char *v = eq + 1;
        if (!strcmp(w[i], "kind")) kind = v;
        else if (!strcmp(w[i], "init")) init = atoi(v);
        else if (!strcmp(w[i], "rounds")) rounds = atoi(v);
        else if (!strcmp(w[i], "cap_ms")) cap_ms = atoi(v);
        else if (!strcmp(w[i], "mode")) mode = v;
        else if (!strcmp(w[i], "polls")) polls_target = atoi(v);
    }
    char kb[16], vb[16];
    if (!strcmp(kind, "vector")) { qvector_t *v = qvector(0, 4, QVECTOR_THREADSAFE | QVECTOR_RESIZE_DOUBLE); for (int i = 0; i < init; i++) { int32_t x = 100 + i; v->addlast(v, &x); } cont = v; }
    else if (!strcmp(kind, "list")) { qlist_t *l = qlist(QLIST_THREADSAFE); for (int i = 0; i < init; i++) { snprintf(vb, 16, "v%d", 100 + i); l->addlast(l, vb, strlen(vb) + 1); } cont = l; }
    else if (!strcmp(kind, "queue")) { qqueue_t *q = qqueue(QQUEUE_THREADSAFE); for (int i = 0; i < init; i++) { snprintf(vb, 16, "v%d", 100 + i); q->pushstr(q, vb); } cont = q; }
    else if (!strcmp(kind, "hashtbl")) { qhashtbl_t *t = qhashtbl(3, QHASHTBL_THREADSAFE); for (int i = 0; i < init; i++) { snprintf(kb, 16, "k%02d", i); snprintf(vb, 16, "v%d", 100 + i); t->putstr(t, kb, vb); } cont = t; }
    else if (!strcmp(kind, "listtbl")) { qlisttbl_t *t = qlisttbl(QLISTTBL_THREADSAFE); for (int i = 0; i < init; i++) { snprintf(kb, 16, "k%02d", i); snprintf(vb, 16, "v%d", 100 + i); t->putstr(t, kb, vb); } cont = t; }
    else if (!strcmp(kind, "treetbl")) { qtreetbl_t *t = qtreetbl(QTREETBL_THREADSAFE); for (int i = 0; i < init; i++) { snprintf(kb, 16, "k%02d", i); snprintf(vb, 16, "v%d", 100 + i); t->putstr(t, kb, vb); } cont = t; }
    else { printf("bad-kind\n"); return 0; }

    static char walk1[4096], walk2[4096], walk3[4096];
    int nested = !strcmp(mode, "nested"), contend = !strcmp(mode, "contend");
    tid = 0;
    c_lock();
    if (nested) nested_first();
    if (nested) { long b = depth0(); walk(walk1, sizeof(walk1)); long d = depth0() - b; if (d < 0) d = -d; if (d > nested_delta) nested_delta = d; }
    else walk(walk1, sizeof(walk1));
    pthread_t th1, thp;
    pthread_create(&th1, NULL, t1_main, NULL);
    double t0 = now_ms();
    if (nested || contend) {
        /* hold only until the other thread has demonstrably failed to get in <polls> times */
        while (fail_try[1] < polls_target && !t1_done && now_ms() - t0 < 400) nap_ms(1);
        if (nested) nested_more();
    } else {
        /* hold until the waiter has made <rounds> forced unlock attempts (or finished, or the cap) ... */
        while (fail_unlock[1] < rounds && !t1_done && now_ms() - t0 < (double) cap_ms * rounds) nap_ms(2);
        /* ... and give it time to act on the last one */
        for (int i = 0; i < 40 && !t1_done; i++) nap_ms(2);
    }
    int done_in_hold = t1_done;
    long forced = fail_unlock[1], polls = fail_try[1];
    double hold = now_ms() - t0;
    walk(walk2, sizeof(walk2));
    c_unlock();
    long t0_depth = ok_lock[0] - ok_unlock[0];
    /* T1 must now get through: at worst it has just started a new round of polls */
    double t1 = now_ms();
    while (!t1_done && now_ms() - t1 < 3000) nap_ms(2);
    int completed = t1_done;
    long t1_depth = ok_lock[1] - ok_unlock[1];
    pthread_create(&thp, NULL, probe_main, NULL);
    pthread_join(thp, NULL);
    /* final content by T0 (it can re-enter even if it still owns the mutex); not when somebody else is
     * known to sit on the mutex for ever: the walk's own lock() would never return */
    if (probe_blocked && t0_depth == 0) snprintf(walk3, sizeof(walk3), "-");
    else walk(walk3, sizeof(walk3));
    printf("mode=%s nested_delta=%ld forced=%ld polls=%ld hold_ms=%.0f t1_done_in_hold=%d walk1=%s walk2=%s t0_depth=%ld t1_completed=%d t1_ret=%s "
           "t1_depth=%ld probe=%s final=%s\n", mode, nested_delta, forced, polls, hold, done_in_hold, walk1, walk2, t0_depth, completed,
           completed ? t1_ret : "-", t1_depth, probe_blocked ? "blocked" : "ok", walk3);
    fflush(stdout);
    _exit(0);                        /* T1 may be stuck for ever: do not join, do not run destructors */
}

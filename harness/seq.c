/* Correspondence harness for qlist.c / qqueue.c / qstack.c / qgrow.c (property C09).
 * One operation per input line, one result line per operation (see lean/Driver/Seq.lean).
 *
 *   new list|queue|stack|grow      start a fresh container (the previous one is freed)
 *
 * Every result line has three parts
 *   <result of the call>  sz=.. [dsz=..] obs=[..]   |   num=.. max=.. sum=.. [..] back=ok
 * the first two are what the public API returns (the property oracle reads only those: obs is the
 * content read back with getat(i) / toarray), the part after `|` is the private state reached
 * through the public structs (first/next chain, last/prev chain, counters) and is there for the
 * correspondence with the mechanism-level model only. */
#include "common.h"
#include "qlibc.h"

enum { K_NONE, K_LIST, K_QUEUE, K_STACK, K_GROW };
static int kind = K_NONE;
static qlist_t *L;
static qqueue_t *Q;
static qstack_t *S;
static qgrow_t *G;
static qlist_obj_t cur;

static void free_all(void) {
    if (kind == K_LIST) qlist_free(L);
    if (kind == K_QUEUE) qqueue_free(Q);
    if (kind == K_STACK) qstack_free(S);
    if (kind == K_GROW) qgrow_free(G);
    kind = K_NONE; L = NULL; Q = NULL; S = NULL; G = NULL;
}

static qlist_t *inner(void) {
    switch (kind) {
        case K_LIST: return L;
        case K_QUEUE: return Q->list;
        case K_STACK: return S->list;
        case K_GROW: return G->list;
    }
    return NULL;
}

static void dump_private(qlist_t *l) {
    printf(" | num=%zu max=%zu sum=%zu [", l->num, l->max, l->datasum);
    size_t n = 0, cap = 16;
    qlist_obj_t **fw = malloc(cap * sizeof(*fw));
    for (qlist_obj_t *o = l->first; o != NULL; o = o->next) {
        if (n) printf(",");
        puthex(stdout, o->data, o->size);
        if (n == cap) { cap *= 2; fw = realloc(fw, cap * sizeof(*fw)); }
        fw[n++] = o;
    }
    printf("]");
    /* the backward chain must be the mirror image of the forward chain */
    bool ok = true;
    size_t k = n;
    for (qlist_obj_t *o = l->last; o != NULL; o = o->prev) {
        if (k == 0 || fw[k - 1] != o) { ok = false; break; }
        k--;
    }
    if (k != 0) ok = false;
    if (n > 0 && (l->first->prev != NULL || l->last->next != NULL)) ok = false;
    if (n == 0 && (l->first != NULL || l->last != NULL)) ok = false;
    printf(" back=%s", ok ? "ok" : "BROKEN");
    free(fw);
}

static void dump(void) {
    size_t sz = 0;
    if (kind == K_LIST) {
        sz = qlist_size(L);
        printf(" sz=%zu dsz=%zu obs=[", sz, qlist_datasize(L));
    } else if (kind == K_QUEUE) {
        sz = qqueue_size(Q);
        printf(" sz=%zu obs=[", sz);
    } else if (kind == K_STACK) {
        sz = qstack_size(S);
        printf(" sz=%zu obs=[", sz);
    } else if (kind == K_GROW) {
        sz = qgrow_size(G);
        size_t asz = 7777;
        void *a = qgrow_toarray(G, &asz);
        printf(" sz=%zu dsz=%zu arr=", sz, qgrow_datasize(G));
        if (a == NULL) printf("null"); else puthex(stdout, a, asz);
        printf("/%zu", asz);
        free(a);
        dump_private(G->list);
        return;
    } else {
        return;
    }
    for (size_t i = 0; i < sz; i++) {
        size_t esz = 0;
        void *d = kind == K_LIST ? qlist_getat(L, (int) i, &esz, true)
                : kind == K_QUEUE ? qqueue_getat(Q, (int) i, &esz, true)
                                  : qstack_getat(S, (int) i, &esz, true);
        if (i) printf(",");
        if (d == NULL) printf("null"); else puthex(stdout, d, esz);
        free(d);
    }
    printf("]");
    dump_private(inner());
}

static void res_bool(bool b, int e) {
    if (b) printf("true"); else printf("false %s", errname(e));
}

/* data pointer returned by get/pop; `own` = we have to free it */
static void res_data(void *d, size_t sz, int e, bool own) {
    if (d == NULL) { printf("null %s", errname(e)); return; }
    printf("data "); puthex(stdout, d, sz);
    if (own) free(d);
}

static void res_str(char *s, int e) {
    if (s == NULL) { printf("null %s", errname(e)); return; }
    printf("str "); puthex(stdout, s, strlen(s));
    free(s);
}

static int do_list(int nw, char **w) {
    const char *op = w[0];
    bytes_t a = {0, 0};
    size_t sz = 0;
    errno = 0;
    if (!strcmp(op, "setsize") && nw == 2) {
        size_t old = qlist_setsize(L, strtoull(w[1], NULL, 10));
        printf("old %zu", old);
    } else if ((!strcmp(op, "addfirst") || !strcmp(op, "addlast")) && nw == 2) {
        if (!unhex(w[1], &a)) return 0;
        errno = 0;
        bool r = op[3] == 'f' ? qlist_addfirst(L, a.p, a.n) : qlist_addlast(L, a.p, a.n);
        int e = errno; res_bool(r, e); free(a.p);
    } else if (!strcmp(op, "addat") && nw == 3) {
        if (!unhex(w[2], &a)) return 0;
        errno = 0;
        bool r = qlist_addat(L, atoi(w[1]), a.p, a.n);
        int e = errno; res_bool(r, e); free(a.p);
    } else if (!strcmp(op, "addnull") && nw == 2) {
        bool r = qlist_addat(L, atoi(w[1]), NULL, 1);
        int e = errno; res_bool(r, e);
    } else if (!strcmp(op, "getfirst") && nw == 2) {
        bool nm = atoi(w[1]);
        void *d = qlist_getfirst(L, &sz, nm); int e = errno; res_data(d, sz, e, nm);
    } else if (!strcmp(op, "getlast") && nw == 2) {
        bool nm = atoi(w[1]);
        void *d = qlist_getlast(L, &sz, nm); int e = errno; res_data(d, sz, e, nm);
    } else if (!strcmp(op, "getat") && nw == 3) {
        bool nm = atoi(w[2]);
        void *d = qlist_getat(L, atoi(w[1]), &sz, nm); int e = errno; res_data(d, sz, e, nm);
    } else if (!strcmp(op, "popfirst") && nw == 1) {
        void *d = qlist_popfirst(L, &sz); int e = errno; res_data(d, sz, e, true);
    } else if (!strcmp(op, "poplast") && nw == 1) {
        void *d = qlist_poplast(L, &sz); int e = errno; res_data(d, sz, e, true);
    } else if (!strcmp(op, "popat") && nw == 2) {
        void *d = qlist_popat(L, atoi(w[1]), &sz); int e = errno; res_data(d, sz, e, true);
    } else if (!strcmp(op, "removefirst") && nw == 1) {
        bool r = qlist_removefirst(L); int e = errno; res_bool(r, e);
    } else if (!strcmp(op, "removelast") && nw == 1) {
        bool r = qlist_removelast(L); int e = errno; res_bool(r, e);
    } else if (!strcmp(op, "removeat") && nw == 2) {
        bool r = qlist_removeat(L, atoi(w[1])); int e = errno; res_bool(r, e);
    } else if (!strcmp(op, "size") && nw == 1) {
        printf("n %zu", qlist_size(L));
    } else if (!strcmp(op, "datasize") && nw == 1) {
        printf("n %zu", qlist_datasize(L));
    } else if (!strcmp(op, "reverse") && nw == 1) {
        qlist_reverse(L); printf("ok");
    } else if (!strcmp(op, "clear") && nw == 1) {
        qlist_clear(L); printf("ok");
    } else if (!strcmp(op, "toarray") && nw == 1) {
        sz = 7777;
        void *d = qlist_toarray(L, &sz); int e = errno;
        res_data(d, sz, e, true); printf(" size=%zu", sz);
    } else if (!strcmp(op, "tostring") && nw == 1) {
        char *s = qlist_tostring(L); int e = errno; res_str(s, e);
    } else if (!strcmp(op, "walk") && nw == 2) {
        bool nm = atoi(w[1]);
        qlist_obj_t o; memset(&o, 0, sizeof(o));
        printf("walk");
        size_t guard = L->num + 4;
        errno = 0;
        while (qlist_getnext(L, &o, nm)) {
            printf(" "); puthex(stdout, o.data, o.size);
            if (nm) free(o.data);
            errno = 0;
            if (guard-- == 0) { printf(" ENDLESS"); break; }
        }
        printf(" end %s", errname(errno));
    } else if (!strcmp(op, "reset") && nw == 1) {
        memset(&cur, 0, sizeof(cur)); printf("ok");
    } else if (!strcmp(op, "next") && nw == 2) {
        bool nm = atoi(w[1]);
        bool r = qlist_getnext(L, &cur, nm); int e = errno;
        if (r) { printf("data "); puthex(stdout, cur.data, cur.size); if (nm) free(cur.data); }
        else printf("false %s", errname(e));
    } else {
        return 0;
    }
    return 1;
}

/* queue and stack have the same interface */
static int do_qs(int nw, char **w) {
    const char *op = w[0];
    bytes_t a = {0, 0};
    size_t sz = 0;
    bool q = kind == K_QUEUE;
    errno = 0;
    if (!strcmp(op, "setsize") && nw == 2) {
        size_t m = strtoull(w[1], NULL, 10);
        printf("old %zu", q ? qqueue_setsize(Q, m) : qstack_setsize(S, m));
    } else if (!strcmp(op, "push") && nw == 2) {
        if (!unhex(w[1], &a)) return 0;
        errno = 0;
        bool r = q ? qqueue_push(Q, a.p, a.n) : qstack_push(S, a.p, a.n);
        int e = errno; res_bool(r, e); free(a.p);
    } else if (!strcmp(op, "pushstr") && nw == 2) {
        bool r;
        if (!strcmp(w[1], "null")) {
            r = q ? qqueue_pushstr(Q, NULL) : qstack_pushstr(S, NULL);
        } else {
            if (!unhex(w[1], &a)) return 0;
            char *s = cstr_exact(&a);
            errno = 0;
            r = q ? qqueue_pushstr(Q, s) : qstack_pushstr(S, s);
            int e0 = errno; free(s); free(a.p); errno = e0;
        }
        int e = errno; res_bool(r, e);
    } else if (!strcmp(op, "pushint") && nw == 2) {
        int64_t v = strtoll(w[1], NULL, 10);
        errno = 0;
        bool r = q ? qqueue_pushint(Q, v) : qstack_pushint(S, v);
        int e = errno; res_bool(r, e);
    } else if (!strcmp(op, "pop") && nw == 1) {
        void *d = q ? qqueue_pop(Q, &sz) : qstack_pop(S, &sz); int e = errno; res_data(d, sz, e, true);
    } else if (!strcmp(op, "popstr") && nw == 1) {
        char *s = q ? qqueue_popstr(Q) : qstack_popstr(S); int e = errno; res_str(s, e);
    } else if (!strcmp(op, "popint") && nw == 1) {
        int64_t v = q ? qqueue_popint(Q) : qstack_popint(S);
        printf("int %lld", (long long) v);
    } else if (!strcmp(op, "popat") && nw == 2) {
        int i = atoi(w[1]);
        void *d = q ? qqueue_popat(Q, i, &sz) : qstack_popat(S, i, &sz); int e = errno; res_data(d, sz, e, true);
    } else if (!strcmp(op, "get") && nw == 2) {
        bool nm = atoi(w[1]);
        void *d = q ? qqueue_get(Q, &sz, nm) : qstack_get(S, &sz, nm); int e = errno; res_data(d, sz, e, nm);
    } else if (!strcmp(op, "getstr") && nw == 1) {
        char *s = q ? qqueue_getstr(Q) : qstack_getstr(S); int e = errno; res_str(s, e);
    } else if (!strcmp(op, "getint") && nw == 1) {
        int64_t v = q ? qqueue_getint(Q) : qstack_getint(S);
        printf("int %lld", (long long) v);
    } else if (!strcmp(op, "getat") && nw == 3) {
        int i = atoi(w[1]); bool nm = atoi(w[2]);
        void *d = q ? qqueue_getat(Q, i, &sz, nm) : qstack_getat(S, i, &sz, nm); int e = errno; res_data(d, sz, e, nm);
    } else if (!strcmp(op, "size") && nw == 1) {
        printf("n %zu", q ? qqueue_size(Q) : qstack_size(S));
    } else if (!strcmp(op, "clear") && nw == 1) {
        if (q) qqueue_clear(Q); else qstack_clear(S);
        printf("ok");
    } else {
        return 0;
    }
    return 1;
}

static int do_grow(int nw, char **w) {
    const char *op = w[0];
    bytes_t a = {0, 0};
    size_t sz = 0;
    errno = 0;
    if (!strcmp(op, "add") && nw == 2) {
        if (!unhex(w[1], &a)) return 0;
        errno = 0;
        bool r = qgrow_add(G, a.p, a.n); int e = errno; res_bool(r, e); free(a.p);
    } else if (!strcmp(op, "addstr") && nw == 2) {
        if (!unhex(w[1], &a)) return 0;
        char *s = cstr_exact(&a);
        errno = 0;
        bool r = qgrow_addstr(G, s); int e = errno; res_bool(r, e); free(s); free(a.p);
    } else if (!strcmp(op, "addstrf") && nw == 3) {
        /* fixed format "%s=%d" */
        if (!unhex(w[1], &a)) return 0;
        char *s = cstr_exact(&a);
        errno = 0;
        bool r = qgrow_addstrf(G, "%s=%d", s, atoi(w[2])); int e = errno; res_bool(r, e); free(s); free(a.p);
    } else if (!strcmp(op, "size") && nw == 1) {
        printf("n %zu", qgrow_size(G));
    } else if (!strcmp(op, "datasize") && nw == 1) {
        printf("n %zu", qgrow_datasize(G));
    } else if (!strcmp(op, "toarray") && nw == 1) {
        sz = 7777;
        void *d = qgrow_toarray(G, &sz); int e = errno;
        res_data(d, sz, e, true); printf(" size=%zu", sz);
    } else if (!strcmp(op, "tostring") && nw == 1) {
        char *s = qgrow_tostring(G); int e = errno; res_str(s, e);
    } else if (!strcmp(op, "clear") && nw == 1) {
        qgrow_clear(G); printf("ok");
    } else {
        return 0;
    }
    return 1;
}

int main(void) {
    char *line = NULL; size_t cap = 0; ssize_t len;
    setvbuf(stdout, NULL, _IOFBF, 1 << 16);
    while ((len = getline(&line, &cap, stdin)) > 0) {
        char *w[MAXW]; int nw = split_words(line, w);
        if (nw == 0) continue;
        int done = 0;
        if (!strcmp(w[0], "new") && nw == 2) {
            free_all();
            memset(&cur, 0, sizeof(cur));
            if (!strcmp(w[1], "list")) { L = qlist(0); kind = K_LIST; }
            else if (!strcmp(w[1], "queue")) { Q = qqueue(0); kind = K_QUEUE; }
            else if (!strcmp(w[1], "stack")) { S = qstack(0); kind = K_STACK; }
            else if (!strcmp(w[1], "grow")) { G = qgrow(0); kind = K_GROW; }
            if (kind != K_NONE) { printf("ok"); done = 1; }
        } else if (kind == K_LIST) done = do_list(nw, w);
        else if (kind == K_QUEUE || kind == K_STACK) done = do_qs(nw, w);
        else if (kind == K_GROW) done = do_grow(nw, w);
        if (!done) { printf("bad-op\n"); fflush(stdout); continue; }
        dump();
        printf("\n");
        fflush(stdout);     /* a sanitizer abort must not lose the lines of the operations before it */
    }
    free(line);
    free_all();
    return 0;
}

/* Correspondence harness for qlist.c / qqueue.c / qstack.c / qgrow.c (property C09, and the
 * list-family part of C11 / C12 / C15). Linked against libqw.a: the library's allocator calls go
 * through harness/allocwrap.h. One operation per input line, one result line per operation (see
 * lean/Driver/Seq.lean).
 *
 *   new list|queue|stack|grow [opt]  start a fresh container (the previous one is freed);
 *                                    bit 1 of opt = QLIST_THREADSAFE
 *   fault k | faultfrom k            fail the k-th allocation (all from the k-th on) of the next
 *                                    windowed call
 *   end                              free the container, re-check the kept copies:
 *                                    `end live=<blocks still allocated> bad=<changed copies>`
 *
 * Every result line has three parts
 *   [allocs=<n>] <result of the call>  sz=.. [dsz=..] obs=[..]   |   live=.. num=.. max=.. sum=.. [..] back=ok
 * `allocs=` = allocation attempts inside the call (windowed calls only). The first two parts are
 * what the public API returns (the property oracle reads only those: obs is the content read back
 * with getat(i) / toarray), the part after `|` is the private state reached through the public
 * structs (first/next chain, last/prev chain, counters) plus the number of blocks the library
 * owns, and is there for the correspondence with the mechanism-level model (the C11 oracle
 * reads live=). Caller buffers are overwritten and freed right after the call they were given to;
 * every copy the library hands out is kept with a private duplicate until the container is gone
 * (harness/seqkeep.h). */
#include "common.h"
#include "allocwrap.h"
#include "seqkeep.h"
#include "qlibc.h"

/* C15/C11: `fault k` / `faultfrom k` arm an allocation failure for the next WINDOWED library
 * call (every call whose result line starts with `allocs=<n> `, the number of allocation
 * attempts the library made inside that call); `live=<n>` in the private part of every result
 * line is the number of blocks the library owns; `end` releases the container and the kept
 * copies and prints `end live=<n> bad=<n>`. */
static int E;       /* errno of the windowed call */
static long A;      /* allocation attempts of the windowed call */
#define WIN(stmt) do { PLANT(); aw_begin(); stmt; E = errno; A = aw_end(); printf("allocs=%ld ", A); } while (0)
/* errno is the call's only failure report: the caller clears it first (see seqkeep.h) */
#define WIN0(stmt) do { PLANT0(); aw_begin(); stmt; E = errno; A = aw_end(); printf("allocs=%ld ", A); } while (0)

enum { K_NONE, K_LIST, K_QUEUE, K_STACK, K_GROW };
static int kind = K_NONE;
static qlist_t *L;
static qqueue_t *Q;
static qstack_t *S;
static qgrow_t *G;
static qlist_obj_t cur;

static void free_all(void) {
    if (kind == K_LIST) qlist_free(L);
    if (kind == K_QUEUE) qqueue_free(Q);
    if (kind == K_STACK) qstack_free(S);
    if (kind == K_GROW) qgrow_free(G);
    kind = K_NONE; L = NULL; Q = NULL; S = NULL; G = NULL;
}

static qlist_t *inner(void) {
    switch (kind) {
        case K_LIST: return L;
        case K_QUEUE: return Q->list;
        case K_STACK: return S->list;
        case K_GROW: return G->list;
    }
    return NULL;
}

static void dump_private(qlist_t *l) {
    printf(" | live=%ld num=%zu max=%zu sum=%zu [", live_blocks(), l->num, l->max, l->datasum);
    size_t n = 0, cap = 16;
    qlist_obj_t **fw = malloc(cap * sizeof(*fw));
    for (qlist_obj_t *o = l->first; o != NULL; o = o->next) {
        if (n) printf(",");
        puthex(stdout, o->data, o->size);
        if (n == cap) { cap *= 2; fw = realloc(fw, cap * sizeof(*fw)); }
        fw[n++] = o;
    }
    printf("]");
    /* the backward chain must be the mirror image of the forward chain */
    bool ok = true;
    size_t k = n;
    for (qlist_obj_t *o = l->last; o != NULL; o = o->prev) {
        if (k == 0 || fw[k - 1] != o) { ok = false; break; }
        k--;
    }
    if (k != 0) ok = false;
    if (n > 0 && (l->first->prev != NULL || l->last->next != NULL)) ok = false;
    if (n == 0 && (l->first != NULL || l->last != NULL)) ok = false;
    printf(" back=%s", ok ? "ok" : "BROKEN");
    free(fw);
}

/* `obsoff`: the observation after every operation is taken from the node chain instead of through getat(i):
 * a complete sweep of getat repairs (or sets) whatever position state the library keeps between calls, and a
 * defect that needs that state to survive from one call to the next would never show (seed C09-m10). The printed
 * text is the same; `obson` switches back. */
static int obs_private = 0;
static void dump(void) {
    size_t sz = 0;
    if (kind == K_LIST) {
        sz = qlist_size(L);
        printf(" sz=%zu dsz=%zu obs=[", sz, qlist_datasize(L));
    } else if (kind == K_QUEUE) {
        sz = qqueue_size(Q);
        printf(" sz=%zu obs=[", sz);
    } else if (kind == K_STACK) {
        sz = qstack_size(S);
        printf(" sz=%zu obs=[", sz);
    } else if (kind == K_GROW) {
        sz = qgrow_size(G);
        size_t asz = 7777;
        PLANT();
        void *a = qgrow_toarray(G, &asz);
        printf(" sz=%zu dsz=%zu arr=", sz, qgrow_datasize(G));
        if (a == NULL) printf("null"); else puthex(stdout, a, asz);
        printf("/%zu", asz);
        vf_free(a);
        dump_private(G->list);
        return;
    } else {
        return;
    }
    if (obs_private) {
        size_t i = 0;
        for (qlist_obj_t *o = inner()->first; o != NULL && i < sz; o = o->next, i++) {
            if (i) printf(",");
            puthex(stdout, o->data, o->size);
        }
        printf("]");
        dump_private(inner());
        return;
    }
    for (size_t i = 0; i < sz; i++) {
        size_t esz = 0;
        PLANT();
        void *d = kind == K_LIST ? qlist_getat(L, (int) i, &esz, true)
                : kind == K_QUEUE ? qqueue_getat(Q, (int) i, &esz, true)
                                  : qstack_getat(S, (int) i, &esz, true);
        if (i) printf(",");
        if (d == NULL) printf("null"); else puthex(stdout, d, esz);
        vf_free(d);
    }
    printf("]");
    dump_private(inner());
}

static void res_bool(bool b, int e) {
    if (b) printf("true"); else printf("false %s", errname(e));
}

/* data pointer returned by get/pop; `own` = we have to free it */
static void res_data(void *d, size_t sz, int e, bool own) {
    if (d == NULL) { printf("null %s", errname(e)); return; }
    printf("data "); puthex(stdout, d, sz);
    if (own) keep(d, sz);
}

static void res_str(char *s, int e) {
    if (s == NULL) { printf("null %s", errname(e)); return; }
    printf("str "); puthex(stdout, s, strlen(s));
    keep(s, strlen(s) + 1);
}


/* ---- `inv`: every documented-invalid call (and the calls with the optional out-pointers left
 * NULL) on the current state, `name=result:errno` per call; nothing may change. Not a windowed
 * call (many library calls; an armed failure stays armed and cannot fire in here). */
static const char *ename(int e) { return e == EIO ? "EIO" : errname(e); }
/* errno is read after a FAILED call only (a successful call may leave any value behind) */
static void iv_bool(const char *name, bool r) { int e = errno; printf(" %s=%s:%s", name, r ? "true" : "false", r ? "0" : ename(e)); }
static void iv_data(const char *name, void *d, size_t n, bool own) {
    int e = errno;
    printf(" %s=", name);
    if (d == NULL) printf("null"); else { printf("data"); puthex(stdout, d, n); }
    printf(":%s", d != NULL ? "0" : ename(e));
    if (d != NULL && own) vf_free(d);
}
static void iv_nat(const char *name, size_t v) { printf(" %s=%zu:0", name, v); }
#define IVB(name, call) do { PLANT(); bool r_ = (call); iv_bool(name, r_); } while (0)
/* a refusal for which no errno is documented: `kept` when the caller's errno is still there */
#define IVK(name, call) do { PLANT(); bool r_ = (call); int e_ = errno; printf(" %s=%s:%s", name, r_ ? "true" : "false", r_ ? "0" : e_ == plant_last ? "kept" : ename(e_)); } while (0)

static void inv_list(qlist_t *l) {
    unsigned char x = 'x';
    int n = (int) l->num;
    size_t sz;
    printf("inv");
    IVB("addnull", qlist_addat(l, 0, NULL, 1));
    IVB("addfirstnull", qlist_addfirst(l, NULL, 1));
    IVB("addlastnull", qlist_addlast(l, NULL, 1));
    IVB("addsize0", qlist_addat(l, 0, &x, 0));
    IVB("addfirstsize0", qlist_addfirst(l, &x, 0));
    IVB("addlastsize0", qlist_addlast(l, &x, 0));
    IVB("addabove", qlist_addat(l, n + 1, &x, 1));
    IVB("addbelow", qlist_addat(l, -n - 2, &x, 1));
    PLANT(); sz = 4242; { void *d = qlist_getat(l, n, &sz, true); iv_data("getabove", d, sz, true); }
    PLANT(); sz = 4242; { void *d = qlist_getat(l, -n - 1, &sz, false); iv_data("getbelow", d, sz, false); }
    PLANT(); sz = 4242; { void *d = qlist_popat(l, n, &sz); iv_data("popabove", d, sz, true); }
    PLANT(); sz = 4242; { void *d = qlist_popat(l, -n - 1, &sz); iv_data("popbelow", d, sz, true); }
    IVB("removeabove", qlist_removeat(l, n));
    IVB("removebelow", qlist_removeat(l, -n - 1));
    IVK("nextnull0", qlist_getnext(l, NULL, false));
    IVK("nextnull1", qlist_getnext(l, NULL, true));
    IVB("debugnull", qlist_debug(l, NULL));
    /* optional out-pointer left NULL: allowed */
    PLANT(); { size_t fs = l->first ? l->first->size : 0; void *d = qlist_getfirst(l, NULL, true); iv_data("getfirstnosize", d, fs, true); }
    PLANT(); { size_t ts = l->datasum; void *d = qlist_toarray(l, NULL); iv_data("toarraynosize", d, ts, true); }
    /* setsize: the current value, the largest value and back */
    { size_t m = l->max; iv_nat("setsame", qlist_setsize(l, m)); iv_nat("sethuge", qlist_setsize(l, (size_t) -1)); iv_nat("setback", qlist_setsize(l, m)); }
}

static void inv_qs(void) {
    unsigned char x = 'x';
    bool q = kind == K_QUEUE;
    int n = (int) (q ? qqueue_size(Q) : qstack_size(S));
    size_t sz;
    printf("inv");
    IVB("pushnull", q ? qqueue_push(Q, NULL, 1) : qstack_push(S, NULL, 1));
    IVB("pushsize0", q ? qqueue_push(Q, &x, 0) : qstack_push(S, &x, 0));
    IVB("pushstrnull", q ? qqueue_pushstr(Q, NULL) : qstack_pushstr(S, NULL));
    PLANT(); sz = 4242; { void *d = q ? qqueue_getat(Q, n, &sz, true) : qstack_getat(S, n, &sz, true); iv_data("getabove", d, sz, true); }
    PLANT(); sz = 4242; { void *d = q ? qqueue_getat(Q, -n - 1, &sz, false) : qstack_getat(S, -n - 1, &sz, false); iv_data("getbelow", d, sz, false); }
    PLANT(); sz = 4242; { void *d = q ? qqueue_popat(Q, n, &sz) : qstack_popat(S, n, &sz); iv_data("popabove", d, sz, true); }
    PLANT(); sz = 4242; { void *d = q ? qqueue_popat(Q, -n - 1, &sz) : qstack_popat(S, -n - 1, &sz); iv_data("popbelow", d, sz, true); }
    IVB("debugnull", q ? qqueue_debug(Q, NULL) : qstack_debug(S, NULL));
    PLANT(); { qlist_t *l = inner(); size_t fs = l->first ? l->first->size : 0;
                 void *d = q ? qqueue_get(Q, NULL, true) : qstack_get(S, NULL, true); iv_data("getnosize", d, fs, true); }
    { size_t m = inner()->max;
      iv_nat("setsame", q ? qqueue_setsize(Q, m) : qstack_setsize(S, m));
      iv_nat("sethuge", q ? qqueue_setsize(Q, (size_t) -1) : qstack_setsize(S, (size_t) -1));
      iv_nat("setback", q ? qqueue_setsize(Q, m) : qstack_setsize(S, m)); }
}

static void inv_grow(void) {
    unsigned char x = 'x';
    printf("inv");
    IVB("addnull", qgrow_add(G, NULL, 1));
    IVB("addsize0", qgrow_add(G, &x, 0));
    IVB("addstrempty", qgrow_addstr(G, ""));
    IVB("addstrfempty", qgrow_addstrf(G, "%s", ""));
    IVB("debugnull", qgrow_debug(G, NULL));
    PLANT(); { size_t ts = G->list->datasum; void *d = qgrow_toarray(G, NULL); iv_data("toarraynosize", d, ts, true); }
}


/* ---- `lockprobe` (THREADSAFE containers): lock(); a nested public call (it takes the lock again,
 * qvector's addlast three levels deep); ANOTHER thread tries the container's mutex: it must be
 * busy (the outer lock() is still in force); unlock(); the other thread tries again: free.
 * Prints `lockprobe <result of the nested call> held=<0|1> after=<0|1>`; `nolock` for a container
 * without a mutex. Not a windowed call. */
#include <pthread.h>
#include "qinternal.h"
static void *probe_thread(void *m) {
    pthread_mutex_t *mx = &((qmutex_t *) m)->mutex;
    int r = pthread_mutex_trylock(mx);
    if (r == 0) pthread_mutex_unlock(mx);
    return (void *) (intptr_t) (r != 0);          /* 1 = busy */
}
static int probe_busy(void *qmutex) {
    pthread_t t; void *res = NULL;
    if (pthread_create(&t, NULL, probe_thread, qmutex) != 0) return -1;
    pthread_join(t, &res);
    return (int) (intptr_t) res;
}

static void do_lockprobe(void) {
    qlist_t *l = inner();
    unsigned char x = 'L';
    printf("lockprobe ");
    if (l->qmutex == NULL) {
        bool r; PLANT();
        r = kind == K_LIST ? qlist_addlast(L, &x, 1) : kind == K_QUEUE ? qqueue_push(Q, &x, 1)
          : kind == K_STACK ? qstack_push(S, &x, 1) : qgrow_add(G, &x, 1);
        int e = errno; res_bool(r, e); printf(" nolock");
        return;
    }
    qlist_lock(l);
    PLANT();
    bool r = kind == K_LIST ? qlist_addlast(L, &x, 1) : kind == K_QUEUE ? qqueue_push(Q, &x, 1)
           : kind == K_STACK ? qstack_push(S, &x, 1) : qgrow_add(G, &x, 1);
    int e = errno;
    int held = probe_busy(l->qmutex);
    qlist_unlock(l);
    int after = probe_busy(l->qmutex);
    res_bool(r, e); printf(" held=%d after=%d", held, after);
}

static int do_list(int nw, char **w) {
    const char *op = w[0];
    bytes_t a = {0, 0};
    size_t sz = 0;
    PLANT();
    if (!strcmp(op, "setsize") && nw == 2) {
        size_t old = qlist_setsize(L, strtoull(w[1], NULL, 10));
        printf("old %zu", old);
    } else if ((!strcmp(op, "addfirst") || !strcmp(op, "addlast")) && nw == 2) {
        if (!unhex(w[1], &a)) return 0;
        bool r;
        WIN(r = op[3] == 'f' ? qlist_addfirst(L, a.p, a.n) : qlist_addlast(L, a.p, a.n));
        scribble_free(&a); res_bool(r, E);
    } else if (!strcmp(op, "addat") && nw == 3) {
        if (!unhex(w[2], &a)) return 0;
        bool r;
        WIN(r = qlist_addat(L, atoi(w[1]), a.p, a.n));
        scribble_free(&a); res_bool(r, E);
    } else if (!strcmp(op, "addnull") && nw == 2) {
        bool r;
        WIN(r = qlist_addat(L, atoi(w[1]), NULL, 1));
        res_bool(r, E);
    } else if (!strcmp(op, "getfirst") && nw == 2) {
        bool nm = atoi(w[1]); void *d;
        WIN(d = qlist_getfirst(L, &sz, nm)); res_data(d, sz, E, nm);
    } else if (!strcmp(op, "getlast") && nw == 2) {
        bool nm = atoi(w[1]); void *d;
        WIN(d = qlist_getlast(L, &sz, nm)); res_data(d, sz, E, nm);
    } else if (!strcmp(op, "getat") && nw == 3) {
        bool nm = atoi(w[2]); void *d;
        WIN(d = qlist_getat(L, atoi(w[1]), &sz, nm)); res_data(d, sz, E, nm);
    } else if (!strcmp(op, "popfirst") && nw == 1) {
        void *d; WIN(d = qlist_popfirst(L, &sz)); res_data(d, sz, E, true);
    } else if (!strcmp(op, "poplast") && nw == 1) {
        void *d; WIN(d = qlist_poplast(L, &sz)); res_data(d, sz, E, true);
    } else if (!strcmp(op, "popat") && nw == 2) {
        void *d; WIN(d = qlist_popat(L, atoi(w[1]), &sz)); res_data(d, sz, E, true);
    } else if (!strcmp(op, "removefirst") && nw == 1) {
        bool r; WIN(r = qlist_removefirst(L)); res_bool(r, E);
    } else if (!strcmp(op, "removelast") && nw == 1) {
        bool r; WIN(r = qlist_removelast(L)); res_bool(r, E);
    } else if (!strcmp(op, "removeat") && nw == 2) {
        bool r; WIN(r = qlist_removeat(L, atoi(w[1]))); res_bool(r, E);
    } else if (!strcmp(op, "size") && nw == 1) {
        printf("n %zu", qlist_size(L));
    } else if (!strcmp(op, "datasize") && nw == 1) {
        printf("n %zu", qlist_datasize(L));
    } else if (!strcmp(op, "reverse") && nw == 1) {
        WIN(qlist_reverse(L)); printf("ok");
    } else if (!strcmp(op, "clear") && nw == 1) {
        WIN(qlist_clear(L)); printf("ok");
    } else if (!strcmp(op, "toarray") && nw == 1) {
        sz = 7777;
        void *d; WIN(d = qlist_toarray(L, &sz));
        res_data(d, sz, E, true); printf(" size=%zu", sz);
    } else if (!strcmp(op, "tostring") && nw == 1) {
        char *s; WIN(s = qlist_tostring(L)); res_str(s, E);
    } else if (!strcmp(op, "walk") && nw == 2) {
        /* not a windowed call (many library calls): an armed failure stays armed */
        bool nm = atoi(w[1]);
        qlist_obj_t o; memset(&o, 0, sizeof(o));
        printf("walk");
        size_t guard = L->num + 4;
        PLANT();
        while (qlist_getnext(L, &o, nm)) {
            printf(" "); puthex(stdout, o.data, o.size);
            if (nm) keep(o.data, o.size);
            PLANT();
            if (guard-- == 0) { printf(" ENDLESS"); break; }
        }
        printf(" end %s", errname(errno));
    } else if (!strcmp(op, "inv") && nw == 1) {
        inv_list(L);
    } else if (!strcmp(op, "reset") && nw == 1) {
        memset(&cur, 0, sizeof(cur)); printf("ok");
    } else if (!strcmp(op, "next") && nw == 2) {
        bool nm = atoi(w[1]); bool r;
        WIN(r = qlist_getnext(L, &cur, nm));
        if (r) { printf("data "); puthex(stdout, cur.data, cur.size); if (nm) keep(cur.data, cur.size); }
        else printf("false %s", errname(E));
    } else {
        return 0;
    }
    return 1;
}

/* popint/getint return a plain int64_t: an allocation failure is visible in errno only */
static void res_int(int64_t v, int e) {
    printf("int %lld", (long long) v);
    if (e == ENOMEM) printf(" ENOMEM");
}

/* queue and stack have the same interface */
static int do_qs(int nw, char **w) {
    const char *op = w[0];
    bytes_t a = {0, 0};
    size_t sz = 0;
    bool q = kind == K_QUEUE;
    PLANT();
    if (!strcmp(op, "setsize") && nw == 2) {
        size_t m = strtoull(w[1], NULL, 10);
        printf("old %zu", q ? qqueue_setsize(Q, m) : qstack_setsize(S, m));
    } else if (!strcmp(op, "push") && nw == 2) {
        if (!unhex(w[1], &a)) return 0;
        bool r;
        WIN(r = q ? qqueue_push(Q, a.p, a.n) : qstack_push(S, a.p, a.n));
        scribble_free(&a); res_bool(r, E);
    } else if (!strcmp(op, "pushstr") && nw == 2) {
        bool r;
        if (!strcmp(w[1], "null")) {
            WIN(r = q ? qqueue_pushstr(Q, NULL) : qstack_pushstr(S, NULL));
        } else {
            if (!unhex(w[1], &a)) return 0;
            char *s = cstr_exact(&a);
            WIN(r = q ? qqueue_pushstr(Q, s) : qstack_pushstr(S, s));
            memset(s, 0xAA, a.n + 1); free(s); scribble_free(&a);
        }
        res_bool(r, E);
    } else if (!strcmp(op, "pushint") && nw == 2) {
        int64_t v = strtoll(w[1], NULL, 10);
        bool r;
        WIN(r = q ? qqueue_pushint(Q, v) : qstack_pushint(S, v));
        res_bool(r, E);
    } else if (!strcmp(op, "pop") && nw == 1) {
        void *d; WIN(d = q ? qqueue_pop(Q, &sz) : qstack_pop(S, &sz)); res_data(d, sz, E, true);
    } else if (!strcmp(op, "popstr") && nw == 1) {
        char *s; WIN(s = q ? qqueue_popstr(Q) : qstack_popstr(S)); res_str(s, E);
    } else if (!strcmp(op, "popint") && nw == 1) {
        int64_t v; WIN0(v = q ? qqueue_popint(Q) : qstack_popint(S)); res_int(v, E);
    } else if (!strcmp(op, "popat") && nw == 2) {
        int i = atoi(w[1]);
        void *d; WIN(d = q ? qqueue_popat(Q, i, &sz) : qstack_popat(S, i, &sz)); res_data(d, sz, E, true);
    } else if (!strcmp(op, "get") && nw == 2) {
        bool nm = atoi(w[1]);
        void *d; WIN(d = q ? qqueue_get(Q, &sz, nm) : qstack_get(S, &sz, nm)); res_data(d, sz, E, nm);
    } else if (!strcmp(op, "getstr") && nw == 1) {
        char *s; WIN(s = q ? qqueue_getstr(Q) : qstack_getstr(S)); res_str(s, E);
    } else if (!strcmp(op, "getint") && nw == 1) {
        int64_t v; WIN0(v = q ? qqueue_getint(Q) : qstack_getint(S)); res_int(v, E);
    } else if (!strcmp(op, "getat") && nw == 3) {
        int i = atoi(w[1]); bool nm = atoi(w[2]);
        void *d; WIN(d = q ? qqueue_getat(Q, i, &sz, nm) : qstack_getat(S, i, &sz, nm)); res_data(d, sz, E, nm);
    } else if (!strcmp(op, "inv") && nw == 1) {
        inv_qs();
    } else if (!strcmp(op, "size") && nw == 1) {
        printf("n %zu", q ? qqueue_size(Q) : qstack_size(S));
    } else if (!strcmp(op, "clear") && nw == 1) {
        WIN(if (q) qqueue_clear(Q); else qstack_clear(S));
        printf("ok");
    } else {
        return 0;
    }
    return 1;
}

static int do_grow(int nw, char **w) {
    const char *op = w[0];
    bytes_t a = {0, 0};
    size_t sz = 0;
    PLANT();
    if (!strcmp(op, "add") && nw == 2) {
        if (!unhex(w[1], &a)) return 0;
        bool r; WIN(r = qgrow_add(G, a.p, a.n)); scribble_free(&a); res_bool(r, E);
    } else if (!strcmp(op, "addstr") && nw == 2) {
        if (!unhex(w[1], &a)) return 0;
        char *s = cstr_exact(&a);
        bool r; WIN(r = qgrow_addstr(G, s));
        memset(s, 0xAA, a.n + 1); free(s); scribble_free(&a); res_bool(r, E);
    } else if (!strcmp(op, "addstrf") && nw == 3) {
        /* fixed format "%s=%d" */
        if (!unhex(w[1], &a)) return 0;
        char *s = cstr_exact(&a);
        bool r; WIN(r = qgrow_addstrf(G, "%s=%d", s, atoi(w[2])));
        memset(s, 0xAA, a.n + 1); free(s); scribble_free(&a); res_bool(r, E);
    } else if (!strcmp(op, "addstrfs") && nw == 2) {
        /* format "%s": the formatted length is exactly the length of the argument (0 included) */
        if (!unhex(w[1], &a)) return 0;
        char *s = cstr_exact(&a);
        bool r; WIN(r = qgrow_addstrf(G, "%s", s));
        memset(s, 0xAA, a.n + 1); free(s); scribble_free(&a); res_bool(r, E);
    } else if (!strcmp(op, "inv") && nw == 1) {
        inv_grow();
    } else if (!strcmp(op, "size") && nw == 1) {
        printf("n %zu", qgrow_size(G));
    } else if (!strcmp(op, "datasize") && nw == 1) {
        printf("n %zu", qgrow_datasize(G));
    } else if (!strcmp(op, "toarray") && nw == 1) {
        sz = 7777;
        void *d; WIN(d = qgrow_toarray(G, &sz));
        res_data(d, sz, E, true); printf(" size=%zu", sz);
    } else if (!strcmp(op, "tostring") && nw == 1) {
        char *s; WIN(s = qgrow_tostring(G)); res_str(s, E);
    } else if (!strcmp(op, "clear") && nw == 1) {
        WIN(qgrow_clear(G)); printf("ok");
    } else {
        return 0;
    }
    return 1;
}

/* ---- `hugeseq <pieces> <piecesize>` (thorough tier only, no model line): a list and a grow buffer
 * holding more than 2^31 bytes in total; datasize, toarray (size and every byte) and a getnext walk
 * are verified against the generating function. Prints `ok` or the first mismatch. */
static unsigned char hs_byte(size_t piece, size_t off) { return (unsigned char) ((piece * 131u + off * 7u + (off >> 8)) & 0xff); }
static int hs_check_flat(const unsigned char *a, size_t pieces, size_t ps, const char *what) {
    for (size_t p = 0; p < pieces; p++)
        for (size_t o = 0; o < ps; o += (o < 64 || o + 64 >= ps) ? 1 : 997)
            if (a[p * ps + o] != hs_byte(p, o)) { printf("mismatch: %s byte %zu of piece %zu", what, o, p); return 0; }
    return 1;
}
static void do_hugeseq(size_t pieces, size_t ps) {
    unsigned char *el = malloc(ps);
    qlist_t *l = qlist(0); qgrow_t *g = qgrow(0);
    int ok = 0;
    if (!el || !l || !g) { printf("no-memory"); goto out; }
    for (size_t p = 0; p < pieces; p++) {
        for (size_t o = 0; o < ps; o++) el[o] = hs_byte(p, o);
        if (!qlist_addlast(l, el, ps) || !qgrow_add(g, el, ps)) { printf("mismatch: add #%zu failed (%s)", p, errname(errno)); goto out; }
    }
    if (qlist_size(l) != pieces || qlist_datasize(l) != pieces * ps || qgrow_size(g) != pieces || qgrow_datasize(g) != pieces * ps) {
        printf("mismatch: size/datasize %zu/%zu, expected %zu/%zu", qlist_size(l), qlist_datasize(l), pieces, pieces * ps); goto out;
    }
    for (int which = 0; which < 2; which++) {
        size_t sz = 12345;
        unsigned char *a = which ? qgrow_toarray(g, &sz) : qlist_toarray(l, &sz);
        if (a == NULL) { printf("no-memory"); goto out; }
        if (sz != pieces * ps) { printf("mismatch: %s toarray reports size %zu, expected %zu", which ? "grow" : "list", sz, pieces * ps); vf_free(a); goto out; }
        int good = hs_check_flat(a, pieces, ps, which ? "grow toarray" : "list toarray");
        vf_free(a);
        if (!good) goto out;
    }
    {
        qlist_obj_t o; memset(&o, 0, sizeof(o)); size_t p = 0;
        while (qlist_getnext(l, &o, false)) {
            if (p >= pieces || o.size != ps || ((unsigned char *) o.data)[ps - 1] != hs_byte(p, ps - 1)) { printf("mismatch: walk element %zu", p); goto out; }
            p++;
        }
        if (p != pieces) { printf("mismatch: walk ended after %zu of %zu", p, pieces); goto out; }
    }
    ok = 1;
out:
    if (l) qlist_free(l);
    if (g) qgrow_free(g);
    free(el);
    if (ok) printf("ok live=%ld", aw_live);
}

int main(void) {
    char *line = NULL; size_t cap = 0; ssize_t len;
    harness_init();
    while ((len = getline(&line, &cap, stdin)) > 0) {
        char *w[MAXW]; int nw = split_words(line, w);
        if (nw == 0) continue;
        int done = 0;
        if ((!strcmp(w[0], "obsoff") || !strcmp(w[0], "obson")) && nw == 1) {
            obs_private = !strcmp(w[0], "obsoff");
            printf("ok\n"); fflush(stdout); continue;
        }
        if ((!strcmp(w[0], "fault") || !strcmp(w[0], "faultfrom")) && nw == 2) {
            aw_arm(atol(w[1]), w[0][5] == 'f');
            printf("ok\n"); fflush(stdout); continue;
        }
        if (!strcmp(w[0], "hugeseq") && nw == 3) {
            do_hugeseq(strtoull(w[1], NULL, 10), strtoull(w[2], NULL, 10));
            printf("\n"); fflush(stdout); continue;
        }
        if (!strcmp(w[0], "end") && nw == 1) {
            /* C11: once the container is released every block it allocated is freed;
             * C12: the copies handed out have survived the release */
            free_all();
            long bad = check_kept();
            printf("end live=%ld bad=%ld\n", aw_live, bad); fflush(stdout); continue;
        }
        if (!strcmp(w[0], "new") && (nw == 2 || nw == 3)) {
            int opt = nw == 3 ? atoi(w[2]) : 0;
            int k = !strcmp(w[1], "list") ? K_LIST : !strcmp(w[1], "queue") ? K_QUEUE
                  : !strcmp(w[1], "stack") ? K_STACK : !strcmp(w[1], "grow") ? K_GROW : K_NONE;
            if (k == K_NONE) { printf("bad-op\n"); fflush(stdout); continue; }
            free_all();
            long bad = check_kept();
            memset(&cur, 0, sizeof(cur));
            void *p = NULL;
            plant_restart((unsigned long) k * 3 + (unsigned long) opt);
            if (k == K_LIST) { WIN(L = qlist(opt)); p = L; }
            else if (k == K_QUEUE) { WIN(Q = qqueue(opt)); p = Q; }
            else if (k == K_STACK) { WIN(S = qstack(opt)); p = S; }
            else { WIN(G = qgrow(opt)); p = G; }
            if (bad) printf("KEPT-BAD=%ld ", bad);
            if (p == NULL) { printf("null %s live=%ld\n", errname(E), live_blocks()); fflush(stdout); continue; }
            kind = k;
            printf("ok"); done = 1;
        } else if (kind != K_NONE && !strcmp(w[0], "lockprobe") && nw == 1) { do_lockprobe(); done = 1; }
        else if (kind == K_LIST) done = do_list(nw, w);
        else if (kind == K_QUEUE || kind == K_STACK) done = do_qs(nw, w);
        else if (kind == K_GROW) done = do_grow(nw, w);
        if (!done) { printf("bad-op\n"); fflush(stdout); continue; }
        dump();
        printf("\n");
        fflush(stdout);     /* a sanitizer abort must not lose the lines of the operations before it */
    }
    free(line);
    free_all();
    check_kept(); free(kept);
    return 0;
}

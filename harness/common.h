/* Shared helpers of the correspondence harnesses: line protocol, hex arguments, exactly sized
 * heap copies of caller data (so that a one-byte over-read traps under ASan). */
#ifndef VERIF_COMMON_H
#define VERIF_COMMON_H
#define _GNU_SOURCE
#include <stdio.h>
#include <stdlib.h>
#include <string.h>
#include <stdbool.h>
#include <stdint.h>
#include <errno.h>
#include <unistd.h>

#define MAXW 64
typedef struct { unsigned char *p; size_t n; } bytes_t;

static int hexval(int c) {
    if (c >= '0' && c <= '9') return c - '0';
    if (c >= 'a' && c <= 'f') return c - 'a' + 10;
    return -1;
}

/* decode a hex word into an exactly sized malloc block (size n, or 1 unused byte when n == 0 so
 * that the pointer is non-NULL); returns false on malformed hex */
static bool unhex(const char *w, bytes_t *out) {
    if (strcmp(w, "-") == 0) { out->p = malloc(1); out->n = 0; return true; }
    size_t l = strlen(w);
    if (l % 2) return false;
    out->n = l / 2;
    out->p = malloc(out->n ? out->n : 1);
    for (size_t i = 0; i < out->n; i++) {
        int a = hexval(w[2*i]), b = hexval(w[2*i+1]);
        if (a < 0 || b < 0) { free(out->p); return false; }
        out->p[i] = (unsigned char)(a * 16 + b);
    }
    return true;
}

/* exactly sized NUL-terminated copy of a byte string (n + 1 bytes) */
static char *cstr_exact(const bytes_t *b) {
    char *s = malloc(b->n + 1);
    memcpy(s, b->p, b->n);
    s[b->n] = '\0';
    return s;
}

static void puthex(FILE *f, const void *p, size_t n) {
    const unsigned char *q = p;
    if (n == 0) { fputc('-', f); return; }
    for (size_t i = 0; i < n; i++) fprintf(f, "%02x", q[i]);
}

/* split a line in place into at most MAXW blank-separated words */
static int split_words(char *line, char **w) {
    int n = 0;
    char *save = NULL;
    for (char *t = strtok_r(line, " \t\r\n", &save); t && n < MAXW; t = strtok_r(NULL, " \t\r\n", &save))
        w[n++] = t;
    return n;
}

static const char *errname(int e) {
    switch (e) {
        case 0: return "0";
        case ENOENT: return "ENOENT";
        case EINVAL: return "EINVAL";
        case ENOMEM: return "ENOMEM";
        case ENOBUFS: return "ENOBUFS";
        case ERANGE: return "ERANGE";
        case EFAULT: return "EFAULT";
        case EEXIST: return "EEXIST";
        case EPERM: return "EPERM";
        default: return "EOTHER";
    }
}

/* stdout is fully buffered for speed; make sure everything printed before a sanitizer abort
 * reaches the transcript, so that the failing operation is the first one without a result */
void __sanitizer_set_death_callback(void (*cb)(void)) __attribute__((weak));
#include <signal.h>
#include <fcntl.h>
#include <unistd.h>
/* a scratch file the harness owns (removed on every exit path, also a sanitizer death) */
static const char *verif_tmp_path = NULL;
static void verif_flush_cb(void) { fflush(stdout); if (verif_tmp_path) unlink(verif_tmp_path); }
static void verif_abort_handler(int sig) { (void) sig; verif_flush_cb(); _exit(99); }
static void harness_init(void) {
    setvbuf(stdout, NULL, _IOFBF, 1 << 16);
    /* the operation lines arrive on descriptor 0; move them to a high descriptor and CLOSE 0, so that
     * the library runs in a daemon's situation: its first open() returns descriptor 0 (a valid one) */
    {
        int nfd = fcntl(0, F_DUPFD, 100);
        if (nfd >= 0) {
            FILE *f = fdopen(nfd, "r");
            if (f) { close(0); stdin = f; } else close(nfd);
        }
    }
    if (__sanitizer_set_death_callback) __sanitizer_set_death_callback(verif_flush_cb);
    /* UBSan (a second runtime) and assert() end in abort(): flush there too */
    signal(SIGABRT, verif_abort_handler);
}

#endif

/* C13 harness: a deterministic baton scheduler serialising 2-3 real threads that operate on ONE
 * thread-safe container.  Exactly one thread runs at a time; control can change hands only at the
 * switch points "before pthread_mutex_trylock" and "after pthread_mutex_unlock" of the container
 * mutex (wrapped at link time; outermost acquisition and final release of the recursive mutex), and
 * when a thread ends.  Code between two switch points of a thread -- the post-unlock code of one
 * operation and the pre-lock code of the next -- runs without interruption.  The schedule is a
 * list of thread choices, one per switch point; beyond the given prefix the running thread
 * continues (or the lowest enabled thread takes over).  The harness reports the choices made and
 * the set of enabled threads at each point, so the caller can enumerate ALL schedules (stateless
 * depth-first search), plus every operation's result with invocation/response stamps and the final
 * content of the container.
 *
 * A thread that is about to trylock while another thread owns the mutex is disabled until the mutex
 * is free (the spin/usleep loop of Q_MUTEX_ENTER is not executed).
 *
 * line:   <kind> init=<n> [range=<r>] [opt=<o>|unique] [max=<n>] t0=<op,op,...> t1=<...> [t2=<...>] sched=<c.c.c|->
 *         big=1: string values are 300 bytes long ("v<n>" + padding, printed as "v<n>" when intact, as
 *         "corrupt(..)" otherwise): a copy made from freed or half-replaced memory shows up
 *         ints=1: queue/stack pre-filled with pushint(100+i); use pushint/popint/getint (not mixed with strings)
 *         max=<n>: list/queue/stack only -- setsize(n) after creating and pre-filling the container
 *         (add/push beyond the limit must fail with ENOBUFS); opt=unique = QLISTTBL_UNIQUE
 *         op = name[:arg[:arg]]   (see do_op)
 * result: sched=<choices> alts=<enabled bitmasks> ops=<tid.idx:inv:resp:result;...> final=<content> [status]
 *
 * free-running mode (`free=1`): no baton, threads run concurrently (TSan stress); same output
 * without sched/alts.
 */
#include "common.h"
#include <pthread.h>
#include <malloc.h>
#include <stdarg.h>
#include "qlibc.h"

#define MAXT 4
#define MAXOPS 64
#define MAXPTS 4096

int __real_pthread_mutex_trylock(pthread_mutex_t *m);
int __real_pthread_mutex_lock(pthread_mutex_t *m);
int __real_pthread_mutex_unlock(pthread_mutex_t *m);
int __real_usleep(unsigned usec);

/* ------------------------------------------------------------------ scheduler */
static pthread_mutex_t smx = PTHREAD_MUTEX_INITIALIZER;
static pthread_cond_t scv = PTHREAD_COND_INITIALIZER;
static int sched_on;                 /* baton mode active */
static int nthreads;
static int current = -1;             /* thread holding the baton */
static __thread int me = -1;         /* worker id, -1 = not a worker */
enum { ST_RUN, ST_WANT, ST_DONE };
static int tstate[MAXT];
static int lock_owner = -1, lock_depth;
static int prefix[MAXPTS], nprefix;
static int choices[MAXPTS], alts[MAXPTS], npts;
static long stamp;                   /* global event counter (only the baton holder touches it) */
static int deadlock, badsched;

static int enabled(int t) {
    if (tstate[t] == ST_DONE) return 0;
    if (tstate[t] == ST_WANT && lock_owner >= 0 && lock_owner != t) return 0;
    return 1;
}

/* called by the baton holder at a switch point; returns when this thread may continue */
static void switch_point(void) {
    if (!sched_on || me < 0) return;
    __real_pthread_mutex_lock(&smx);
    stamp++;
    int mask = 0, n = 0, first = -1;
    for (int t = 0; t < nthreads; t++) if (enabled(t)) { mask |= 1 << t; n++; if (first < 0) first = t; }
    int pick;
    if (n == 0) {
        /* nobody can run: every unfinished thread waits for a mutex that is never released */
        int unfinished = 0;
        for (int t = 0; t < nthreads; t++) if (tstate[t] != ST_DONE) unfinished = 1;
        if (unfinished) deadlock = 1;
        current = -2;                 /* releases main */
        pthread_cond_broadcast(&scv);
        __real_pthread_mutex_unlock(&smx);
        if (tstate[me] != ST_DONE) pthread_exit(NULL);
        return;
    }
    if (npts < nprefix) {
        pick = prefix[npts];
        if (pick < 0 || pick >= nthreads || !enabled(pick)) { badsched = 1; pick = first; }
    } else {
        pick = enabled(me) ? me : first;
    }
    if (npts < MAXPTS) { choices[npts] = pick; alts[npts] = mask; npts++; }
    current = pick;
    pthread_cond_broadcast(&scv);
    if (tstate[me] != ST_DONE)
        while (current != me && current != -2) pthread_cond_wait(&scv, &smx);
    int dead = (current == -2);
    __real_pthread_mutex_unlock(&smx);
    if (dead && tstate[me] != ST_DONE) pthread_exit(NULL);
}

int __wrap_pthread_mutex_trylock(pthread_mutex_t *m) {
    if (sched_on && me >= 0 && lock_owner != me) {      /* outermost acquisition only */
        tstate[me] = ST_WANT;
        switch_point();
        tstate[me] = ST_RUN;
    }
    int r = __real_pthread_mutex_trylock(m);
    if (sched_on && me >= 0 && r == 0) { lock_owner = me; lock_depth++; }
    return r;
}
int __wrap_pthread_mutex_lock(pthread_mutex_t *m) { return __real_pthread_mutex_lock(m); }
int __wrap_pthread_mutex_unlock(pthread_mutex_t *m) {
    int r = __real_pthread_mutex_unlock(m);
    if (sched_on && me >= 0 && r == 0) {
        if (lock_owner == me && --lock_depth == 0) { lock_owner = -1; switch_point(); }   /* final release only */
    }
    return r;
}
int __wrap_usleep(unsigned usec) { return __real_usleep(usec); }

/* ------------------------------------------------------------------ the client program */
typedef struct { char name[16]; long a, b; int has_a, has_b; } op_t;
static op_t prog[MAXT][MAXOPS];
static int nops[MAXT];
static char results[MAXT][MAXOPS][256];
static long inv_t[MAXT][MAXOPS], res_t[MAXT][MAXOPS];
static const char *kind;
static void *cont;                    /* the shared container */
static int freerun;
static int ints;                      /* queue/stack: elements are int64 (pushint/popint/getint), not strings */

static void res(char *out, const char *fmt, ...) {
    va_list ap; va_start(ap, fmt); vsnprintf(out, 256, fmt, ap); va_end(ap);
    /* results go into a line protocol: bytes of a copy taken from freed memory must not break it */
    for (unsigned char *q = (unsigned char *) out; *q; q++) if (*q < 0x21 || *q > 0x7e || *q == ';') *q = '?';
}
static void kstr(long k, char *b) { snprintf(b, 16, "k%02ld", k); }
#define BIG 300
#define VB 320
static int big;                      /* values are "v<n>" padded with 'x' to BIG characters */
static void vstr(long v, char *b) {
    int n = snprintf(b, VB, "v%ld", v);
    if (big) { memset(b + n, 'x', BIG - n); b[BIG] = 0; }
}
/* a value as it is printed: with big=1 the padding is checked and stripped */
static const char *canon(const char *p, char *buf) {
    if (!big) return p;
    size_t l = strnlen(p, BIG + 8);
    size_t i = 1;
    if (l == BIG && p[0] == 'v') {
        while (i < l && p[i] >= '0' && p[i] <= '9') i++;
        size_t j = i;
        while (j < l && p[j] == 'x') j++;
        if (i > 1 && j == l) { snprintf(buf, 64, "%.*s", (int) i, p); return buf; }
    }
    snprintf(buf, 64, "corrupt(len=%zu):%.12s", l, p);
    for (char *q = buf; *q; q++) if (*q <= ' ' || *q == ';' || *q == ':' && q > buf + 16 || *q == ',') *q = '?';
    return buf;
}

static void hexout(char *out, const void *p, size_t n, size_t reported) {
    /* "size:hex" -- the reported size and the bytes actually present (bounded by the block size) */
    size_t lim = p ? malloc_usable_size((void *) p) : 0;
    if (n > lim) n = lim;
    int o = snprintf(out, 256, "%zu:", reported);
    const unsigned char *q = p;
    for (size_t i = 0; i < n && o < 250; i++) o += snprintf(out + o, 256 - o, "%02x", q[i]);
    if (n == 0) snprintf(out + o, 256 - o, "-");
}

static void do_op(op_t *o, char *out) {
    const char *f = o->name;
    char kb[16], vb[VB], cb[64]; (void) cb;
    if (!strcmp(kind, "vector")) {
        qvector_t *v = cont; int32_t x = (int32_t) o->a, y = (int32_t) o->b;
        if (!strcmp(f, "addlast")) res(out, "%d", v->addlast(v, &x));
        else if (!strcmp(f, "addfirst")) res(out, "%d", v->addfirst(v, &x));
        else if (!strcmp(f, "addat")) res(out, "%d", v->addat(v, (int) o->a, &y));
        else if (!strcmp(f, "setat")) res(out, "%d", v->setat(v, (int) o->a, &y));
        else if (!strcmp(f, "popfirst") || !strcmp(f, "poplast") || !strcmp(f, "popat") || !strcmp(f, "getat")) {
            int32_t *p = !strcmp(f, "popfirst") ? v->popfirst(v) : !strcmp(f, "poplast") ? v->poplast(v)
                       : !strcmp(f, "popat") ? v->popat(v, (int) o->a) : v->getat(v, (int) o->a, true);
            if (p) { res(out, "%d", *p); free(p); } else res(out, "null");
        }
        else if (!strcmp(f, "removefirst")) res(out, "%d", v->removefirst(v));
        else if (!strcmp(f, "removelast")) res(out, "%d", v->removelast(v));
        else if (!strcmp(f, "removeat")) res(out, "%d", v->removeat(v, (int) o->a));
        else if (!strcmp(f, "clear")) { v->clear(v); res(out, "void"); }
        else if (!strcmp(f, "reverse")) { v->reverse(v); res(out, "void"); }
        else if (!strcmp(f, "toarray")) {
            size_t n = 0; int32_t *a = v->toarray(v, &n);
            if (!a) res(out, "null:%zu", n);
            else { int k = snprintf(out, 256, "arr:%zu", n); size_t lim = malloc_usable_size(a) / 4; for (size_t i = 0; i < n && i < lim && k < 240; i++) k += snprintf(out + k, 256 - k, ",%d", a[i]); free(a); }
        }
        else res(out, "bad-op");
    } else if (!strcmp(kind, "list") || !strcmp(kind, "queue") || !strcmp(kind, "stack")) {
        qlist_t *l = !strcmp(kind, "list") ? cont : !strcmp(kind, "queue") ? ((qqueue_t *) cont)->list : ((qstack_t *) cont)->list;
        size_t n = 0; char *p = NULL; int isp = 0;
        vstr(o->a, vb);
        if (!strcmp(kind, "queue") && !strcmp(f, "pushint")) res(out, "%d", ((qqueue_t *) cont)->pushint(cont, (int64_t) o->a));
        else if (!strcmp(kind, "queue") && !strcmp(f, "popint")) res(out, "%lld", (long long) ((qqueue_t *) cont)->popint(cont));
        else if (!strcmp(kind, "queue") && !strcmp(f, "getint")) res(out, "%lld", (long long) ((qqueue_t *) cont)->getint(cont));
        else if (!strcmp(kind, "stack") && !strcmp(f, "pushint")) res(out, "%d", ((qstack_t *) cont)->pushint(cont, (int64_t) o->a));
        else if (!strcmp(kind, "stack") && !strcmp(f, "popint")) res(out, "%lld", (long long) ((qstack_t *) cont)->popint(cont));
        else if (!strcmp(kind, "stack") && !strcmp(f, "getint")) res(out, "%lld", (long long) ((qstack_t *) cont)->getint(cont));
        else if (!strcmp(kind, "queue") && !strcmp(f, "getstr")) { p = ((qqueue_t *) cont)->getstr(cont); isp = 1; }
        else if (!strcmp(kind, "stack") && !strcmp(f, "getstr")) { p = ((qstack_t *) cont)->getstr(cont); isp = 1; }
        else if (!strcmp(kind, "queue") && (!strcmp(f, "push") || !strcmp(f, "pushstr"))) res(out, "%d", ((qqueue_t *) cont)->pushstr(cont, vb));
        else if (!strcmp(kind, "queue") && !strcmp(f, "popstr")) { p = ((qqueue_t *) cont)->popstr(cont); isp = 1; }
        else if (!strcmp(kind, "stack") && (!strcmp(f, "pushstr"))) res(out, "%d", ((qstack_t *) cont)->pushstr(cont, vb));
        else if (!strcmp(kind, "stack") && !strcmp(f, "popstr")) { p = ((qstack_t *) cont)->popstr(cont); isp = 1; }
        else if (!strcmp(kind, "queue") && !strcmp(f, "push")) res(out, "%d", ((qqueue_t *) cont)->pushstr(cont, vb));
        else if (!strcmp(kind, "queue") && !strcmp(f, "pop")) { p = ((qqueue_t *) cont)->popstr(cont); isp = 1; }
        else if (!strcmp(kind, "stack") && !strcmp(f, "push")) res(out, "%d", ((qstack_t *) cont)->pushstr(cont, vb));
        else if (!strcmp(kind, "stack") && !strcmp(f, "pop")) { p = ((qstack_t *) cont)->popstr(cont); isp = 1; }
        else if (!strcmp(f, "addlast")) res(out, "%d", l->addlast(l, vb, strlen(vb) + 1));
        else if (!strcmp(f, "addfirst")) res(out, "%d", l->addfirst(l, vb, strlen(vb) + 1));
        else if (!strcmp(f, "addat")) { vstr(o->b, vb); res(out, "%d", l->addat(l, (int) o->a, vb, strlen(vb) + 1)); }
        else if (!strcmp(f, "popfirst")) { p = l->popfirst(l, &n); isp = 1; }
        else if (!strcmp(f, "poplast")) { p = l->poplast(l, &n); isp = 1; }
        else if (!strcmp(f, "popat")) { p = l->popat(l, (int) o->a, &n); isp = 1; }
        else if (!strcmp(f, "getat")) { p = l->getat(l, (int) o->a, &n, true); isp = 1; }
        else if (!strcmp(f, "removefirst")) res(out, "%d", l->removefirst(l));
        else if (!strcmp(f, "removelast")) res(out, "%d", l->removelast(l));
        else if (!strcmp(f, "removeat")) res(out, "%d", l->removeat(l, (int) o->a));
        else if (!strcmp(f, "setsize")) res(out, "%zu", l->setsize(l, (size_t) o->a));
        else if (!strcmp(f, "clear")) { l->clear(l); res(out, "void"); }
        else if (!strcmp(f, "reverse")) { l->reverse(l); res(out, "void"); }
        else if (!strcmp(f, "toarray")) { n = 0; void *a = l->toarray(l, &n); if (!a) res(out, "null:%zu", n); else { hexout(out, a, n, n); free(a); } }
        else if (!strcmp(f, "tostring")) { char *s = l->tostring(l); if (!s) res(out, "null"); else { res(out, "str:%s", s); free(s); } }
        else res(out, "bad-op");
        if (isp) { if (p) { res(out, "%s", canon(p, cb)); free(p); } else res(out, "null"); }
    } else {
        kstr(o->a, kb); vstr(o->b, vb);
        char *p = NULL; int isp = 0;
        if (!strcmp(kind, "hashtbl")) {
            qhashtbl_t *t = cont;
            if (!strcmp(f, "put") || !strcmp(f, "putstr")) res(out, "%d", t->putstr(t, kb, vb));
            else if (!strcmp(f, "putint")) res(out, "%d", t->putint(t, kb, (int64_t) o->b));
            else if (!strcmp(f, "putstrf")) res(out, "%d", t->putstrf(t, kb, "%s-%d", "f", (int) o->b));
            else if (!strcmp(f, "getint")) res(out, "%lld", (long long) t->getint(t, kb));
            else if (!strcmp(f, "get") || !strcmp(f, "getstr")) { p = t->getstr(t, kb, true); isp = 1; }
            else if (!strcmp(f, "remove")) res(out, "%d", t->remove(t, kb));
            else if (!strcmp(f, "clear")) { t->clear(t); res(out, "void"); }
            else res(out, "bad-op");
        } else if (!strcmp(kind, "listtbl")) {
            qlisttbl_t *t = cont;
            if (!strcmp(f, "put") || !strcmp(f, "putstr")) res(out, "%d", t->putstr(t, kb, vb));
            else if (!strcmp(f, "putint")) res(out, "%d", t->putint(t, kb, (int64_t) o->b));
            else if (!strcmp(f, "putstrf")) res(out, "%d", t->putstrf(t, kb, "%s-%d", "f", (int) o->b));
            else if (!strcmp(f, "getint")) res(out, "%lld", (long long) t->getint(t, kb));
            else if (!strcmp(f, "get") || !strcmp(f, "getstr")) { p = t->getstr(t, kb, true); isp = 1; }
            else if (!strcmp(f, "remove")) res(out, "%zu", t->remove(t, kb));
            else if (!strcmp(f, "clear")) { t->clear(t); res(out, "void"); }
            else res(out, "bad-op");
        } else if (!strcmp(kind, "treetbl")) {
            qtreetbl_t *t = cont;
            if (!strcmp(f, "put") || !strcmp(f, "putstr")) res(out, "%d", t->putstr(t, kb, vb));
            else if (!strcmp(f, "putstrf")) res(out, "%d", t->putstrf(t, kb, "%s-%d", "f", (int) o->b));
            else if (!strcmp(f, "get") || !strcmp(f, "getstr")) { p = t->getstr(t, kb, true); isp = 1; }
            else if (!strcmp(f, "remove")) res(out, "%d", t->remove(t, kb));
            else if (!strcmp(f, "clear")) { t->clear(t); res(out, "void"); }
            else if (!strcmp(f, "min")) { p = t->find_min(t, NULL); isp = 1; }
            else if (!strcmp(f, "nearest")) {
                qtreetbl_obj_t ob = t->find_nearest(t, kb, strlen(kb) + 1, true);
                free(ob.name); p = ob.data; isp = 1;
            }
            else res(out, "bad-op");
        } else res(out, "bad-kind");
        if (isp) { if (p) { res(out, "%s", canon(p, cb)); free(p); } else res(out, "null"); }
    }
}

static void *worker(void *arg) {
    me = (int) (long) arg;
    if (sched_on) {
        __real_pthread_mutex_lock(&smx);
        while (current != me && current != -2) pthread_cond_wait(&scv, &smx);
        int dead = current == -2;
        __real_pthread_mutex_unlock(&smx);
        if (dead) return NULL;
    }
    for (int i = 0; i < nops[me]; i++) {
        if (sched_on) inv_t[me][i] = ++stamp;
        do_op(&prog[me][i], results[me][i]);
        if (sched_on) res_t[me][i] = ++stamp;
    }
    tstate[me] = ST_DONE;
    if (sched_on) switch_point();
    return NULL;
}

/* ------------------------------------------------------------------ setup, final content */
static void make_container(int init, int range, int opt, int max) {
    char kb[16], vb[VB], cb[64]; (void) cb;
    if (!strcmp(kind, "vector")) {
        qvector_t *v = qvector(0, 4, QVECTOR_THREADSAFE | (opt ? opt : QVECTOR_RESIZE_DOUBLE));
        for (int i = 0; i < init; i++) { int32_t x = 100 + i; v->addlast(v, &x); }
        cont = v;
    } else if (!strcmp(kind, "list")) {
        qlist_t *l = qlist(QLIST_THREADSAFE);
        for (int i = 0; i < init; i++) { vstr(100 + i, vb); l->addlast(l, vb, strlen(vb) + 1); }
        if (max > 0) l->setsize(l, (size_t) max);
        cont = l;
    } else if (!strcmp(kind, "queue")) {
        qqueue_t *q = qqueue(QQUEUE_THREADSAFE);
        for (int i = 0; i < init; i++) { if (ints) q->pushint(q, 100 + i); else { vstr(100 + i, vb); q->pushstr(q, vb); } }
        if (max > 0) q->setsize(q, (size_t) max);
        cont = q;
    } else if (!strcmp(kind, "stack")) {
        qstack_t *q = qstack(QSTACK_THREADSAFE);
        for (int i = 0; i < init; i++) { if (ints) q->pushint(q, 100 + i); else { vstr(100 + i, vb); q->pushstr(q, vb); } }
        if (max > 0) q->setsize(q, (size_t) max);
        cont = q;
    } else if (!strcmp(kind, "hashtbl")) {
        qhashtbl_t *t = qhashtbl(range, QHASHTBL_THREADSAFE);
        for (int i = 0; i < init; i++) { kstr(i, kb); vstr(100 + i, vb); t->putstr(t, kb, vb); }
        cont = t;
    } else if (!strcmp(kind, "listtbl")) {
        qlisttbl_t *t = qlisttbl(QLISTTBL_THREADSAFE | opt);
        for (int i = 0; i < init; i++) { kstr(i, kb); vstr(100 + i, vb); t->putstr(t, kb, vb); }
        cont = t;
    } else if (!strcmp(kind, "treetbl")) {
        qtreetbl_t *t = qtreetbl(QTREETBL_THREADSAFE);
        for (int i = 0; i < init; i++) { kstr(i, kb); vstr(100 + i, vb); t->putstr(t, kb, vb); }
        cont = t;
    } else cont = NULL;
}

static void final_content(void) {
    /* through the public structs, without taking the lock (all workers are gone) */
    if (!strcmp(kind, "vector")) {
        qvector_t *v = cont; printf("%zu", v->num);
        for (size_t i = 0; i < v->num && i < 64; i++) printf(",%d", ((int32_t *) v->data)[i]);
    } else if (!strcmp(kind, "list") || !strcmp(kind, "queue") || !strcmp(kind, "stack")) {
        qlist_t *l = !strcmp(kind, "list") ? cont : !strcmp(kind, "queue") ? ((qqueue_t *) cont)->list : ((qstack_t *) cont)->list;
        size_t cnt = 0, sum = 0;
        for (qlist_obj_t *o = l->first; o && cnt < 100; o = o->next) { cnt++; sum += o->size; }
        printf("%zu/%zu/%zu", l->num, cnt, l->datasum == sum ? (size_t) 1 : (size_t) 0);
        cnt = 0;
        for (qlist_obj_t *o = l->first; o && cnt < 100; o = o->next, cnt++) {
            if (ints && o->size == sizeof(int64_t)) printf(",%lld", (long long) *(int64_t *) o->data); else { char cb[64]; printf(",%s", canon((char *) o->data, cb)); }
        }
    } else if (!strcmp(kind, "hashtbl")) {
        qhashtbl_t *t = cont; printf("%zu", t->num);
        for (size_t i = 0; i < t->range; i++) for (qhashtbl_obj_t *o = t->slots[i]; o; o = o->next) { char cb[64]; printf(",%s=%s", o->name, canon((char *) o->data, cb)); }
    } else if (!strcmp(kind, "listtbl")) {
        qlisttbl_t *t = cont; printf("%zu", t->num);
        size_t cnt = 0;
        for (qlisttbl_obj_t *o = t->first; o && cnt < 100; o = o->next, cnt++) { char cb[64]; printf(",%s=%s", o->name, canon((char *) o->data, cb)); }
    } else if (!strcmp(kind, "treetbl")) {
        qtreetbl_t *t = cont; printf("%zu/%d", t->num, qtreetbl_check(t));
        qtreetbl_obj_t o; memset(&o, 0, sizeof(o));
        int cnt = 0;
        while (t->getnext(t, &o, false) && cnt++ < 100) { char cb[64]; printf(",%s=%s", (char *) o.name, canon((char *) o.data, cb)); }
    }
}

static void free_container(void) {
    if (!cont) return;
    if (!strcmp(kind, "vector")) ((qvector_t *) cont)->free(cont);
    else if (!strcmp(kind, "list")) ((qlist_t *) cont)->free(cont);
    else if (!strcmp(kind, "queue")) ((qqueue_t *) cont)->free(cont);
    else if (!strcmp(kind, "stack")) ((qstack_t *) cont)->free(cont);
    else if (!strcmp(kind, "hashtbl")) ((qhashtbl_t *) cont)->free(cont);
    else if (!strcmp(kind, "listtbl")) ((qlisttbl_t *) cont)->free(cont);
    else if (!strcmp(kind, "treetbl")) ((qtreetbl_t *) cont)->free(cont);
    cont = NULL;
}

static int parse_prog(int t, char *s) {
    nops[t] = 0;
    char *save = NULL;
    for (char *tok = strtok_r(s, ",", &save); tok; tok = strtok_r(NULL, ",", &save)) {
        if (nops[t] >= MAXOPS) return 0;
        op_t *o = &prog[t][nops[t]++];
        memset(o, 0, sizeof(*o));
        char *c1 = strchr(tok, ':');
        if (c1) { *c1 = 0; char *c2 = strchr(c1 + 1, ':'); if (c2) { *c2 = 0; o->b = atol(c2 + 1); o->has_b = 1; } o->a = atol(c1 + 1); o->has_a = 1; }
        snprintf(o->name, sizeof(o->name), "%s", tok);
    }
    return 1;
}

int main(void) {
    char *line = NULL; size_t cap = 0; ssize_t len;
    setvbuf(stdout, NULL, _IOFBF, 1 << 16);
    while ((len = getline(&line, &cap, stdin)) > 0) {
        char *w[MAXW]; int nw = split_words(line, w);
        if (nw == 0) continue;
        kind = w[0];
        int init = 0, range = 3, opt = 0, max = 0, bad = 0, reps = 1;
        nthreads = 0; nprefix = 0; freerun = 0; ints = 0; big = 0;
        for (int t = 0; t < MAXT; t++) nops[t] = 0;
        for (int i = 1; i < nw; i++) {
            char *eq = strchr(w[i], '='); if (!eq) { bad = 1; break; }
            *eq = 0; char *v = eq + 1;
            if (!strcmp(w[i], "init")) init = atoi(v);
            else if (!strcmp(w[i], "range")) range = atoi(v);
            else if (!strcmp(w[i], "opt")) opt = !strcmp(v, "unique") ? QLISTTBL_UNIQUE : atoi(v);
            else if (!strcmp(w[i], "max")) max = atoi(v);
            else if (!strcmp(w[i], "ints")) ints = atoi(v);
            else if (!strcmp(w[i], "big")) big = atoi(v);
            else if (!strcmp(w[i], "free")) freerun = atoi(v);
            else if (!strcmp(w[i], "reps")) reps = atoi(v);
            else if (w[i][0] == 't' && w[i][1] >= '0' && w[i][1] < '0' + MAXT && !w[i][2]) {
                int t = w[i][1] - '0'; if (!parse_prog(t, v)) bad = 1; if (t + 1 > nthreads) nthreads = t + 1;
            } else if (!strcmp(w[i], "sched")) {
                if (strcmp(v, "-")) { char *save = NULL; for (char *tok = strtok_r(v, ".", &save); tok && nprefix < MAXPTS; tok = strtok_r(NULL, ".", &save)) prefix[nprefix++] = atoi(tok); }
            } else bad = 1;
        }
        if (bad || nthreads < 1) { printf("bad-op\n"); continue; }
        for (int rep = 0; rep < reps; rep++) {
            make_container(init, range, opt, max);
            if (!cont) { printf("bad-kind\n"); break; }
            npts = 0; stamp = 0; deadlock = 0; badsched = 0; lock_owner = -1; lock_depth = 0;
            for (int t = 0; t < nthreads; t++) { tstate[t] = ST_RUN; for (int i = 0; i < nops[t]; i++) { results[t][i][0] = 0; inv_t[t][i] = res_t[t][i] = 0; } }
            sched_on = !freerun;
            current = -1;
            pthread_t th[MAXT];
            for (long t = 0; t < nthreads; t++) pthread_create(&th[t], NULL, worker, (void *) t);
            if (sched_on) {
                /* the first choice: who starts */
                __real_pthread_mutex_lock(&smx);
                int pick = (npts < nprefix) ? prefix[npts] : 0;
                if (pick < 0 || pick >= nthreads) { badsched = 1; pick = 0; }
                choices[npts] = pick; alts[npts] = (1 << nthreads) - 1; npts++;
                current = pick;
                pthread_cond_broadcast(&scv);
                __real_pthread_mutex_unlock(&smx);
            }
            for (int t = 0; t < nthreads; t++) pthread_join(th[t], NULL);
            sched_on = 0;
            printf("sched=");
            for (int i = 0; i < npts; i++) printf("%s%d", i ? "." : "", choices[i]);
            printf(" alts=");
            for (int i = 0; i < npts; i++) printf("%s%d", i ? "." : "", alts[i]);
            printf(" ops=");
            for (int t = 0; t < nthreads; t++) for (int i = 0; i < nops[t]; i++)
                printf("%d.%d:%ld:%ld:%s;", t, i, inv_t[t][i], res_t[t][i], results[t][i][0] ? results[t][i] : "unfinished");
            printf(" final=");
            if (deadlock) printf("-"); else final_content();
            printf(" status=%s\n", deadlock ? "deadlock" : badsched ? "bad-schedule" : "ok");
            fflush(stdout);               /* a crash in a later run must not swallow this line */
            if (!deadlock) free_container();   /* a leaked lock cannot be destroyed: abandon the container */
            cont = NULL;
        }
    }
    free(line);
    return 0;
}

/* Self-checking concurrency probe for the functions the models treat as pure functions of their
 * arguments (encoders / decoders, query and configuration parsers, string routines, the formatted
 * put of PRIVATE containers). Protocol: `mt <threads> <rounds> <seed>`: every thread gets private
 * inputs derived from (seed, thread); the expected results are computed first, one thread at a time;
 * then all threads run the same computations at once, <rounds> times, each on its own inputs and its
 * own containers. Prints `ok` or the first function whose result differed (hidden shared state: a
 * function-local static buffer, a global scratch variable). No model line (nomodel stream). */
#include "common.h"
#include "qlibc.h"
#include "extensions/qconfig.h"
#include "extensions/qaconf.h"
#include <pthread.h>
#include <stdarg.h>

typedef struct { char *p; size_t n, cap; } sbuf_t;
static void sb_add(sbuf_t *b, const char *fmt, ...) {
    va_list ap; va_start(ap, fmt);
    char tmp[8192];
    int k = vsnprintf(tmp, sizeof tmp, fmt, ap);
    va_end(ap);
    if (k < 0) k = 0;
    if ((size_t) k >= sizeof tmp) k = sizeof tmp - 1;
    if (b->n + (size_t) k + 1 > b->cap) { b->cap = (b->cap + (size_t) k + 1) * 2; b->p = realloc(b->p, b->cap); }
    memcpy(b->p + b->n, tmp, (size_t) k + 1); b->n += (size_t) k;
}

typedef struct { unsigned seed; int t; char tmpfile[96]; } job_t;   /* tmpfile: also the stem of <tmpfile>.main / .inc */

static unsigned rnd(unsigned *s) { *s = *s * 1103515245u + 12345u; return (*s >> 16) & 0x7fff; }
static void word(unsigned *s, char *out, int maxlen) {
    int n = 1 + (int) (rnd(s) % (unsigned) maxlen);
    for (int i = 0; i < n; i++) out[i] = (char) ('a' + rnd(s) % 26);
    out[n] = 0;
}

static char *ac_cb(qaconf_cbdata_t *data, void *userdata) {
    sbuf_t *b = userdata;
    sb_add(b, "[%d", (int) data->otype);
    for (int i = 0; i < data->argc; i++) sb_add(b, " %s", data->argv[i]);
    sb_add(b, "]");
    return NULL;
}

/* all results of one thread's inputs, as `label=value` lines */
static void compute(const job_t *j, sbuf_t *out) {
    unsigned s = j->seed * 7919u + (unsigned) j->t * 104729u + 1;
    char w1[40], w2[40], w3[40];
    /* --- query string (alternating '&' and '=' in _q_makeword), url / base64 / hex codecs */
    {
        sbuf_t q = {0};
        int pairs = 3 + (int) (rnd(&s) % 5);
        for (int i = 0; i < pairs; i++) { word(&s, w1, 6); word(&s, w2, 9); sb_add(&q, "%s%s=%s%%2B+x", i ? "&" : "", w1, w2); }
        qlisttbl_t *t = qparse_queries(NULL, q.p, '=', '&', NULL);
        sb_add(out, "query=");
        if (t) {
            qlisttbl_obj_t o; memset(&o, 0, sizeof o);
            while (t->getnext(t, &o, NULL, false)) sb_add(out, "%s:%s;", o.name, (char *) o.data);
            t->free(t);
        }
        sb_add(out, "\n");
        char *e = qurl_encode(q.p, q.n); sb_add(out, "urlenc=%s\n", e ? e : "(null)");
        if (e) { size_t n = qurl_decode(e); sb_add(out, "urldec=%zu:%s\n", n, e); free(e); }
        e = qbase64_encode(q.p, q.n); sb_add(out, "b64=%s\n", e ? e : "(null)");
        if (e) { size_t n = qbase64_decode(e); sb_add(out, "b64dec=%zu:%.*s\n", n, (int) n, e); free(e); }
        e = qhex_encode(q.p, q.n); sb_add(out, "hex=%s\n", e ? e : "(null)");
        if (e) { size_t n = qhex_decode(e); sb_add(out, "hexdec=%zu:%.*s\n", n, (int) n, e); free(e); }
        free(q.p);
    }
    /* --- string routines */
    {
        word(&s, w1, 12); word(&s, w2, 3); word(&s, w3, 5);
        char buf[128];
        snprintf(buf, sizeof buf, "  \t%s %s,%s:%s  \r\n", w1, w2, w3, w1);
        char *d = strdup(buf); qstrtrim(d); sb_add(out, "trim=%s\n", d);
        qstrupper(d); sb_add(out, "upper=%s\n", d); qstrlower(d); qstrrev(d); sb_add(out, "rev=%s\n", d); free(d);
        char *r = qstrreplace("sn", buf, w2, "<>"); sb_add(out, "replace=%s\n", r ? r : "(null)"); free(r);
        qlist_t *l = qstrtokenizer(buf, " ,:");
        sb_add(out, "tokens=");
        if (l) { qlist_obj_t o; memset(&o, 0, sizeof o); while (l->getnext(l, &o, false)) sb_add(out, "%s|", (char *) o.data); l->free(l); }
        sb_add(out, "\n");
        char *f = qstrdupf("%s-%d-%s", w1, j->t, w3); sb_add(out, "dupf=%s\n", f ? f : "(null)"); free(f);
        char *c = qstr_comma_number((int) (rnd(&s) * 7919u)); sb_add(out, "comma=%s\n", c ? c : "(null)"); free(c);
    }
    /* --- INI text and Apache-style file through the parsers */
    {
        sbuf_t ini = {0};
        for (int i = 0; i < 6; i++) { word(&s, w1, 7); word(&s, w2, 10); sb_add(&ini, i == 2 ? "[%s]\n" : "%s = %s\n", w1, w2); }
        sb_add(&ini, "ref = ${%s}\n", "ref0"); 
        qlisttbl_t *t = qconfig_parse_str(NULL, ini.p, '=');
        sb_add(out, "ini=");
        if (t) {
            qlisttbl_obj_t o; memset(&o, 0, sizeof o);
            while (t->getnext(t, &o, NULL, false)) sb_add(out, "%s:%s;", o.name, (char *) o.data);
            t->free(t);
        }
        sb_add(out, "\n");
        free(ini.p);
        FILE *fp = fopen(j->tmpfile, "w");
        if (fp) {
            for (int i = 0; i < 8; i++) { word(&s, w1, 9); word(&s, w2, 9); fprintf(fp, i == 3 ? "<Sec %s>\n" : i == 6 ? "</Sec>\n" : "Opt %s \"%s x\"\n", w1, w2); }
            fclose(fp);
            qaconf_t *conf = qaconf();
            sbuf_t ev = {0};
            qaconf_option_t opts[] = {
                {"Opt", QAC_TAKEALL, ac_cb, 0, QAC_SECTION_ALL}, {"Sec", QAC_TAKEALL, ac_cb, 1, QAC_SECTION_ALL}, QAC_OPTION_END };
            conf->addoptions(conf, opts);
            conf->setuserdata(conf, &ev);
            int n = conf->parse(conf, j->tmpfile, 0);
            sb_add(out, "aconf=%d:%s\n", n, ev.p ? ev.p : "");
            conf->free(conf); free(ev.p);
        }
    }
    /* --- qconfig_parse_file: a private main file that includes a private file (directive scan, splice,
     *     qfile_load, then the INI parser with section prefixes built by qstrdupf) */
    {
        char mainf[128], incf[128];
        snprintf(mainf, sizeof mainf, "%s.main", j->tmpfile);
        snprintf(incf, sizeof incf, "%s.inc", j->tmpfile);
        const char *base = strrchr(incf, '/'); base = base ? base + 1 : incf;
        FILE *fi = fopen(incf, "w"), *fm = fopen(mainf, "w");
        if (fi && fm) {
            for (int i = 0; i < 4; i++) { word(&s, w1, 8); word(&s, w2, 12); fprintf(fi, i == 1 ? "[%s]\n" : "%s = %s\n", w1, w2); }
            word(&s, w1, 8); word(&s, w2, 8);
            fprintf(fm, "%s = %s\n@INCLUDE %s\n%s = ${%s}\n", w1, w2, base, w2, w1);
        }
        if (fi) fclose(fi);
        if (fm) fclose(fm);
        qlisttbl_t *t = qconfig_parse_file(NULL, mainf, '=');
        sb_add(out, "inifile=");
        if (t) {
            qlisttbl_obj_t o; memset(&o, 0, sizeof o);
            while (t->getnext(t, &o, NULL, false)) sb_add(out, "%s:%s;", o.name, (char *) o.data);
            t->free(t);
        } else sb_add(out, "(null)");
        sb_add(out, "\n");
        unlink(mainf); unlink(incf);
    }
    /* --- formatted puts into PRIVATE containers (the formatting buffer of DYNAMIC_VSPRINTF) */
    {
        qhashtbl_t *h = qhashtbl(0, 0); qlisttbl_t *lt = qlisttbl(0); qtreetbl_t *tr = qtreetbl(0);
        for (int i = 0; i < 4; i++) {
            word(&s, w1, 20);
            char key[16]; snprintf(key, sizeof key, "k%d", i);
            h->putstrf(h, key, "%s:%d:%d", w1, j->t, i); lt->putstrf(lt, key, "%s/%d/%d", w1, j->t, i); tr->putstrf(tr, key, "%s#%d#%d", w1, j->t, i);
        }
        for (int i = 0; i < 4; i++) {
            char key[16]; snprintf(key, sizeof key, "k%d", i);
            char *a = h->getstr(h, key, false), *b = lt->getstr(lt, key, false), *c = tr->getstr(tr, key, false);
            sb_add(out, "putstrf%d=%s|%s|%s\n", i, a ? a : "(null)", b ? b : "(null)", c ? c : "(null)");
        }
        h->free(h); lt->free(lt); tr->free(tr);
    }
}

static pthread_barrier_t bar;
typedef struct { job_t j; int rounds; const char *expect; char first_bad[200]; } th_t;
static void *runner(void *arg) {
    th_t *t = arg;
    pthread_barrier_wait(&bar);
    for (int r = 0; r < t->rounds && !t->first_bad[0]; r++) {
        sbuf_t o = {0};
        compute(&t->j, &o);
        if (strcmp(o.p ? o.p : "", t->expect) != 0) {
            /* name the first differing line */
            const char *a = o.p ? o.p : "", *b = t->expect;
            while (*a && *b) {
                const char *ea = strchr(a, '\n'), *eb = strchr(b, '\n');
                size_t la = ea ? (size_t) (ea - a) : strlen(a), lb = eb ? (size_t) (eb - b) : strlen(b);
                if (la != lb || memcmp(a, b, la) != 0) break;
                a += la + (ea != NULL); b += lb + (eb != NULL);
            }
            const char *eq = strchr(b, '=');
            snprintf(t->first_bad, sizeof t->first_bad, "%.*s thread %d round %d", eq ? (int) (eq - b) : 12, b, t->j.t, r);
        }
        free(o.p);
    }
    return NULL;
}

int main(void) {
    char *line = NULL; size_t cap = 0; ssize_t len;
    harness_init();
    const char *tmp = getenv("TMPDIR");
    while ((len = getline(&line, &cap, stdin)) > 0) {
        char *w[MAXW]; int nw = split_words(line, w);
        if (nw == 0) continue;
        if (!strcmp(w[0], "mt") && nw == 4) {
            int T = atoi(w[1]), R = atoi(w[2]); unsigned seed = (unsigned) strtoul(w[3], NULL, 10);
            if (T < 1 || T > 32) { printf("bad-op\n"); continue; }
            th_t *th = calloc((size_t) T, sizeof *th); char **expect = calloc((size_t) T, sizeof *expect);
            for (int t = 0; t < T; t++) {
                th[t].j.seed = seed; th[t].j.t = t; th[t].rounds = R;
                snprintf(th[t].j.tmpfile, sizeof th[t].j.tmpfile, "%s/verif_mt_%d_%d.conf", (tmp && strlen(tmp) < 40) ? tmp : "/tmp", (int) getpid(), t);
                sbuf_t o = {0}; compute(&th[t].j, &o); expect[t] = o.p ? o.p : strdup(""); th[t].expect = expect[t];
            }
            pthread_t *ids = calloc((size_t) T, sizeof *ids);
            pthread_barrier_init(&bar, NULL, (unsigned) T);
            for (int t = 0; t < T; t++) pthread_create(&ids[t], NULL, runner, &th[t]);
            for (int t = 0; t < T; t++) pthread_join(ids[t], NULL);
            pthread_barrier_destroy(&bar);
            const char *bad = NULL;
            for (int t = 0; t < T && !bad; t++) if (th[t].first_bad[0]) bad = th[t].first_bad;
            if (bad) printf("mismatch %s", bad); else printf("ok");
            for (int t = 0; t < T; t++) { unlink(th[t].j.tmpfile); free(expect[t]); }
            free(th); free(expect); free(ids);
        } else if (!strcmp(w[0], "show") && nw == 3) {
            job_t j; memset(&j, 0, sizeof j); j.seed = (unsigned) strtoul(w[1], NULL, 10); j.t = atoi(w[2]);
            snprintf(j.tmpfile, sizeof j.tmpfile, "%s/verif_mt_%d_show.conf", (tmp && strlen(tmp) < 40) ? tmp : "/tmp", (int) getpid());
            sbuf_t o = {0}; compute(&j, &o); unlink(j.tmpfile);
            for (char *c = o.p; c && *c; c++) if (*c == '\n') *c = '~';
            printf("%s", o.p ? o.p : ""); free(o.p);
        } else printf("bad-op");
        printf("\n"); fflush(stdout);
    }
    free(line);
    return 0;
}

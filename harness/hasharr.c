/* Correspondence harness for src/containers/qhasharr.c (C06/C07); protocol in Driver/HashArr.lean.
 *
 * The table region is an exactly sized window inside a heap block, between two 4 KiB guard zones
 * filled with a pattern:  [guard 4096][offset pad][region memsize][guard 4096].  After EVERY
 * operation the harness
 *   (1) checks both guard zones (and the offset pad), that the struct padding bytes of every slot
 *       are still zero and that the tail of the region behind the last slot is still zero
 *       -> `g 111`;
 *   (2) prints the header and every slot whose 84 bytes differ from the bytes before the
 *       operation, decoded through the public structs: count, hash, datasize, link and all 66 bytes
 *       of the union (stale payload bytes included; after `init` every slot is printed);
 *   (3) memcpy's the region to a different address with a different alignment (a multiple of 4, the
 *       alignment of the structs), attaches a second handle with memsize 0 and prints size + the full
 *       getnext walk + get of every key of the history through the original handle (`o`) and
 *       through the copy (`c`); the observation through the copy must not change a byte of it;
 *   (4) every 32nd operation continues the history through the copy (the original is released).
 * A watchdog (alarm, 5 s per operation) turns an endless loop into a dead harness.
 */
#include "common.h"
#include "qlibc.h"
#include <stddef.h>

#define GUARDSZ 4096
#define PAT 0xA5
#define SMALLCAP 12

typedef struct { unsigned char *base; size_t off, memsize, gfront, gback; unsigned char *mem; unsigned char *ref; } region_t;

/* guard mode of the regions of the current history (`init <memsize> [pat|fake|exact]`):
 *   pat    guard zones filled with the byte 0xA5 (default)
 *   fake   guard zones filled with images of a one-slot key entry (count 1, link -1): an access to
 *          tblslots[idx] with idx outside the table finds something that looks like a slot
 *   exact  no guard zone behind the region: the region ends where the heap block ends, so that the
 *          first byte behind it is an ASan red zone */
static int gmode = 0;

static region_t region_new(size_t memsize, size_t off) {
    region_t r;
    r.off = off; r.memsize = memsize;
    r.gfront = GUARDSZ; r.gback = gmode == 2 ? 0 : GUARDSZ;
    size_t total = r.gfront + off + memsize + r.gback;
    r.base = malloc(total);
    memset(r.base, PAT, total);
    r.mem = r.base + r.gfront + off;
    if (gmode == 1) {
        qhasharr_slot_t fake;
        memset(&fake, 0, sizeof fake);
        fake.count = 1; fake.datasize = 1; fake.link = -1;
        unsigned char *t = r.mem + memsize;
        for (size_t i = 0; i + sizeof fake <= r.gback; i += sizeof fake) memcpy(t + i, &fake, sizeof fake);
    }
    r.ref = malloc(total);
    memcpy(r.ref, r.base, total);
    return r;
}
static bool guards_ok(const region_t *r) {
    if (memcmp(r->base, r->ref, r->gfront + r->off) != 0) return false;
    size_t o = r->gfront + r->off + r->memsize;
    return memcmp(r->base + o, r->ref + o, r->gback) == 0;
}
static void region_free(region_t *r) { free(r->base); free(r->ref); r->base = NULL; r->ref = NULL; }

/* growing text buffer */
typedef struct { char *p; size_t n, cap; } sb_t;
static void sb_need(sb_t *b, size_t k) {
    if (b->n + k + 1 > b->cap) { b->cap = (b->n + k + 1) * 2; b->p = realloc(b->p, b->cap); }
}
static void sb_puts(sb_t *b, const char *s) { size_t k = strlen(s); sb_need(b, k); memcpy(b->p + b->n, s, k + 1); b->n += k; }
static void sb_hex(sb_t *b, const void *p, size_t n) {
    static const char d[] = "0123456789abcdef";
    const unsigned char *q = p;
    if (n == 0) { sb_puts(b, "-"); return; }
    sb_need(b, 2 * n);
    for (size_t i = 0; i < n; i++) { b->p[b->n++] = d[q[i] >> 4]; b->p[b->n++] = d[q[i] & 15]; }
    b->p[b->n] = 0;
}
static void sb_int(sb_t *b, long long v) { char t[32]; snprintf(t, sizeof t, "%lld", v); sb_puts(b, t); }

static qhasharr_slot_t *slots_of(void *mem) { return (qhasharr_slot_t *) ((char *) mem + sizeof(qhasharr_data_t)); }

/* bytes of a slot not covered by any field */
static unsigned char padmask[sizeof(qhasharr_slot_t)];
static void init_padmask(void) {
    memset(padmask, 1, sizeof padmask);
#define COVER(f) memset(padmask + offsetof(qhasharr_slot_t, f), 0, sizeof(((qhasharr_slot_t *)0)->f))
    COVER(count); COVER(hash); COVER(datasize); COVER(link); COVER(data);
}

typedef struct { bytes_t *v; size_t n, cap; } keys_t;
static void keys_add(keys_t *ks, const unsigned char *p, size_t n) {
    for (size_t i = 0; i < ks->n; i++) if (ks->v[i].n == n && memcmp(ks->v[i].p, p, n) == 0) return;
    if (ks->n == ks->cap) { ks->cap = ks->cap ? ks->cap * 2 : 16; ks->v = realloc(ks->v, ks->cap * sizeof(bytes_t)); }
    ks->v[ks->n].p = malloc(n ? n : 1); memcpy(ks->v[ks->n].p, p, n); ks->v[ks->n].n = n; ks->n++;
}
static void keys_clear(keys_t *ks) { for (size_t i = 0; i < ks->n; i++) free(ks->v[i].p); ks->n = 0; }

static void walk_text(sb_t *b, qhasharr_t *tbl) {
    int idx = 0; qhasharr_obj_t obj;
    sb_puts(b, "w");
    while (tbl->getnext(tbl, &obj, &idx)) {
        sb_puts(b, " "); sb_int(b, idx - 1); sb_puts(b, ":"); sb_hex(b, obj.name, obj.namesize);
        sb_puts(b, "="); sb_hex(b, obj.data, obj.datasize);
        free(obj.name); free(obj.data);
    }
}

/* size + walk + get of every key through one handle */
static void obs_text(sb_t *b, qhasharr_t *tbl, keys_t *ks) {
    int max = -1, used = -1;
    int num = tbl->size(tbl, &max, &used);
    sb_puts(b, "s "); sb_int(b, num); sb_puts(b, " "); sb_int(b, max); sb_puts(b, " "); sb_int(b, used); sb_puts(b, " ");
    walk_text(b, tbl);
    sb_puts(b, " k");
    for (size_t i = 0; i < ks->n; i++) {
        size_t sz = 0; errno = 0;
        void *d = tbl->get_by_obj(tbl, ks->v[i].p, ks->v[i].n, &sz);
        sb_puts(b, " ");
        if (d) { sb_puts(b, "="); sb_hex(b, d, sz); free(d); } else sb_puts(b, errname(errno));
    }
}

static unsigned long long fnv64(const char *s, size_t n) {
    unsigned long long h = 0xcbf29ce484222325ULL;
    for (size_t i = 0; i < n; i++) { h ^= (unsigned char) s[i]; h *= 0x100000001b3ULL; }
    return h;
}

static const size_t OFFS[] = {4, 8, 12, 20, 36, 100, 2052, 16, 24, 1028};

int main(void) {
    char *line = NULL; size_t cap = 0; ssize_t len;
    harness_init();
    init_padmask();
    region_t R = {0}; qhasharr_t *tbl = NULL; unsigned char *shadow = NULL;
    keys_t ks = {0}; size_t nops = 0;
    sb_t res = {0}, to = {0}, tc = {0};
    while ((len = getline(&line, &cap, stdin)) > 0) {
        char *w[MAXW]; int nw = split_words(line, w);
        if (nw == 0) continue;
        const char *op = w[0];
        alarm(5);                   /* watchdog: no single operation may take longer (endless loops die here) */
        res.n = 0; sb_puts(&res, "");
        bool all = false;           /* print every slot */
        if ((nw == 2 || nw == 3) && !strcmp(op, "init")) {
            size_t memsize = strtoull(w[1], NULL, 10);
            gmode = nw == 3 ? (!strcmp(w[2], "fake") ? 1 : !strcmp(w[2], "exact") ? 2 : 0) : 0;
            if (tbl) { tbl->free(tbl); tbl = NULL; region_free(&R); free(shadow); shadow = NULL; }
            keys_clear(&ks); nops = 0;
            R = region_new(memsize, 0);
            errno = 0;
            tbl = qhasharr(R.mem, memsize);
            if (!tbl) {
                bool untouched = guards_ok(&R);
                if (memcmp(R.mem, R.ref + R.gfront + R.off, memsize) != 0) untouched = false;
                printf("init null %s%s\n", errname(errno), untouched ? "" : " region-written");
                region_free(&R);
                continue;
            }
            shadow = malloc(memsize ? memsize : 1);
            sb_puts(&res, "init ok"); all = true;
        } else if (!tbl) {
            printf("noinit\n"); continue;
        } else if (nw == 5 && (!strcmp(op, "put") || !strcmp(op, "sput"))) {
            bytes_t k, v;
            if (!unhex(w[1], &k) || !unhex(w[2], &v)) { printf("bad-op\n"); continue; }
            bool ok; errno = 0;
            if (op[0] == 's') {
                char *s = cstr_exact(&k);
                ok = tbl->put(tbl, s, v.p, v.n);
                keys_add(&ks, (unsigned char *) s, k.n + 1);
                free(s);
            } else {
                ok = tbl->put_by_obj(tbl, k.p, k.n, v.p, v.n);
                keys_add(&ks, k.p, k.n);
            }
            int e = errno;
            if (ok) sb_puts(&res, "ok"); else { sb_puts(&res, "false "); sb_puts(&res, errname(e)); }
            free(k.p); free(v.p);
        } else if (nw == 4 && (!strcmp(op, "get") || !strcmp(op, "sget"))) {
            bytes_t k;
            if (!unhex(w[1], &k)) { printf("bad-op\n"); continue; }
            size_t sz = 0; void *d; errno = 0;
            if (op[0] == 's') {
                char *s = cstr_exact(&k);
                d = tbl->get(tbl, s, &sz);
                keys_add(&ks, (unsigned char *) s, k.n + 1);
                free(s);
            } else {
                d = tbl->get_by_obj(tbl, k.p, k.n, &sz);
                keys_add(&ks, k.p, k.n);
            }
            int e = errno;
            if (d) { sb_puts(&res, "data "); sb_hex(&res, d, sz); free(d); } else { sb_puts(&res, "null "); sb_puts(&res, errname(e)); }
            free(k.p);
        } else if (nw == 4 && (!strcmp(op, "rm") || !strcmp(op, "srm"))) {
            bytes_t k;
            if (!unhex(w[1], &k)) { printf("bad-op\n"); continue; }
            bool ok; errno = 0;
            if (op[0] == 's') {
                char *s = cstr_exact(&k);
                ok = tbl->remove(tbl, s);
                keys_add(&ks, (unsigned char *) s, k.n + 1);
                free(s);
            } else {
                ok = tbl->remove_by_obj(tbl, (const char *) k.p, k.n);
                keys_add(&ks, k.p, k.n);
            }
            int e = errno;
            if (ok) sb_puts(&res, "ok"); else { sb_puts(&res, "false "); sb_puts(&res, errname(e)); }
            free(k.p);
        } else if (nw == 2 && !strcmp(op, "rmi")) {
            errno = 0;
            bool ok = tbl->remove_by_idx(tbl, atoi(w[1]));
            int e = errno;
            if (ok) sb_puts(&res, "ok"); else { sb_puts(&res, "false "); sb_puts(&res, errname(e)); }
        } else if (nw == 1 && !strcmp(op, "clear")) {
            tbl->clear(tbl); sb_puts(&res, "ok");
        } else if (nw == 1 && !strcmp(op, "size")) {
            int max = -1, used = -1; int num = tbl->size(tbl, &max, &used);
            sb_puts(&res, "size "); sb_int(&res, num); sb_puts(&res, " "); sb_int(&res, max); sb_puts(&res, " "); sb_int(&res, used);
        } else if (nw == 1 && !strcmp(op, "walk")) {
            walk_text(&res, tbl);
        } else if (nw == 2 && !strcmp(op, "next")) {
            int idx = atoi(w[1]); qhasharr_obj_t obj; errno = 0;
            if (tbl->getnext(tbl, &obj, &idx)) {
                sb_puts(&res, "obj "); sb_int(&res, idx); sb_puts(&res, " "); sb_hex(&res, obj.name, obj.namesize);
                sb_puts(&res, " "); sb_hex(&res, obj.data, obj.datasize);
                free(obj.name); free(obj.data);
            } else { sb_puts(&res, "end "); sb_int(&res, idx); sb_puts(&res, " "); sb_puts(&res, errname(errno)); }
        } else if (nw == 3 && !strcmp(op, "walkrm")) {
            /* the traversal-with-removal idiom documented at qhasharr_remove_by_idx */
            long m = atol(w[1]), r = atol(w[2]), j = 0;
            int idx = 0; qhasharr_obj_t obj;
            sb_puts(&res, "walkrm");
            while (tbl->getnext(tbl, &obj, &idx)) {
                sb_puts(&res, " "); sb_int(&res, idx - 1); sb_puts(&res, ":"); sb_hex(&res, obj.name, obj.namesize); sb_puts(&res, ":");
                if (m > 0 && j % m == r) {
                    idx--; errno = 0;
                    bool ok = tbl->remove_by_idx(tbl, idx);
                    sb_puts(&res, ok ? "ok" : errname(errno));
                } else sb_puts(&res, "-");
                free(obj.name); free(obj.data);
                j++;
            }
        } else { printf("bad-op\n"); continue; }

        /* (1) guards, padding, tail */
        qhasharr_data_t *hdr = (qhasharr_data_t *) R.mem;
        qhasharr_slot_t *sl = slots_of(R.mem);
        int maxslots = hdr->maxslots;
        size_t nslots = (R.memsize - sizeof(qhasharr_data_t)) / sizeof(qhasharr_slot_t);
        bool g1 = guards_ok(&R), g2 = true, g3 = true;
        for (size_t i = 0; i < nslots; i++)
            for (size_t b = 0; b < sizeof(qhasharr_slot_t); b++)
                if (padmask[b] && ((unsigned char *) &sl[i])[b] != 0) g2 = false;
        for (size_t o = sizeof(qhasharr_data_t) + nslots * sizeof(qhasharr_slot_t); o < R.memsize; o++)
            if (R.mem[o] != 0) g3 = false;
        /* (2) header + changed slots */
        fputs(res.p, stdout);
        printf(" | h %d %d %d | d", hdr->maxslots, hdr->usedslots, hdr->num);
        for (size_t i = 0; i < nslots; i++) {
            size_t o = sizeof(qhasharr_data_t) + i * sizeof(qhasharr_slot_t);
            if (all || memcmp(shadow + o, R.mem + o, sizeof(qhasharr_slot_t)) != 0) {
                printf(" %zu=%d,%u,%u,%d,", i, (int) sl[i].count, (unsigned) sl[i].hash, (unsigned) sl[i].datasize, sl[i].link);
                puthex(stdout, &sl[i].data, sizeof(sl[i].data));
            }
        }
        memcpy(shadow, R.mem, R.memsize);
        /* (3) observations through the original and through a relocated byte copy */
        to.n = 0; sb_puts(&to, ""); obs_text(&to, tbl, &ks);
        size_t coff = OFFS[nops % (sizeof OFFS / sizeof OFFS[0])];
        if (coff == R.off) coff += 4;                     /* never the same offset as the original */
        region_t C = region_new(R.memsize, coff);
        memcpy(C.mem, R.mem, R.memsize);
        qhasharr_t *tbl2 = qhasharr(C.mem, 0);
        tc.n = 0; sb_puts(&tc, ""); obs_text(&tc, tbl2, &ks);
        if (!guards_ok(&C) || memcmp(C.mem, R.mem, R.memsize) != 0 || memcmp(shadow, R.mem, R.memsize) != 0) g1 = false;
        printf(" | g %d%d%d | ", g1, g2, g3);
        if (maxslots <= SMALLCAP) printf("o[%s] c[%s]", to.p, tc.p);
        else printf("o %016llx c %016llx", fnv64(to.p, to.n), fnv64(tc.p, tc.n));
        printf("\n");
        alarm(0);
        nops++;
        /* (4) every 32nd operation the history continues through the copy */
        if (nops % 32 == 0) {
            tbl->free(tbl); region_free(&R);
            tbl = tbl2; R = C;
        } else {
            tbl2->free(tbl2); region_free(&C);
        }
    }
    if (tbl) { tbl->free(tbl); region_free(&R); }
    free(shadow); keys_clear(&ks); free(ks.v); free(res.p); free(to.p); free(tc.p);
    free(line);
    return 0;
}

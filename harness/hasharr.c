/* Correspondence harness for src/containers/qhasharr.c (C06/C07); protocol in Driver/HashArr.lean.
 *
 * The table region is an exactly sized window inside a heap block, between two 4 KiB guard zones
 * filled with a pattern:  [guard 4096][offset pad][region memsize][guard 4096].  After EVERY
 * operation the harness
 *   (1) checks both guard zones (and the offset pad), that the struct padding bytes of every slot
 *       are still zero and that the tail of the region behind the last slot is still zero
 *       -> `g 111`;
 *   (2) prints the header and every slot whose 84 bytes differ from the bytes before the
 *       operation, decoded through the public structs: count, hash, datasize, link and all 66 bytes
 *       of the union (stale payload bytes included; after `init` every slot is printed);
 *   (3) memcpy's the region to a different address with a different alignment (a multiple of 4, the
 *       alignment of the structs), attaches a second handle with memsize 0 and prints size + the full
 *       getnext walk + get of every key of the history through the original handle (`o`) and
 *       through the copy (`c`); the observation through the copy must not change a byte of it;
 *   (4) every 32nd operation continues the history through the copy (the original is released).
 * Tables of more than MIDSLOTS (64) slots: (3) and (4) after init / walk / size and every 4th operation,
 * above HUGESLOTS (thorough tier: slot indexes beyond 2^15 / 2^16) every 256th; `o - c -` otherwise.
 * (1) and (2) after every operation always.
 * A watchdog (alarm, 5 s per operation) turns an endless loop into a dead harness.
 */
#include "common.h"
#include "qlibc.h"
#include <stddef.h>

/* ambient errno: the value the caller brings into EVERY library call cycles through these (op counter),
 * so a result that depends on a stale errno, or a documented-errno failure path that leaves errno
 * untouched, shows in the transcript (the model prints the documented errno) */
static unsigned amb_n = 0;
static const int AMB[8] = {0, ENOMEM, ERANGE, EINTR, ENOENT, EINVAL, EAGAIN, ENOBUFS};
/* C07 "the image contains no process addresses": before every library call the part of the stack the
 * call is going to use is filled with the address of a static object (all eight byte rotations occur,
 * since the words are adjacent); a local the library copies into the region without having initialised
 * it (a digest buffer, a padding hole of a slot built on the stack) then carries that address into the
 * image, where addr_scan() finds it (seed C07-m9). The filler is written through a volatile pointer so
 * that the compiler cannot drop it; ASan does not mind: the array is a live local while it is written. */
static char stack_marker_obj[16];
static __attribute__((noinline)) void stack_poison(void) {
    volatile uintptr_t fill[2048];
    for (size_t i = 0; i < sizeof fill / sizeof fill[0]; i++) fill[i] = (uintptr_t) stack_marker_obj;
}
#define PLANT() (stack_poison(), errno = AMB[amb_n++ & 7])
#define PLANT_ERRNO() (errno = AMB[amb_n++ & 7])     /* read-only observation loops: thousands of calls per operation */
/* offset of the first place in [mem, mem+n) holding the marker address (any byte rotation), or -1 */
static long addr_scan(const unsigned char *mem, size_t n) {
    unsigned char two[16]; uintptr_t a = (uintptr_t) stack_marker_obj;
    memcpy(two, &a, 8); memcpy(two + 8, &a, 8);
    for (int r = 0; r < 8; r++) {
        const unsigned char *hit = n >= 8 ? memmem(mem, n, two + r, 8) : NULL;
        if (hit) return (long) (hit - mem);
    }
    return -1;
}

#define GUARDSZ 4096
#define PAT 0xA5
#define SMALLCAP 12
#define MIDSLOTS 64
#define HUGESLOTS 20000

typedef struct { unsigned char *base; size_t off, memsize, gfront, gback; unsigned char *mem; unsigned char *ref; } region_t;

/* guard mode of the regions of the current history (`init <memsize> [pat|fake|exact]`):
 *   pat    guard zones filled with the byte 0xA5 (default)
 *   fake   guard zones filled with images of a one-slot key entry (count 1, link -1): an access to
 *          tblslots[idx] with idx outside the table finds something that looks like a slot
 *          (behind the region and at tblslots[-1] in front of it)
 *   exact  no guard zones: the region is exactly the heap block, so that the bytes in front of and
 *          behind it are ASan red zones */
static int gmode = 0;

static region_t region_new(size_t memsize, size_t off) {
    region_t r;
    r.off = off; r.memsize = memsize;
    if (gmode == 2) off = 0;          /* exact: the region IS the heap block (red zones on both sides) */
    r.off = off;
    r.gfront = gmode == 2 ? 0 : GUARDSZ; r.gback = gmode == 2 ? 0 : GUARDSZ;
    size_t total = r.gfront + off + memsize + r.gback;
    if (total == 0) total = 1;
    r.base = malloc(total);
    memset(r.base, PAT, total);
    r.mem = r.base + r.gfront + off;
    if (gmode == 1) {
        qhasharr_slot_t fake;
        memset(&fake, 0, sizeof fake);
        fake.count = 1; fake.datasize = 1; fake.link = -1;
        unsigned char *t = r.mem + memsize;
        for (size_t i = 0; i + sizeof fake <= r.gback; i += sizeof fake) memcpy(t + i, &fake, sizeof fake);
        /* tblslots[-1]: its scalar fields, the name area and namesize lie in front of the region (its
         * last bytes overlap the header): make them look like a key slot "G" with a 1-byte value */
        unsigned char *f = r.mem + sizeof(qhasharr_data_t) - sizeof fake;
        memcpy(f, &fake, offsetof(qhasharr_slot_t, data));
        f[offsetof(qhasharr_slot_t, data) + offsetof(struct Q_HASHARR_SLOT_KEYVAL, name)] = 'G';
        f[offsetof(qhasharr_slot_t, data) + offsetof(struct Q_HASHARR_SLOT_KEYVAL, namesize)] = 1;
        f[offsetof(qhasharr_slot_t, data) + offsetof(struct Q_HASHARR_SLOT_KEYVAL, namesize) + 1] = 0;
    }
    r.ref = malloc(total);
    memcpy(r.ref, r.base, total);
    return r;
}
static bool guards_ok(const region_t *r) {
    if (memcmp(r->base, r->ref, r->gfront + r->off) != 0) return false;
    size_t o = r->gfront + r->off + r->memsize;
    return memcmp(r->base + o, r->ref + o, r->gback) == 0;
}
static void region_free(region_t *r) { free(r->base); free(r->ref); r->base = NULL; r->ref = NULL; }

/* growing text buffer */
typedef struct { char *p; size_t n, cap; } sb_t;
static void sb_need(sb_t *b, size_t k) {
    if (b->n + k + 1 > b->cap) { b->cap = (b->n + k + 1) * 2; b->p = realloc(b->p, b->cap); }
}
static void sb_puts(sb_t *b, const char *s) { size_t k = strlen(s); sb_need(b, k); memcpy(b->p + b->n, s, k + 1); b->n += k; }
static void sb_hex(sb_t *b, const void *p, size_t n) {
    static const char d[] = "0123456789abcdef";
    const unsigned char *q = p;
    if (n == 0) { sb_puts(b, "-"); return; }
    sb_need(b, 2 * n);
    for (size_t i = 0; i < n; i++) { b->p[b->n++] = d[q[i] >> 4]; b->p[b->n++] = d[q[i] & 15]; }
    b->p[b->n] = 0;
}
static void sb_int(sb_t *b, long long v) { char t[32]; snprintf(t, sizeof t, "%lld", v); sb_puts(b, t); }

/* the key name handed out by getnext: `namesize` bytes and a terminating NUL (the documented
 * traversal prints it with %s). Under ASan the block is tested before it is read, so that a block
 * shorter than the reported size is a statement in the transcript instead of a dead harness. */
#if defined(__SANITIZE_ADDRESS__)
#include <sanitizer/asan_interface.h>
#define NAME_POISON(p, n) __asan_region_is_poisoned((void *) (p), (n))
#else
#define NAME_POISON(p, n) NULL
#endif
static void sb_name(sb_t *b, const char *name, size_t namesize) {
    const char *bad = NAME_POISON(name, namesize);
    if (bad) {
        size_t have = (size_t) (bad - name);
        sb_hex(b, name, have);
        sb_puts(b, "!short-name-block:"); sb_int(b, (long long) have); sb_puts(b, "/"); sb_int(b, (long long) namesize);
        return;
    }
    sb_hex(b, name, namesize);
    /* a C string: a NUL inside the name or right behind it */
    if (memchr(name, 0, namesize) == NULL && (NAME_POISON(name + namesize, 1) || name[namesize] != 0))
        sb_puts(b, "!name-not-terminated");
}

static qhasharr_slot_t *slots_of(void *mem) { return (qhasharr_slot_t *) ((char *) mem + sizeof(qhasharr_data_t)); }

/* bytes of a slot not covered by any field */
static unsigned char padmask[sizeof(qhasharr_slot_t)];
static void init_padmask(void) {
    memset(padmask, 1, sizeof padmask);
#define COVER(f) memset(padmask + offsetof(qhasharr_slot_t, f), 0, sizeof(((qhasharr_slot_t *)0)->f))
    COVER(count); COVER(hash); COVER(datasize); COVER(link); COVER(data);
}

typedef struct { bytes_t *v; size_t n, cap; } keys_t;
static void keys_add(keys_t *ks, const unsigned char *p, size_t n) {
    for (size_t i = 0; i < ks->n; i++) if (ks->v[i].n == n && memcmp(ks->v[i].p, p, n) == 0) return;
    if (ks->n == ks->cap) { ks->cap = ks->cap ? ks->cap * 2 : 16; ks->v = realloc(ks->v, ks->cap * sizeof(bytes_t)); }
    ks->v[ks->n].p = malloc(n ? n : 1); memcpy(ks->v[ks->n].p, p, n); ks->v[ks->n].n = n; ks->n++;
}
static void keys_clear(keys_t *ks) { for (size_t i = 0; i < ks->n; i++) free(ks->v[i].p); ks->n = 0; }

static void walk_text(sb_t *b, qhasharr_t *tbl) {
    int idx = 0; qhasharr_obj_t obj;
    sb_puts(b, "w");
    while (PLANT_ERRNO(), tbl->getnext(tbl, &obj, &idx)) {
        sb_puts(b, " "); sb_int(b, idx - 1); sb_puts(b, ":"); sb_name(b, obj.name, obj.namesize);
        sb_puts(b, "="); sb_hex(b, obj.data, obj.datasize);
        free(obj.name); free(obj.data);
    }
}

/* size + walk + get of every key through one handle */
static void obs_text(sb_t *b, qhasharr_t *tbl, keys_t *ks) {
    int max = -1, used = -1;
    PLANT();
    int num = tbl->size(tbl, &max, &used);
    sb_puts(b, "s "); sb_int(b, num); sb_puts(b, " "); sb_int(b, max); sb_puts(b, " "); sb_int(b, used); sb_puts(b, " ");
    walk_text(b, tbl);
    sb_puts(b, " k");
    for (size_t i = 0; i < ks->n; i++) {
        size_t sz = 0; PLANT();
        void *d = tbl->get_by_obj(tbl, ks->v[i].p, ks->v[i].n, &sz);
        sb_puts(b, " ");
        if (d) { sb_puts(b, "="); sb_hex(b, d, sz); free(d); } else sb_puts(b, errname(errno));
    }
}

static unsigned long long fnv64(const char *s, size_t n) {
    unsigned long long h = 0xcbf29ce484222325ULL;
    for (size_t i = 0; i < n; i++) { h ^= (unsigned char) s[i]; h *= 0x100000001b3ULL; }
    return h;
}

/* errname of common.h plus EIO (qhasharr_debug) */
static const char *ename(int e) { return e == EIO ? "EIO" : errname(e); }

static const size_t OFFS[] = {4, 8, 12, 20, 36, 100, 2052, 16, 24, 1028};

/* watchdog: what was printed so far reaches the transcript, then a marker */
static void watchdog(int sig) {
    (void) sig;
    fputs(" !watchdog: the operation did not return in time\n", stdout);
    verif_flush_cb();
    _exit(98);
}

int main(void) {
    char *line = NULL; size_t cap = 0; ssize_t len;
    harness_init();
    signal(SIGALRM, watchdog);
    init_padmask();
    region_t R = {0}; qhasharr_t *tbl = NULL; unsigned char *shadow = NULL;
    keys_t ks = {0}; size_t nops = 0;
    sb_t res = {0}, to = {0}, tc = {0};
    while ((len = getline(&line, &cap, stdin)) > 0) {
        char *w[MAXW]; int nw = split_words(line, w);
        if (nw == 0) continue;
        const char *op = w[0];
        /* watchdog: no single operation may take longer (endless loops die here); tables of 10^5 slots
         * (12 MB regions, 24 MB `init` lines) get more on a loaded machine */
        alarm(!strcmp(op, "init") || R.memsize > (1u << 20) ? 60 : 5);
        res.n = 0; sb_puts(&res, "");
        bool all = false;           /* print every slot */
        if ((nw == 2 || nw == 3) && !strcmp(op, "init")) {
            size_t memsize = strtoull(w[1], NULL, 10);
            gmode = nw == 3 ? (!strcmp(w[2], "fake") ? 1 : !strcmp(w[2], "exact") ? 2 : 0) : 0;
            if (tbl) { tbl->free(tbl); tbl = NULL; region_free(&R); free(shadow); shadow = NULL; }
            keys_clear(&ks); nops = 0;
            R = region_new(memsize, 0);
            PLANT();
            tbl = qhasharr(R.mem, memsize);
            if (!tbl) {
                bool untouched = guards_ok(&R);
                if (memcmp(R.mem, R.ref + R.gfront + R.off, memsize) != 0) untouched = false;
                printf("init null %s%s\n", errname(errno), untouched ? "" : " region-written");
                region_free(&R);
                continue;
            }
            shadow = malloc(memsize ? memsize : 1);
            sb_puts(&res, "init ok"); all = true;
        } else if ((nw == 2 || nw == 3) && !strcmp(op, "ctor")) {
            /* the constructor on a region of its own (the current history is not touched): result, header,
             * "nothing written" on refusal / for memsize 0, every byte behind the header zero on success,
             * guard zones */
            size_t memsize = strtoull(w[1], NULL, 10);
            int saved = gmode;
            gmode = nw == 3 && !strcmp(w[2], "exact") ? 2 : 0;
            region_t T = region_new(memsize, 4);
            PLANT();
            qhasharr_t *t = qhasharr(T.mem, memsize);
            int e = errno;
            bool same = memcmp(T.mem, T.ref + T.gfront + T.off, memsize) == 0;
            bool g = guards_ok(&T);
            if (!t) printf("ctor null %s %s g%d\n", errname(e), same ? "untouched" : "written", g);
            else if (memsize == 0) printf("ctor attach %s g%d\n", same ? "untouched" : "written", g);
            else {
                qhasharr_data_t *h = (qhasharr_data_t *) T.mem;
                bool zero = true;
                for (size_t o = sizeof(qhasharr_data_t); o < memsize; o++) if (T.mem[o] != 0) zero = false;
                int max = -1, used = -1, num = (PLANT(), t->size(t, &max, &used));
                bool agree = max == h->maxslots && used == h->usedslots && num == h->num;
                printf("ctor ok %d %d %d %s g%d\n", h->maxslots, h->usedslots, h->num, zero && agree ? "zero" : "nonzero", g);
            }
            if (t) t->free(t);
            region_free(&T);
            gmode = saved;
            alarm(0);
            continue;
        } else if (nw == 2 && !strcmp(op, "memsize")) {
            printf("memsize %zu\n", qhasharr_calculate_memsize(atoi(w[1])));
            alarm(0);
            continue;
        } else if (!tbl) {
            printf("noinit\n"); continue;
        } else if (nw == 4 && !strcmp(op, "inv")) {
            /* every documented-invalid call (and two valid border cases) on the current table, through
             * the method pointers; `tok=answer` per call, then the image as after any operation */
            bytes_t k;
            if (!unhex(w[1], &k) || k.n == 0) { printf("bad-op\n"); continue; }
            static const unsigned char d1[2] = {'x', 0};
            const char *kk = "k";
            size_t sz; int idx; qhasharr_obj_t obj; void *p;
            sb_puts(&res, "inv");
#define ANSB(tok, call) do { PLANT(); bool ok_ = (call); int e_ = errno; sb_puts(&res, " " tok "="); sb_puts(&res, ok_ ? "ok" : ename(e_)); } while (0)
#define ANSP(tok, call) do { PLANT(); p = (call); int e_ = errno; sb_puts(&res, " " tok "="); if (p) { sb_puts(&res, "data"); free(p); } else { sb_puts(&res, "null:"); sb_puts(&res, errname(e_)); } } while (0)
#define ANSQ(tok, call) do { PLANT(); p = (call); int e_ = errno; sb_puts(&res, " " tok "="); if (p) { sb_puts(&res, "data"); free(p); } else sb_puts(&res, errname(e_)); } while (0)
            ANSB("pbo:nn", tbl->put_by_obj(tbl, NULL, 1, d1, 1));
            ANSB("pbo:ns0", tbl->put_by_obj(tbl, kk, 0, d1, 1));
            ANSB("pbo:dn", tbl->put_by_obj(tbl, kk, 1, NULL, 1));
            ANSB("pbo:ds0", tbl->put_by_obj(tbl, kk, 1, d1, 0));
            ANSB("pbo:tbl", tbl->put_by_obj(NULL, kk, 1, d1, 1));
            ANSB("put:nn", tbl->put(tbl, NULL, d1, 1));
            ANSB("put:dn", tbl->put(tbl, kk, NULL, 1));
            ANSB("put:ds0", tbl->put(tbl, kk, d1, 0));
            ANSB("putstr:nn", tbl->putstr(tbl, NULL, "x"));
            ANSB("putstr:dn", tbl->putstr(tbl, kk, NULL));
            sz = 77; ANSQ("gbo:nn", tbl->get_by_obj(tbl, NULL, 1, &sz));
            ANSQ("gbo:ns0", tbl->get_by_obj(tbl, kk, 0, &sz));
            ANSQ("gbo:tbl", tbl->get_by_obj(NULL, kk, 1, &sz));
            ANSQ("get:nn", tbl->get(tbl, NULL, &sz));
            ANSQ("getstr:nn", tbl->getstr(tbl, NULL));
            ANSP("gbo:nosize", tbl->get_by_obj(tbl, k.p, k.n, NULL));
            ANSB("rbo:nn", tbl->remove_by_obj(tbl, NULL, 1));
            ANSB("rbo:ns0", tbl->remove_by_obj(tbl, kk, 0));
            ANSB("rbo:tbl", tbl->remove_by_obj(NULL, kk, 1));
            ANSB("rm:nn", tbl->remove(tbl, NULL));
            ANSB("rmi:-1", tbl->remove_by_idx(tbl, -1));
            ANSB("rmi:max", tbl->remove_by_idx(tbl, ((qhasharr_data_t *) R.mem)->maxslots));
            idx = 0; ANSB("next:obj", tbl->getnext(tbl, NULL, &idx) || idx != 0);
            ANSB("next:idx", tbl->getnext(tbl, &obj, NULL));
            idx = 0; ANSB("next:tbl", tbl->getnext(NULL, &obj, &idx) || idx != 0);
            idx = -1; ANSB("next:-1", tbl->getnext(tbl, &obj, &idx) || idx != -1);
            ANSB("size:tbl", tbl->size(NULL, &idx, &idx) != -1);
            PLANT(); sb_puts(&res, " size:noout="); sb_int(&res, tbl->size(tbl, NULL, NULL));
            PLANT(); if (errno == EINVAL) errno = ERANGE;
            { int planted = errno; tbl->clear(NULL); sb_puts(&res, " clear:tbl="); sb_puts(&res, errno != planted ? errname(errno) : "none"); }
            ANSB("debug:tbl", tbl->debug(NULL, stdout));
            ANSB("debug:out", tbl->debug(tbl, NULL));
            if (sz != 77) sb_puts(&res, " size-written");
            free(k.p);
        } else if (nw == 5 && (!strcmp(op, "put") || !strcmp(op, "sput"))) {
            bytes_t k, v;
            if (!unhex(w[1], &k) || !unhex(w[2], &v)) { printf("bad-op\n"); continue; }
            bool ok; PLANT();
            if (op[0] == 's') {
                char *s = cstr_exact(&k);
                ok = tbl->put(tbl, s, v.p, v.n);
                keys_add(&ks, (unsigned char *) s, k.n + 1);
                free(s);
            } else {
                ok = tbl->put_by_obj(tbl, k.p, k.n, v.p, v.n);
                keys_add(&ks, k.p, k.n);
            }
            int e = errno;
            if (ok) sb_puts(&res, "ok"); else { sb_puts(&res, "false "); sb_puts(&res, errname(e)); }
            free(k.p); free(v.p);
        } else if (nw == 4 && (!strcmp(op, "get") || !strcmp(op, "sget"))) {
            bytes_t k;
            if (!unhex(w[1], &k)) { printf("bad-op\n"); continue; }
            size_t sz = 0; void *d; PLANT();
            if (op[0] == 's') {
                char *s = cstr_exact(&k);
                d = tbl->get(tbl, s, &sz);
                keys_add(&ks, (unsigned char *) s, k.n + 1);
                free(s);
            } else {
                d = tbl->get_by_obj(tbl, k.p, k.n, &sz);
                keys_add(&ks, k.p, k.n);
            }
            int e = errno;
            if (d) { sb_puts(&res, "data "); sb_hex(&res, d, sz); free(d); } else { sb_puts(&res, "null "); sb_puts(&res, errname(e)); }
            free(k.p);
        } else if (nw == 5 && !strcmp(op, "putstr")) {
            bytes_t k, v;
            if (!unhex(w[1], &k) || !unhex(w[2], &v)) { printf("bad-op\n"); continue; }
            char *s = cstr_exact(&k), *t = cstr_exact(&v);
            PLANT();
            bool ok = tbl->putstr(tbl, s, t);
            int e = errno;
            keys_add(&ks, (unsigned char *) s, k.n + 1);
            if (ok) sb_puts(&res, "ok"); else { sb_puts(&res, "false "); sb_puts(&res, errname(e)); }
            free(s); free(t); free(k.p); free(v.p);
        } else if (nw == 4 && !strcmp(op, "getstr")) {
            /* getstr returns no size: the size comes from a second lookup, the bytes from getstr's block */
            bytes_t k;
            if (!unhex(w[1], &k)) { printf("bad-op\n"); continue; }
            char *s = cstr_exact(&k);
            PLANT();
            char *d = tbl->getstr(tbl, s);
            int e = errno;
            keys_add(&ks, (unsigned char *) s, k.n + 1);
            if (d) {
                size_t sz = 0; PLANT(); void *d2 = tbl->get(tbl, s, &sz);
                sb_puts(&res, "data "); sb_hex(&res, d, d2 ? sz : 0);
                if (!d2 || memcmp(d, d2, sz) != 0) sb_puts(&res, " getstr-differs");
                free(d2); free(d);
            } else { sb_puts(&res, "null "); sb_puts(&res, errname(e)); }
            free(s); free(k.p);
        } else if (nw == 4 && (!strcmp(op, "rm") || !strcmp(op, "srm"))) {
            bytes_t k;
            if (!unhex(w[1], &k)) { printf("bad-op\n"); continue; }
            bool ok; PLANT();
            if (op[0] == 's') {
                char *s = cstr_exact(&k);
                ok = tbl->remove(tbl, s);
                keys_add(&ks, (unsigned char *) s, k.n + 1);
                free(s);
            } else {
                ok = tbl->remove_by_obj(tbl, (const char *) k.p, k.n);
                keys_add(&ks, k.p, k.n);
            }
            int e = errno;
            if (ok) sb_puts(&res, "ok"); else { sb_puts(&res, "false "); sb_puts(&res, errname(e)); }
            free(k.p);
        } else if (nw == 2 && !strcmp(op, "rmi")) {
            PLANT();
            bool ok = tbl->remove_by_idx(tbl, atoi(w[1]));
            int e = errno;
            if (ok) sb_puts(&res, "ok"); else { sb_puts(&res, "false "); sb_puts(&res, errname(e)); }
        } else if (nw == 1 && !strcmp(op, "clear")) {
            PLANT(); tbl->clear(tbl); sb_puts(&res, "ok");
        } else if (nw == 1 && !strcmp(op, "size")) {
            int max = -1, used = -1; PLANT(); int num = tbl->size(tbl, &max, &used);
            sb_puts(&res, "size "); sb_int(&res, num); sb_puts(&res, " "); sb_int(&res, max); sb_puts(&res, " "); sb_int(&res, used);
        } else if (nw == 1 && !strcmp(op, "walk")) {
            walk_text(&res, tbl);
        } else if (nw == 2 && !strcmp(op, "next")) {
            int idx = atoi(w[1]); qhasharr_obj_t obj; PLANT();
            if (tbl->getnext(tbl, &obj, &idx)) {
                sb_puts(&res, "obj "); sb_int(&res, idx); sb_puts(&res, " "); sb_name(&res, obj.name, obj.namesize);
                sb_puts(&res, " "); sb_hex(&res, obj.data, obj.datasize);
                free(obj.name); free(obj.data);
            } else { sb_puts(&res, "end "); sb_int(&res, idx); sb_puts(&res, " "); sb_puts(&res, errname(errno)); }
        } else if (nw == 3 && !strcmp(op, "walkrm")) {
            /* the traversal-with-removal idiom documented at qhasharr_remove_by_idx */
            long m = atol(w[1]), r = atol(w[2]), j = 0;
            int idx = 0; qhasharr_obj_t obj;
            sb_puts(&res, "walkrm");
            while (PLANT(), tbl->getnext(tbl, &obj, &idx)) {
                sb_puts(&res, " "); sb_int(&res, idx - 1); sb_puts(&res, ":"); sb_name(&res, obj.name, obj.namesize); sb_puts(&res, ":");
                if (m > 0 && j % m == r) {
                    idx--; PLANT();
                    bool ok = tbl->remove_by_idx(tbl, idx);
                    sb_puts(&res, ok ? "ok" : errname(errno));
                } else sb_puts(&res, "-");
                free(obj.name); free(obj.data);
                j++;
            }
        } else { printf("bad-op\n"); continue; }

        /* (1) guards, padding, tail */
        qhasharr_data_t *hdr = (qhasharr_data_t *) R.mem;
        qhasharr_slot_t *sl = slots_of(R.mem);
        int maxslots = hdr->maxslots;
        size_t nslots = (R.memsize - sizeof(qhasharr_data_t)) / sizeof(qhasharr_slot_t);
        bool g1 = guards_ok(&R), g2 = true, g3 = true;
        for (size_t o = sizeof(qhasharr_data_t) + nslots * sizeof(qhasharr_slot_t); o < R.memsize; o++)
            if (R.mem[o] != 0) g3 = false;
        /* (2) header + changed slots; the padding bytes of every changed slot (after `init`: of every
         * slot) must be zero - unchanged slots were checked when they last changed. The region is
         * compared in chunks of 64 slots first (tables of 10^5 slots). */
        fputs(res.p, stdout);
        printf(" | h %d %d %d | d", hdr->maxslots, hdr->usedslots, hdr->num);
        for (size_t c0 = 0; c0 < nslots; c0 += 64) {
            size_t c1 = c0 + 64 < nslots ? c0 + 64 : nslots;
            size_t co = sizeof(qhasharr_data_t) + c0 * sizeof(qhasharr_slot_t);
            if (!all && memcmp(shadow + co, R.mem + co, (c1 - c0) * sizeof(qhasharr_slot_t)) == 0) continue;
            for (size_t i = c0; i < c1; i++) {
                size_t o = sizeof(qhasharr_data_t) + i * sizeof(qhasharr_slot_t);
                if (all || memcmp(shadow + o, R.mem + o, sizeof(qhasharr_slot_t)) != 0) {
                    for (size_t b = 0; b < sizeof(qhasharr_slot_t); b++)
                        if (padmask[b] && ((unsigned char *) &sl[i])[b] != 0) g2 = false;
                    printf(" %zu=%d,%u,%u,%d,", i, (int) sl[i].count, (unsigned) sl[i].hash, (unsigned) sl[i].datasize, sl[i].link);
                    puthex(stdout, &sl[i].data, sizeof(sl[i].data));
                    memcpy(shadow + o, R.mem + o, sizeof(qhasharr_slot_t));
                }
            }
        }
        memcpy(shadow, R.mem, sizeof(qhasharr_data_t));     /* header; the tail must stay zero (g3) */
        if (all) memcpy(shadow, R.mem, R.memsize);
        /* (3) observations through the original and through a relocated byte copy. Tables of more than
         * MIDSLOTS slots: after init / walk / size and every 4th (above HUGESLOTS: 256th) operation */
        bool full = nslots <= MIDSLOTS || all || !strcmp(op, "walk") || !strcmp(op, "size") ||
                    (nslots <= HUGESLOTS ? nops % 4 == 3 : nops % 256 == 255);
        region_t C = {0}; qhasharr_t *tbl2 = NULL;
        if (full) {
            to.n = 0; sb_puts(&to, ""); obs_text(&to, tbl, &ks);
            size_t coff = OFFS[nops % (sizeof OFFS / sizeof OFFS[0])];
            if (coff == R.off) coff += 4;                     /* never the same offset as the original */
            C = region_new(R.memsize, coff);
            memcpy(C.mem, R.mem, R.memsize);
            PLANT(); tbl2 = qhasharr(C.mem, 0);
            tc.n = 0; sb_puts(&tc, ""); obs_text(&tc, tbl2, &ks);
            if (!guards_ok(&C) || memcmp(C.mem, R.mem, R.memsize) != 0 || memcmp(shadow, R.mem, R.memsize) != 0) g1 = false;
        }
        { long at = R.memsize <= (1u << 22) ? addr_scan(R.mem, R.memsize) : -1;
          if (at >= 0) printf(" !process-address@%ld", at); }
        printf(" | g %d%d%d | ", g1, g2, g3);
        if (!full) printf("o - c -");
        else if (maxslots <= SMALLCAP) printf("o[%s] c[%s]", to.p, tc.p);
        else printf("o %016llx c %016llx", fnv64(to.p, to.n), fnv64(tc.p, tc.n));
        printf("\n");
        alarm(0);
        nops++;
        /* (4) every 32nd operation the history continues through the copy */
        if (!full) {
            /* no copy was made */
        } else if (nops % 32 == 0) {
            tbl->free(tbl); region_free(&R);
            tbl = tbl2; R = C;
        } else {
            tbl2->free(tbl2); region_free(&C);
        }
    }
    if (tbl) { tbl->free(tbl); region_free(&R); }
    free(shadow); keys_clear(&ks); free(ks.v); free(res.p); free(to.p); free(tc.p);
    free(line);
    return 0;
}

/* Correspondence harness for src/extensions/qconfig.c (INI style) and src/extensions/qaconf.c
 * (Apache style). One operation per input line, one result line per operation
 * (see lean/Driver/Conf.lean for the grammar of both).
 *
 *   ini <sep> <doc> [<name>=<value> ...]      sep: one byte (hex), doc: hex, then the environment
 *        -> ok <n> <name>=<value> ...          entries of the returned list table, top to bottom
 *   inif <sep> <mainpath> [<path>=<content> ...]   qconfig_parse_file on a virtual file system (hex)
 *        -> ok <n> <name>=<value> ... | null
 *   ac <flags> <defcb> <doc> [<opt> ...]       opt = <name>:<take>:<cb>:<sectionid>:<sections> (numbers hex)
 *   acp <pathlen> <flags> <defcb> <doc> [<opt> ...]   the same, the file is opened under a path of exactly
 *        <pathlen> (decimal) bytes (`/.` components inserted): the error message starts with the path
 *   acpipe <flags> <defcb> <doc> [<opt> ...]   the same document read through a PIPE (path /dev/fd/N, a writer
 *        thread feeds it): not seekable - rewind / fseek / ftell fail silently there; same result expected
 *   inifp <sep> <mainpath> [<path>=<content> ...]   like inif, the MAIN file is a pipe (fstat reports size 0)
 *   fread <nbytes> <content>                   qfile_read(fp, &nbytes) on a stream holding <content> (hex);
 *        nbytes decimal, `-` = NULL pointer -> ok <n> <data> | null
 *        -> add <k> ret <n> <line|-> <msg|-> cbs <m> <cb> ...
 *           cb = <M|D>/<otype>/<section>/<sections>/<level>/<argc>/<parent argv[0]s>/<argv>
 *
 * Every caller buffer is an exactly sized malloc block; the environment is cleared at start and
 * set per operation; `popen`/`pclose` are wrapped (link with -Wl,--wrap=popen -Wl,--wrap=pclose)
 * so that no `${!cmd}` ever reaches a shell; every library call runs under alarm(): a call that
 * does not return is reported as the result `timeout` (and ends the harness, exit code 3). */
#include "common.h"
#include <signal.h>
#include <libgen.h>
#include "qlibc.h"
#include "qlibcext.h"
#include "qinternal.h"

#define WATCHDOG_S 5

/* ---------------------------------------------------------------- popen stub */
static char *popen_buf;
FILE *__wrap_popen(const char *cmd, const char *mode) {
    (void) mode;
    if (cmd[0] == 'N') return NULL;                 /* "command cannot be started" */
    size_t n = strlen(cmd);
    if (cmd[0] == 'R' && cmd[1] != '\0' && strspn(cmd + 1, "0123456789") == n - 1 && n <= 9) {
        /* `R<n>`: the command prints exactly n bytes, byte i = 'a' + i % 23 (no terminator in the buffer) */
        size_t k = (size_t) strtoul(cmd + 1, NULL, 10);
        if (k == 0) return tmpfile();
        popen_buf = malloc(k);
        for (size_t i = 0; i < k; i++) popen_buf[i] = (char) ('a' + i % 23);
        return fmemopen(popen_buf, k, "r");
    }
    popen_buf = malloc(n + 6);
    if (cmd[0] == 'E') popen_buf[0] = '\0';          /* command prints nothing */
    else sprintf(popen_buf, " [%s] \n", cmd);
    if (popen_buf[0] == '\0') {                      /* fmemopen rejects size 0 on some libcs */
        FILE *f = tmpfile();
        return f;
    }
    return fmemopen(popen_buf, strlen(popen_buf), "r");
}
int __wrap_pclose(FILE *f) {
    int r = fclose(f);
    free(popen_buf); popen_buf = NULL;
    return r;
}

/* ---------------------------------------------------------------- virtual file system for qconfig_parse_file
 * `open` is wrapped (-Wl,--wrap=open): during an `inif` operation the library sees exactly the files
 * named on the operation line, under exactly those path strings (no normalisation); every other path,
 * the real file system included, does not exist. The contents live in scratch files next to the binary. */
#include <fcntl.h>
#include <stdarg.h>
#define MAXVF 512
static struct { char *path; char real[4200]; } vf[MAXVF];
static int nvf;
/* a document fed through a pipe by a writer thread */
#include <pthread.h>
typedef struct { int fd; unsigned char *p; size_t n; pthread_t th; } feed_t;
#define MAXFEED 600
static feed_t feeds[MAXFEED];
static int nfeeds;
static void *feeder(void *arg) {
    feed_t *f = arg; size_t off = 0;
    while (off < f->n) { ssize_t k = write(f->fd, f->p + off, f->n - off); if (k <= 0) break; off += (size_t) k; }
    close(f->fd);
    return NULL;
}
/* -> read end of a new pipe that will deliver p[0..n) (copied), or -1 */
static int feed_pipe(const unsigned char *p, size_t n) {
    int pfd[2];
    if (nfeeds >= MAXFEED || pipe(pfd) != 0) return -1;
    feed_t *f = &feeds[nfeeds++];
    f->fd = pfd[1]; f->n = n; f->p = malloc(n ? n : 1); if (n) memcpy(f->p, p, n);
    pthread_create(&f->th, NULL, feeder, f);
    return pfd[0];
}
static void feeds_join(void) {
    for (int i = 0; i < nfeeds; i++) { pthread_join(feeds[i].th, NULL); free(feeds[i].p); }
    nfeeds = 0;
}
static const char *pipe_path; static bytes_t pipe_content;      /* inifp: this path is a pipe */

int __real_open(const char *path, int flags, ...);
int __wrap_open(const char *path, int flags, ...) {
    (void) flags;
    if (pipe_path != NULL && strcmp(pipe_path, path) == 0) return feed_pipe(pipe_content.p, pipe_content.n);
    for (int i = 0; i < nvf; i++)
        if (strcmp(vf[i].path, path) == 0) return __real_open(vf[i].real, O_RDONLY, 0);
    errno = ENOENT;
    return -1;
}

/* ---------------------------------------------------------------- ambient errno
 * Before EVERY library call one of these values is planted, chosen from the text of the operation line
 * (a replay of the single operation plants the same value). No result may depend on the errno left
 * behind by earlier, unrelated calls - the models have no ambient errno at all. */
static const int AMBIENT[8] = {0, ENOMEM, ERANGE, EINTR, ENOENT, EINVAL, EAGAIN, ENOBUFS};
static unsigned op_hash, op_call;
static void plant_errno(void) { errno = AMBIENT[(op_hash + op_call++) % 8]; }

/* ---------------------------------------------------------------- watchdog */
static char tmp_path[4096];
static void on_alarm(int sig) {
    (void) sig;
    fflush(stdout);
    static const char m[] = "timeout\n";
    if (write(1, m, sizeof(m) - 1) < 0) _exit(4);
    unlink(tmp_path);
    _exit(3);
}

/* ---------------------------------------------------------------- callbacks */
static FILE *cbout; static int ncb;

static void show_cb(char who, qaconf_cbdata_t *d) {
    fprintf(cbout, " %c/%d/%llx/%llx/%u/%d/", who, (int) d->otype, (unsigned long long) d->section,
            (unsigned long long) d->sections, (unsigned) d->level, d->argc);
    if (d->parent == NULL) fputc('.', cbout);
    for (qaconf_cbdata_t *p = d->parent; p != NULL; p = p->parent) {
        if (p != d->parent) fputc(',', cbout);
        puthex(cbout, p->argv[0], strlen(p->argv[0]));
    }
    fputc('/', cbout);
    if (d->argc == 0) fputc('.', cbout);
    for (int i = 0; i < d->argc; i++) {
        if (i) fputc(',', cbout);
        puthex(cbout, d->argv[i], strlen(d->argv[i]));
    }
    ncb++;
}

/* the registered callback: refuses `!fail` as first argument of an option / section open and
 * `!failclose` as first argument of the section being closed (error strings are malloc'ed) */
static QAC_CB(cb_main) {
    (void) userdata;
    show_cb('M', data);
    if (data->argc >= 2) {
        if (data->otype != QAC_OTYPE_SECTIONCLOSE && !strcmp(data->argv[1], "!fail"))
            return strdup("callback refused");
        if (data->otype == QAC_OTYPE_SECTIONCLOSE && !strcmp(data->argv[1], "!failclose"))
            return strdup("callback refused close");
    }
    return NULL;
}
/* the default handler never fails */
static QAC_CB(cb_def) {
    (void) userdata;
    show_cb('D', data);
    return NULL;
}
/* a default handler that refuses like the registered callback (`ac` with defcb = 2; the Lean model has
 * no refusing default handler: such operations are run against the oracle only) */
static QAC_CB(cb_def_refusing) {
    (void) userdata;
    show_cb('D', data);
    if (data->argc >= 2) {
        if (data->otype != QAC_OTYPE_SECTIONCLOSE && !strcmp(data->argv[1], "!fail"))
            return strdup("default handler refused");
        if (data->otype == QAC_OTYPE_SECTIONCLOSE && !strcmp(data->argv[1], "!failclose"))
            return strdup("default handler refused close");
    }
    return NULL;
}

/* ---------------------------------------------------------------- helpers */

static unsigned long long hexnum(const char *s) { return strtoull(s, NULL, 16); }

static void do_ini(int nw, char **w) {
    bytes_t sep, doc;
    if (!unhex(w[1], &sep) || sep.n != 1 || !unhex(w[2], &doc)) { printf("bad-op"); return; }
    clearenv();
    for (int i = 3; i < nw; i++) {
        char *eq = strchr(w[i], '=');
        if (!eq) continue;
        *eq = '\0';
        bytes_t n, v;
        if (!unhex(w[i], &n) || !unhex(eq + 1, &v)) continue;
        char *ns = cstr_exact(&n), *vs = cstr_exact(&v);
        setenv(ns, vs, 1);
        free(ns); free(vs); free(n.p); free(v.p);
    }
    char *s = cstr_exact(&doc);
    alarm(WATCHDOG_S);
    plant_errno();
    qlisttbl_t *t = qconfig_parse_str(NULL, s, (char) sep.p[0]);
    alarm(0);
    if (t == NULL) {
        printf("null");
    } else {
        printf("ok %zu", t->size(t));
        for (qlisttbl_obj_t *o = t->first; o != NULL; o = o->next) {
            printf(" "); puthex(stdout, o->name, strlen(o->name)); printf("=");
            puthex(stdout, o->data, o->size ? o->size - 1 : 0);      /* putstr stores the NUL */
        }
        t->free(t);
    }
    clearenv();
    free(s); free(sep.p); free(doc.p);
}

/* inif <sep> <mainpath> [<path>=<content> ...]   -> ok <n> <name>=<value> ... | null */
static void do_inif(int nw, char **w, int main_is_pipe) {
    bytes_t sep, mp;
    if (!unhex(w[1], &sep) || sep.n != 1 || !unhex(w[2], &mp)) { printf("bad-op"); return; }
    nvf = 0;
    for (int i = 3; i < nw && nvf < MAXVF; i++) {
        char *eq = strchr(w[i], '=');
        if (!eq) continue;
        *eq = '\0';
        bytes_t n, v;
        if (!unhex(w[i], &n) || !unhex(eq + 1, &v)) continue;
        vf[nvf].path = cstr_exact(&n);
        snprintf(vf[nvf].real, sizeof(vf[nvf].real), "%s.f%d", tmp_path, nvf);
        FILE *fp = fopen(vf[nvf].real, "w");
        if (fp) { if (v.n) fwrite(v.p, 1, v.n, fp); fclose(fp); }
        if (main_is_pipe && pipe_path == NULL && n.n == mp.n && memcmp(n.p, mp.p, n.n) == 0) {
            pipe_path = vf[nvf].path; pipe_content = v; v.p = NULL;
        }
        free(n.p); free(v.p);
        nvf++;
    }
    clearenv();
    char *main_path = cstr_exact(&mp);
    alarm(WATCHDOG_S);
    plant_errno();
    qlisttbl_t *t = qconfig_parse_file(NULL, main_path, (char) sep.p[0]);
    alarm(0);
    if (t == NULL) {
        printf("null");
    } else {
        printf("ok %zu", t->size(t));
        for (qlisttbl_obj_t *o = t->first; o != NULL; o = o->next) {
            printf(" "); puthex(stdout, o->name, strlen(o->name)); printf("=");
            puthex(stdout, o->data, o->size ? o->size - 1 : 0);
        }
        t->free(t);
    }
    feeds_join();
    if (pipe_path != NULL) { pipe_path = NULL; free(pipe_content.p); }
    for (int i = 0; i < nvf; i++) { unlink(vf[i].real); free(vf[i].path); }
    nvf = 0;
    free(main_path); free(sep.p); free(mp.p);
}

/* a path of exactly `want` bytes that names tmp_path (`/.` components, one `//` for an odd rest);
 * tmp_path itself when that is already longer */
static char padded_path[4200];
static const char *path_of_length(size_t want) {
    size_t nat = strlen(tmp_path);
    if (want < nat + 1 || want >= 4096) return tmp_path;
    char *slash = strrchr(tmp_path, '/');
    size_t dl = (size_t) (slash - tmp_path), extra = want - nat, k = 0;
    memcpy(padded_path, tmp_path, dl); k = dl;
    for (size_t i = 0; i < extra / 2; i++) { padded_path[k++] = '/'; padded_path[k++] = '.'; }
    if (extra % 2) padded_path[k++] = '/';
    strcpy(padded_path + k, slash);
    return padded_path;
}

static int ac_reuse = 0;   /* acre: the parser object has been used before (same path) */
static void do_ac(int nw, char **w, size_t pathlen, int through_pipe) {
    const char *use_path = pathlen ? path_of_length(pathlen) : tmp_path;
    char fdpath[64]; int rfd = -1;
    unsigned flags = (unsigned) hexnum(w[1]);
    int defcb = atoi(w[2]);
    bytes_t doc;
    if (!unhex(w[3], &doc)) { printf("bad-op"); return; }
    int nopt = nw - 4;
    qaconf_option_t *opts = calloc((size_t) nopt + 1, sizeof(qaconf_option_t));   /* + QAC_OPTION_END */
    for (int i = 0; i < nopt; i++) {
        char *f[5]; int k = 0; char *save = NULL;
        for (char *t = strtok_r(w[4 + i], ":", &save); t && k < 5; t = strtok_r(NULL, ":", &save)) f[k++] = t;
        bytes_t nm;
        if (k != 5 || !unhex(f[0], &nm)) { printf("bad-op"); return; }
        opts[i].name = cstr_exact(&nm); free(nm.p);
        opts[i].take = (uint32_t) hexnum(f[1]);
        opts[i].cb = atoi(f[2]) ? cb_main : NULL;
        opts[i].sectionid = hexnum(f[3]);
        opts[i].sections = hexnum(f[4]);
    }
    if (through_pipe) {
        rfd = feed_pipe(doc.p, doc.n);
        if (rfd < 0) { printf("bad-pipe"); return; }
        snprintf(fdpath, sizeof fdpath, "/dev/fd/%d", rfd);
        use_path = fdpath;
    } else {
        FILE *fp = fopen(tmp_path, "w");
        if (!fp) { printf("bad-tmp"); return; }
        if (doc.n) fwrite(doc.p, 1, doc.n, fp);
        fclose(fp);
    }

    char *cbtext = NULL; size_t cblen = 0;
    cbout = open_memstream(&cbtext, &cblen); ncb = 0;
    qaconf_t *conf = qaconf();
    int added = conf->addoptions(conf, opts);
    if (defcb) conf->setdefhandler(conf, defcb == 2 ? cb_def_refusing : cb_def);
    if (ac_reuse && !through_pipe) {
        /* C20 for a parser object that is not fresh (seed C20-m10): the same object first reads a six-line
         * file of comments and then the document itself, both under the same path, errors reset in between
         * (documented reseterror); what is reported is the LAST parse - it must read like a first one */
        static const char warm[] = "# warm\n\n# up\n\n\n# x\n";
        FILE *fp = fopen(tmp_path, "w");
        if (fp) { fwrite(warm, 1, sizeof(warm) - 1, fp); fclose(fp); }
        alarm(WATCHDOG_S); plant_errno();
        (void) conf->parse(conf, use_path, (uint8_t) flags);
        conf->reseterror(conf);
        fp = fopen(tmp_path, "w");
        if (fp) { if (doc.n) fwrite(doc.p, 1, doc.n, fp); fclose(fp); }
        (void) conf->parse(conf, use_path, (uint8_t) flags);
        conf->reseterror(conf);
        alarm(0);
        fclose(cbout); free(cbtext); cbtext = NULL; cblen = 0;
        cbout = open_memstream(&cbtext, &cblen); ncb = 0;
    }
    alarm(WATCHDOG_S);
    plant_errno();
    int ret = conf->parse(conf, use_path, (uint8_t) flags);
    alarm(0);
    if (rfd >= 0) { close(rfd); feeds_join(); }
    fclose(cbout);
    printf("add %d ret %d ", added, ret);
    const char *em = conf->errmsg(conf);
    if (em == NULL) printf("- -");
    else {
        size_t pl = strlen(use_path);
        if (strncmp(em, use_path, pl) == 0 && em[pl] == ':') {
            char *end = NULL;
            long ln = strtol(em + pl + 1, &end, 10);
            if (*end == ' ') end++;
            printf("%ld ", ln); puthex(stdout, end, strlen(end));
        } else {
            printf("? "); puthex(stdout, em, strlen(em));
        }
    }
    printf(" cbs %d%s", ncb, cbtext ? cbtext : "");
    free(cbtext);
    conf->free(conf);
    for (int i = 0; i < nopt; i++) free(opts[i].name);
    free(opts); free(doc.p);
}

/* fread <nbytes|-> <content>: qfile_read on a stream that holds exactly <content> */
static void do_fread(char **w) {
    bytes_t c;
    if (!unhex(w[2], &c)) { printf("bad-op"); return; }
    size_t nb = 0, *nbp = NULL;
    if (strcmp(w[1], "-") != 0) { nb = (size_t) strtoul(w[1], NULL, 10); nbp = &nb; }
    FILE *fp = c.n ? fmemopen(c.p, c.n, "r") : tmpfile();
    if (!fp) { printf("bad-tmp"); free(c.p); return; }
    alarm(WATCHDOG_S);
    plant_errno();
    char *d = qfile_read(fp, nbp);
    alarm(0);
    fclose(fp);
    if (d == NULL) printf("null");
    else {
        size_t n = nbp ? nb : strlen(d);
        printf("ok %zu ", n); puthex(stdout, d, n);
        printf(" %02x", (unsigned char) d[n]);
        free(d);
    }
    free(c.p);
}

int main(int argc, char **argv) {
    (void) argc;
    char *line = NULL; size_t cap = 0; ssize_t len;
    harness_init();
    signal(SIGALRM, on_alarm);
    {   /* temp file in /dev/shm, else next to the harness binary (the build directory) */
        char exe[4000]; ssize_t n = readlink("/proc/self/exe", exe, sizeof(exe) - 1);
        if (n <= 0) { strncpy(exe, argv[0], sizeof(exe) - 1); n = (ssize_t) strlen(exe); }
        exe[n] = '\0';
        /* tens of thousands of documents are written and parsed per run: memory file system when there is one */
        if (access("/dev/shm", W_OK | X_OK) == 0)
            snprintf(tmp_path, sizeof(tmp_path), "/dev/shm/verif-conf-%d.tmp", (int) getpid());
        else
            snprintf(tmp_path, sizeof(tmp_path), "%s/conf-%d.tmp", dirname(exe), (int) getpid());
    }
    char **w = malloc(sizeof(char *) * 4096);
    signal(SIGPIPE, SIG_IGN);          /* a parser that stops early leaves the writer of a pipe behind */
    while ((len = getline(&line, &cap, stdin)) > 0) {
        op_hash = 2166136261u; op_call = 0;
        for (ssize_t i = 0; i < len; i++) if (line[i] != '\n' && line[i] != '\r') op_hash = (op_hash ^ (unsigned char) line[i]) * 16777619u;
        op_hash ^= op_hash >> 15;
        int nw = 0; char *save = NULL;
        for (char *t = strtok_r(line, " \t\r\n", &save); t && nw < 4096; t = strtok_r(NULL, " \t\r\n", &save)) w[nw++] = t;
        if (nw == 0) continue;
        if (!strcmp(w[0], "ini") && nw >= 3) do_ini(nw, w);
        else if (!strcmp(w[0], "inif") && nw >= 3) do_inif(nw, w, 0);
        else if (!strcmp(w[0], "inifp") && nw >= 3) do_inif(nw, w, 1);
        else if (!strcmp(w[0], "ac") && nw >= 4) do_ac(nw, w, 0, 0);
        else if (!strcmp(w[0], "acpipe") && nw >= 4) do_ac(nw, w, 0, 1);
        else if (!strcmp(w[0], "acre") && nw >= 4) { ac_reuse = 1; do_ac(nw, w, 0, 0); ac_reuse = 0; }
        else if (!strcmp(w[0], "acp") && nw >= 5) do_ac(nw - 1, w + 1, (size_t) strtoul(w[1], NULL, 10), 0);
        else if (!strcmp(w[0], "fread") && nw == 3) do_fread(w);
        else printf("bad-op");
        printf("\n");
    }
    unlink(tmp_path);
    free(w); free(line);
    return 0;
}

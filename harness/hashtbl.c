/* Correspondence harness for src/containers/qhashtbl.c (properties C05, and the hash-table part
 * of C11 / C12 / C15).
 * One operation per input line, one result line per operation (see Driver/HashTbl.lean):
 *   <api result> | <range> <num> live=<n> <slot>:[name(hash)=data,...] ...   (non-empty slots only)
 * The chain layout is read through the public structs after every operation. The hash printed
 * is the one the C code stored; the operation line carries the hash the generator computed
 * (pure-Python murmur3) and the model places the key by that value, so a disagreement shows.
 *
 * Allocation overlay (linked against libqw.a, see allocwrap.h): `fault k` / `faultfrom k` arm a
 * failure for the NEXT library call; the result of every call that may allocate starts with
 * `allocs=<attempts>`; `live` = blocks the library holds for the container (copies handed to the
 * caller excluded). Copies returned by copying accessors are kept with a private duplicate and
 * re-compared when the container is released (`end`); the caller's key / value buffers are
 * overwritten right after each put. */
#include "common.h"
#include "allocwrap.h"
#include "qlibc.h"
#include <inttypes.h>

/* AMBIENT errno: before every library call the harness plants the next value of this cycle; no
 * result, no reported errno and no state may depend on what the caller happened to have in errno
 * (a failing call has to SET errno where the harness reports it) */
static const int PLANTS[8] = {0, ENOMEM, ERANGE, EINTR, ENOENT, EINVAL, EAGAIN, ENOBUFS};
static unsigned long plant_n = 0;
static int planted = 0;
#define PLANT() (errno = planted = PLANTS[plant_n++ % 8])
#define PLANT_NOT(x) do { PLANT(); if (planted == (x)) PLANT(); } while (0)

/* C12: copies handed out by the library are kept and compared with a private duplicate when the
 * container is released (a retained internal pointer would have been freed or overwritten) */
typedef struct { void *p; void *dup; size_t n; } kept_t;
static kept_t *kept; static size_t nkept, capkept;
static long kept_bad = 0;
static void keep(void *p, size_t n) {
    if (!p) return;
    if (nkept == capkept) { capkept = capkept ? capkept * 2 : 256; kept = realloc(kept, capkept * sizeof(*kept)); }
    kept[nkept].p = p; kept[nkept].n = n; kept[nkept].dup = malloc(n ? n : 1); memcpy(kept[nkept].dup, p, n); nkept++;
    if (nkept > 4096) {      /* bound the memory: release the oldest half after checking it */
        size_t h = nkept / 2;
        for (size_t i = 0; i < h; i++) { if (memcmp(kept[i].p, kept[i].dup, kept[i].n)) kept_bad++; vf_free(kept[i].p); free(kept[i].dup); }
        memmove(kept, kept + h, (nkept - h) * sizeof(*kept)); nkept -= h;
    }
}
static long check_kept(void) {
    long bad = kept_bad;
    for (size_t i = 0; i < nkept; i++) {
        if (memcmp(kept[i].p, kept[i].dup, kept[i].n)) bad++;
        vf_free(kept[i].p); free(kept[i].dup);
    }
    nkept = 0; kept_bad = 0;
    return bad;
}

static qhashtbl_t *T = NULL;
static qhashtbl_obj_t CUR;      /* the caller's cursor struct of getnext */
static bool cur_valid = true;   /* no node was freed since the cursor was last filled */

static void dump(void) {
    printf(" | %zu %zu live=%ld", T->range, T->num, aw_live - (long) nkept);
    for (size_t i = 0; i < T->range; i++) {
        if (T->slots[i] == NULL) continue;
        printf(" %zu:[", i);
        for (qhashtbl_obj_t *o = T->slots[i]; o != NULL; o = o->next) {
            puthex(stdout, o->name, strlen(o->name));
            printf("(%08x)=", o->hash);
            puthex(stdout, o->data, o->size);
            if (o->next) printf(",");
        }
        printf("]");
    }
}

static void show_next(bool r, int e, bool newmem) {
    if (r) {
        printf("true ");
        puthex(stdout, CUR.name, strlen(CUR.name));
        printf("(%08x)=", CUR.hash);
        puthex(stdout, CUR.data, CUR.size);
        /* the copies are kept (C12); the pointers in CUR stay non-NULL: "continue" */
        if (newmem) { keep(CUR.name, strlen(CUR.name) + 1); keep(CUR.data, CUR.size); }
    } else {
        printf("false %s", errname(e));
    }
}


/* ---- arguments that point into the table's own storage ---------------------------------------
 * find the stored node of `name` through the public walk (newmem = false): its name / data pointers
 * are the table's own blocks */
static bool own_node(const char *name, qhashtbl_obj_t *out) {
    qhashtbl_obj_t o; memset(&o, 0, sizeof(o));
    size_t guard = T->num + 2;
    while (guard-- > 0 && T->getnext(T, &o, false)) {
        if (!strcmp(o.name, name)) { *out = o; return true; }
    }
    return false;
}

/* ---- `debug`: qhashtbl_debug() into a memory stream ------------------------------------------ */
static void do_debug(void) {
    char *buf = NULL; size_t n = 0;
    FILE *f = open_memstream(&buf, &n);
    PLANT();
    bool r = T->debug(T, f);
    fclose(f);
    printf("debug %d ", (int) r); puthex(stdout, buf, n);
    free(buf);
}

/* ---- `hugeval <extra>` (thorough tier, no model line): one value of 2^32 + extra bytes in a
 * range-1 table between two small entries; every size the API reports and spot-checked bytes are
 * compared with what was put; prints `ok` or the first mismatch */
static inline unsigned char hv_at(size_t i) { uint64_t v = ((uint64_t) (i >> 3) + 1) * 0x9E3779B97F4A7C15ULL; return (unsigned char) (v >> ((i & 7) * 8)); }
static void hv_fill(unsigned char *b, size_t n) {
    size_t w = 0;
    for (; w + 8 <= n; w += 8) { uint64_t v = ((uint64_t) (w >> 3) + 1) * 0x9E3779B97F4A7C15ULL; memcpy(b + w, &v, 8); }
    for (; w < n; w++) b[w] = hv_at(w);
}
static bool hv_spots(const unsigned char *p, size_t n) {
    size_t at[10] = {0, 1, 4095, (size_t) 1 << 31, ((size_t) 1 << 32) - 1, (size_t) 1 << 32, ((size_t) 1 << 32) + 1, n / 2, n - 2, n - 1};
    for (int k = 0; k < 10; k++) if (at[k] < n && p[at[k]] != hv_at(at[k])) return false;
    /* one full comparison of the last MiB */
    for (size_t i = n > (1u << 20) ? n - (1u << 20) : 0; i < n; i++) if (p[i] != hv_at(i)) return false;
    return true;
}
static void do_hugeval(size_t extra) {
    size_t N = ((size_t) 1 << 32) + extra, sz;
    long before = aw_live;
    unsigned char *buf = malloc(N);
    qhashtbl_t *t = qhashtbl(1, 0);
    if (buf == NULL || t == NULL) { printf("no-memory"); free(buf); if (t) t->free(t); return; }
    hv_fill(buf, N);
    const char *msg = NULL;
#define HV_FAIL(m) do { msg = (m); goto out; } while (0)
    if (!t->put(t, "a", "small-a", 8) || !t->put(t, "h", buf, N) || !t->put(t, "z", "small-z", 8)) HV_FAIL("put failed");
    if (t->size(t) != 3) HV_FAIL("size after three puts is not 3");
    sz = 0; unsigned char *p = t->get(t, "h", &sz, false);
    if (p == NULL || p == buf) HV_FAIL("get(newmem=false) of the huge value");
    if (sz != N) HV_FAIL("get(newmem=false) reports another size than was put");
    if (!hv_spots(p, N)) HV_FAIL("bytes of the stored huge value differ from what was put");
    sz = 0; p = t->get(t, "h", &sz, true);
    if (p == NULL) HV_FAIL("get(newmem=true) of the huge value");
    if (sz != N || !hv_spots(p, N)) { vf_free(p); HV_FAIL("copy returned by get(newmem=true) has another size / content"); }
    vf_free(p);
    { qhashtbl_obj_t o; memset(&o, 0, sizeof(o)); int seen = 0;
      while (t->getnext(t, &o, false)) {
          size_t want = !strcmp(o.name, "h") ? N : 8;
          if (o.size != want) HV_FAIL("getnext reports another size than was put");
          if (!strcmp(o.name, "h") && !hv_spots(o.data, N)) HV_FAIL("getnext data of the huge value differs");
          seen++;
      }
      if (seen != 3) HV_FAIL("walk did not return three entries"); }
    sz = 0; p = t->get(t, "a", &sz, false); if (p == NULL || sz != 8 || memcmp(p, "small-a", 8)) HV_FAIL("neighbour a damaged");
    sz = 0; p = t->get(t, "z", &sz, false); if (p == NULL || sz != 8 || memcmp(p, "small-z", 8)) HV_FAIL("neighbour z damaged");
    if (!t->put(t, "h", "tiny", 5)) HV_FAIL("replace by a small value failed");
    sz = 0; p = t->get(t, "h", &sz, false); if (p == NULL || sz != 5 || memcmp(p, "tiny", 5)) HV_FAIL("small value after replace");
    if (!t->remove(t, "a") || t->size(t) != 2) HV_FAIL("remove / size after replace");
out:
    t->free(t);
    free(buf);
    if (msg == NULL && aw_live != before) msg = "blocks still allocated after the table was released";
    if (msg) printf("mismatch: %s", msg); else printf("ok");
}

static void put_result(bool r, int e) {
    printf("allocs=%ld ", aw_end());
    if (r) printf("true"); else printf("false %s", errname(e));
}

/* a second thread tries the container's mutex: 1 = busy */
#include <pthread.h>
#include "qinternal.h"
static void *probe_thread(void *m) {
    pthread_mutex_t *mx = &((qmutex_t *) m)->mutex;
    int r = pthread_mutex_trylock(mx);
    if (r == 0) pthread_mutex_unlock(mx);
    return (void *) (intptr_t) (r != 0);
}
static int probe_busy(void *qmutex) {
    pthread_t t; void *res = NULL;
    if (pthread_create(&t, NULL, probe_thread, qmutex) != 0) return -1;
    pthread_join(t, &res);
    return (int) (intptr_t) res;
}

/* per-operation watchdog: an endless loop inside the library is a dead harness, not a stuck check */
static void on_alarm(int sig) {
    (void) sig;
    static const char msg[] = "TIMEOUT: one operation ran for more than 8 s (endless loop in the library?)\n";
    if (write(2, msg, sizeof(msg) - 1) < 0) { }
    verif_flush_cb(); _exit(96);
}

int main(void) {
    char *line = NULL; size_t cap = 0; ssize_t len;
    harness_init();
    signal(SIGALRM, on_alarm);
    T = qhashtbl(0, 0);
    memset(&CUR, 0, sizeof(CUR));
    while ((len = getline(&line, &cap, stdin)) > 0) {
        char *w[MAXW]; int nw = split_words(line, w);
        if (nw == 0) continue;
        alarm(strcmp(w[0], "hugeval") ? 8 : 600);
        const char *op = w[0];
        bytes_t a = {0, 0}, d = {0, 0};
        char *name = NULL;
        /* ops with a key: <op> <namehex> <hash> [<arg>] */
        bool keyed = !strcmp(op, "put") || !strcmp(op, "putstr") || !strcmp(op, "putstrf") || !strcmp(op, "putint") || !strcmp(op, "get")
                  || !strcmp(op, "getstr") || !strcmp(op, "getint") || !strcmp(op, "rm")
                  || !strcmp(op, "putalias") || !strcmp(op, "putkeyalias");
        if (keyed) {
            if (nw < 3 || !unhex(w[1], &a)) { printf("bad-op\n"); continue; }
            name = cstr_exact(&a);
        }
        PLANT();
        if ((!strcmp(op, "fault") || !strcmp(op, "faultfrom")) && nw == 2) {
            /* arm: fail the k-th allocation (or all from the k-th) inside the next library call */
            aw_arm(atol(w[1]), op[5] == 'f');
            printf("ok"); dump(); printf("\n");
            free(a.p); free(d.p); free(name);
            continue;
        }
        if (!strcmp(op, "new") && (nw == 2 || nw == 3)) {
            size_t range = (size_t) strtoull(w[1], NULL, 10);
            int ts = nw == 3 && w[2][0] == '1';
            T->free(T);
            long before = aw_live;
            aw_begin();
            PLANT();
            T = qhashtbl(range, ts ? QHASHTBL_THREADSAFE : 0);
            int e = errno;
            printf("allocs=%ld ", aw_end());
            if (T == NULL) {
                /* a failed constructor must leave nothing behind; continue with a plain table */
                printf("null %s ctorlive=%ld", errname(e), aw_live - before);
                T = qhashtbl(range, 0);
            } else printf("ok");
            memset(&CUR, 0, sizeof(CUR)); cur_valid = true;
        } else if (!strcmp(op, "put") && nw == 4 && unhex(w[3], &d)) {
            aw_begin();
            bool r = T->put(T, name, d.p, d.n);
            int e = errno;
            memset(name, 0xAA, a.n); memset(d.p, 0xAA, d.n);      /* the caller's buffers are gone (C12) */
            put_result(r, e);
        } else if (!strcmp(op, "putstr") && nw == 4 && unhex(w[3], &d)) {
            char *s = cstr_exact(&d);
            aw_begin();
            bool r = T->putstr(T, name, s);
            int e = errno;
            memset(name, 0xAA, a.n); memset(s, 0xAA, d.n);
            put_result(r, e);
            free(s);
        } else if (!strcmp(op, "putstrf") && nw == 4 && unhex(w[3], &d)) {
            char *s = cstr_exact(&d);
            aw_begin();
            bool r = T->putstrf(T, name, "%s", s);
            int e = errno;
            memset(name, 0xAA, a.n); memset(s, 0xAA, d.n);
            put_result(r, e);
            free(s);
        } else if (!strcmp(op, "putint") && nw == 4) {
            aw_begin();
            bool r = T->putint(T, name, (int64_t) strtoll(w[3], NULL, 10));
            int e = errno;
            memset(name, 0xAA, a.n);
            put_result(r, e);
        } else if (!strcmp(op, "get") && nw == 4) {
            bool newmem = w[3][0] == '1';
            size_t sz = 12345;
            aw_begin();
            void *p = T->get(T, name, &sz, newmem);
            int e = errno;
            printf("allocs=%ld ", aw_end());
            if (p) { printf("data "); puthex(stdout, p, sz); printf(" %zu", sz); if (newmem) keep(p, sz); }
            else printf("null %s", errname(e));
        } else if (!strcmp(op, "getstr") && nw == 3) {
            size_t sz = 0;
            void *p = T->get(T, name, &sz, false);
            if (p && !memchr(p, 0, sz)) printf("nonul");      /* not a C string: the call would over-read */
            else {
                PLANT();
                aw_begin();
                char *s = T->getstr(T, name, true);
                int e = errno;
                printf("allocs=%ld ", aw_end());
                if (s) { printf("str "); puthex(stdout, s, strlen(s)); keep(s, strlen(s) + 1); }
                else printf("null %s", errname(e));
            }
        } else if (!strcmp(op, "getint") && nw == 3) {
            size_t sz = 0;
            void *p = T->get(T, name, &sz, false);
            if (p && !memchr(p, 0, sz)) printf("nonul");
            else {
                PLANT_NOT(ENOMEM);
                aw_begin();
                int64_t v = T->getint(T, name);
                int e = errno;
                printf("allocs=%ld int %" PRId64 "%s", aw_end(), v, e == ENOMEM ? " ENOMEM" : "");
            }
        } else if (!strcmp(op, "rm") && nw == 3) {
            aw_begin();
            bool r = T->remove(T, name);
            int e = errno;
            cur_valid = false;
            printf("allocs=%ld ", aw_end());
            if (r) printf("true"); else printf("false %s", errname(e));
        } else if (!strcmp(op, "size") && nw == 1) {
            printf("size %zu", T->size(T));
        } else if (!strcmp(op, "clear") && nw == 1) {
            T->clear(T);
            cur_valid = false;
            printf("ok");
        } else if (!strcmp(op, "reset") && nw == 1) {
            memset(&CUR, 0, sizeof(CUR)); cur_valid = true;
            printf("ok");
        } else if (!strcmp(op, "next") && nw == 2) {
            if (!cur_valid) printf("skip");
            else {
                bool newmem = w[1][0] == '1';
                aw_begin();
                bool r = T->getnext(T, &CUR, newmem);
                int e = errno;
                printf("allocs=%ld ", aw_end());
                show_next(r, e, newmem);
            }
        } else if (!strcmp(op, "walk") && nw == 2) {
            /* the loop of the property: zeroed cursor, getnext until false (never armed) */
            bool newmem = w[1][0] == '1';
            aw_arm(0, 0);
            memset(&CUR, 0, sizeof(CUR)); cur_valid = true;
            printf("walk");
            size_t guard = T->num + 2;
            while (guard-- > 0) {
                PLANT();
                bool r = T->getnext(T, &CUR, newmem);
                printf(" ");
                show_next(r, errno, newmem);
                if (!r) break;
            }
        } else if (!strcmp(op, "putalias") && nw == 6) {
            /* put / putstr whose DATA argument points into the stored value of the same key (pointer
             * from get(newmem=false), modes 0/1, or from getnext(newmem=false), modes 2/3) */
            int mode = w[3][0] - '0'; size_t off = strtoull(w[4], NULL, 10), ln = strtoull(w[5], NULL, 10);
            size_t sz = 0; unsigned char *p = NULL;
            if (mode < 2) p = T->get(T, name, &sz, false);
            else { qhashtbl_obj_t o; if (own_node(name, &o)) { p = o.data; sz = o.size; } }
            bool str = mode & 1;
            if (p == NULL || off > sz || (!str && off + ln > sz) || (str && !memchr(p + off, 0, sz - off))) printf("skip");
            else {
                PLANT();
                aw_begin();
                bool r = str ? T->putstr(T, name, (char *) p + off) : T->put(T, name, p + off, ln);
                int e = errno;
                put_result(r, e);
            }
        } else if (!strcmp(op, "putkeyalias") && nw == 5 && unhex(w[4], &d)) {
            /* put whose NAME argument points into the stored name of an entry (offset 0: the entry
             * itself is replaced; offset > 0: the key is a suffix of that stored name) */
            size_t off = strtoull(w[3], NULL, 10);
            qhashtbl_obj_t o;
            if (!own_node(name, &o) || off > strlen(o.name)) printf("skip");
            else {
                PLANT();
                aw_begin();
                bool r = T->put(T, o.name + off, d.p, d.n);
                int e = errno;
                put_result(r, e);
            }
        } else if (!strcmp(op, "debug") && nw == 1) {
            do_debug();
        } else if (!strcmp(op, "hugeval") && nw == 2) {
            do_hugeval((size_t) strtoull(w[1], NULL, 10));
        } else if (!strcmp(op, "inv") && nw == 1) {
            /* every call with a documented-invalid argument (NULL name, NULL data, NULL obj) on the
             * CURRENT table: result:errno per call; nothing may change (the dump follows) */
            static const char key[] = "invkey";
            size_t sz = 99; int e[24]; int r[24]; int i = 0;
            aw_arm(0, 0);
            PLANT(); r[i] = T->put(T, NULL, "v", 2); e[i++] = errno;
            PLANT(); r[i] = T->put(T, key, NULL, 2); e[i++] = errno;
            PLANT(); r[i] = T->put(T, NULL, NULL, 0); e[i++] = errno;
            PLANT(); r[i] = T->putstr(T, NULL, "v"); e[i++] = errno;
            PLANT(); r[i] = T->putstr(T, key, NULL); e[i++] = errno;
            PLANT(); r[i] = T->putstrf(T, NULL, "%s", "v"); e[i++] = errno;
            PLANT(); r[i] = T->putint(T, NULL, 7); e[i++] = errno;
            PLANT(); r[i] = T->get(T, NULL, &sz, false) != NULL; e[i++] = errno;
            PLANT(); r[i] = T->get(T, NULL, &sz, true) != NULL; e[i++] = errno;
            PLANT(); r[i] = T->get(T, NULL, NULL, true) != NULL; e[i++] = errno;
            PLANT(); r[i] = T->getstr(T, NULL, false) != NULL; e[i++] = errno;
            PLANT(); r[i] = T->getstr(T, NULL, true) != NULL; e[i++] = errno;
            PLANT(); r[i] = T->getint(T, NULL) != 0; e[i++] = errno;
            PLANT(); r[i] = T->remove(T, NULL); e[i++] = errno;
            PLANT(); r[i] = T->getnext(T, NULL, false); e[i++] = errno;
            PLANT(); r[i] = T->getnext(T, NULL, true); e[i++] = errno;
            PLANT(); r[i] = T->debug(T, NULL); e[i++] = errno;          /* documented: EIO */
            printf("inv");
            for (int j = 0; j < i; j++) printf(" %d:%s", r[j], e[j] == EIO ? "EIO" : errname(e[j]));
            printf(" sz=%zu", sz);
        } else if (!strcmp(op, "lock") && nw == 1) {
            /* lock / unlock / size through the method pointers. On a THREADSAFE table: a nested public
             * call (it takes the lock again) inside lock() ... unlock(); ANOTHER thread then finds the
             * mutex busy (the outer lock is still in force) and free after unlock() */
            T->lock(T);
            PLANT();
            void *p = T->get(T, "lock-probe-absent-key", NULL, false);
            int e = errno;
            size_t n1 = T->size(T);
            int held = T->qmutex ? probe_busy(T->qmutex) : -1;
            T->unlock(T);
            int after = T->qmutex ? probe_busy(T->qmutex) : -1;
            printf("locked size %zu nested=%s", n1, p ? "found" : errname(e));
            if (T->qmutex) printf(" held=%d after=%d", held, after); else printf(" nolock");
        } else if (!strcmp(op, "end") && nw == 1) {
            /* C11: once the container is released every block it allocated is freed;
             * C12: the copies handed out must have survived everything including the release */
            T->free(T);
            long bad = check_kept();
            printf("end live=%ld bad=%ld", aw_live, bad);
            T = qhashtbl(0, 0);
            memset(&CUR, 0, sizeof(CUR)); cur_valid = true;
        } else {
            printf("bad-op");
        }
        aw_arm(0, 0);       /* an armed failure never outlives the operation it was meant for */
        dump();
        printf("\n");
        free(a.p); free(d.p); free(name);
    }
    T->free(T);
    check_kept(); free(kept);
    free(line);
    return 0;
}

/* Correspondence harness for src/containers/qhashtbl.c (properties C05, and the hash-table part
 * of C11 / C12 / C15).
 * One operation per input line, one result line per operation (see Driver/HashTbl.lean):
 *   <api result> | <range> <num> live=<n> <slot>:[name(hash)=data,...] ...   (non-empty slots only)
 * The chain layout is read through the public structs after every operation. The hash printed
 * is the one the C code stored; the operation line carries the hash the generator computed
 * (pure-Python murmur3) and the model places the key by that value, so a disagreement shows.
 *
 * Allocation overlay (linked against libqw.a, see allocwrap.h): `fault k` / `faultfrom k` arm a
 * failure for the NEXT library call; the result of every call that may allocate starts with
 * `allocs=<attempts>`; `live` = blocks the library holds for the container (copies handed to the
 * caller excluded). Copies returned by copying accessors are kept with a private duplicate and
 * re-compared when the container is released (`end`); the caller's key / value buffers are
 * overwritten right after each put. */
#include "common.h"
#include "allocwrap.h"
#include "qlibc.h"
#include <inttypes.h>

/* C12: copies handed out by the library are kept and compared with a private duplicate when the
 * container is released (a retained internal pointer would have been freed or overwritten) */
typedef struct { void *p; void *dup; size_t n; } kept_t;
static kept_t *kept; static size_t nkept, capkept;
static long kept_bad = 0;
static void keep(void *p, size_t n) {
    if (!p) return;
    if (nkept == capkept) { capkept = capkept ? capkept * 2 : 256; kept = realloc(kept, capkept * sizeof(*kept)); }
    kept[nkept].p = p; kept[nkept].n = n; kept[nkept].dup = malloc(n ? n : 1); memcpy(kept[nkept].dup, p, n); nkept++;
    if (nkept > 4096) {      /* bound the memory: release the oldest half after checking it */
        size_t h = nkept / 2;
        for (size_t i = 0; i < h; i++) { if (memcmp(kept[i].p, kept[i].dup, kept[i].n)) kept_bad++; vf_free(kept[i].p); free(kept[i].dup); }
        memmove(kept, kept + h, (nkept - h) * sizeof(*kept)); nkept -= h;
    }
}
static long check_kept(void) {
    long bad = kept_bad;
    for (size_t i = 0; i < nkept; i++) {
        if (memcmp(kept[i].p, kept[i].dup, kept[i].n)) bad++;
        vf_free(kept[i].p); free(kept[i].dup);
    }
    nkept = 0; kept_bad = 0;
    return bad;
}

static qhashtbl_t *T = NULL;
static qhashtbl_obj_t CUR;      /* the caller's cursor struct of getnext */
static bool cur_valid = true;   /* no node was freed since the cursor was last filled */

static void dump(void) {
    printf(" | %zu %zu live=%ld", T->range, T->num, aw_live - (long) nkept);
    for (size_t i = 0; i < T->range; i++) {
        if (T->slots[i] == NULL) continue;
        printf(" %zu:[", i);
        for (qhashtbl_obj_t *o = T->slots[i]; o != NULL; o = o->next) {
            puthex(stdout, o->name, strlen(o->name));
            printf("(%08x)=", o->hash);
            puthex(stdout, o->data, o->size);
            if (o->next) printf(",");
        }
        printf("]");
    }
}

static void show_next(bool r, int e, bool newmem) {
    if (r) {
        printf("true ");
        puthex(stdout, CUR.name, strlen(CUR.name));
        printf("(%08x)=", CUR.hash);
        puthex(stdout, CUR.data, CUR.size);
        /* the copies are kept (C12); the pointers in CUR stay non-NULL: "continue" */
        if (newmem) { keep(CUR.name, strlen(CUR.name) + 1); keep(CUR.data, CUR.size); }
    } else {
        printf("false %s", errname(e));
    }
}

static void put_result(bool r, int e) {
    printf("allocs=%ld ", aw_end());
    if (r) printf("true"); else printf("false %s", errname(e));
}

/* per-operation watchdog: an endless loop inside the library is a dead harness, not a stuck check */
static void on_alarm(int sig) {
    (void) sig;
    static const char msg[] = "TIMEOUT: one operation ran for more than 8 s (endless loop in the library?)\n";
    if (write(2, msg, sizeof(msg) - 1) < 0) { }
    verif_flush_cb(); _exit(96);
}

int main(void) {
    char *line = NULL; size_t cap = 0; ssize_t len;
    harness_init();
    signal(SIGALRM, on_alarm);
    T = qhashtbl(0, 0);
    memset(&CUR, 0, sizeof(CUR));
    while ((len = getline(&line, &cap, stdin)) > 0) {
        char *w[MAXW]; int nw = split_words(line, w);
        if (nw == 0) continue;
        alarm(8);
        const char *op = w[0];
        bytes_t a = {0, 0}, d = {0, 0};
        char *name = NULL;
        /* ops with a key: <op> <namehex> <hash> [<arg>] */
        bool keyed = !strcmp(op, "put") || !strcmp(op, "putstr") || !strcmp(op, "putstrf") || !strcmp(op, "putint") || !strcmp(op, "get")
                  || !strcmp(op, "getstr") || !strcmp(op, "getint") || !strcmp(op, "rm");
        if (keyed) {
            if (nw < 3 || !unhex(w[1], &a)) { printf("bad-op\n"); continue; }
            name = cstr_exact(&a);
        }
        errno = 0;
        if ((!strcmp(op, "fault") || !strcmp(op, "faultfrom")) && nw == 2) {
            /* arm: fail the k-th allocation (or all from the k-th) inside the next library call */
            aw_arm(atol(w[1]), op[5] == 'f');
            printf("ok"); dump(); printf("\n");
            free(a.p); free(d.p); free(name);
            continue;
        }
        if (!strcmp(op, "new") && (nw == 2 || nw == 3)) {
            size_t range = (size_t) strtoull(w[1], NULL, 10);
            int ts = nw == 3 && w[2][0] == '1';
            T->free(T);
            long before = aw_live;
            aw_begin();
            errno = 0;
            T = qhashtbl(range, ts ? QHASHTBL_THREADSAFE : 0);
            int e = errno;
            printf("allocs=%ld ", aw_end());
            if (T == NULL) {
                /* a failed constructor must leave nothing behind; continue with a plain table */
                printf("null %s ctorlive=%ld", errname(e), aw_live - before);
                T = qhashtbl(range, 0);
            } else printf("ok");
            memset(&CUR, 0, sizeof(CUR)); cur_valid = true;
        } else if (!strcmp(op, "put") && nw == 4 && unhex(w[3], &d)) {
            aw_begin();
            bool r = T->put(T, name, d.p, d.n);
            int e = errno;
            memset(name, 0xAA, a.n); memset(d.p, 0xAA, d.n);      /* the caller's buffers are gone (C12) */
            put_result(r, e);
        } else if (!strcmp(op, "putstr") && nw == 4 && unhex(w[3], &d)) {
            char *s = cstr_exact(&d);
            aw_begin();
            bool r = T->putstr(T, name, s);
            int e = errno;
            memset(name, 0xAA, a.n); memset(s, 0xAA, d.n);
            put_result(r, e);
            free(s);
        } else if (!strcmp(op, "putstrf") && nw == 4 && unhex(w[3], &d)) {
            char *s = cstr_exact(&d);
            aw_begin();
            bool r = T->putstrf(T, name, "%s", s);
            int e = errno;
            memset(name, 0xAA, a.n); memset(s, 0xAA, d.n);
            put_result(r, e);
            free(s);
        } else if (!strcmp(op, "putint") && nw == 4) {
            aw_begin();
            bool r = T->putint(T, name, (int64_t) strtoll(w[3], NULL, 10));
            int e = errno;
            memset(name, 0xAA, a.n);
            put_result(r, e);
        } else if (!strcmp(op, "get") && nw == 4) {
            bool newmem = w[3][0] == '1';
            size_t sz = 12345;
            aw_begin();
            void *p = T->get(T, name, &sz, newmem);
            int e = errno;
            printf("allocs=%ld ", aw_end());
            if (p) { printf("data "); puthex(stdout, p, sz); printf(" %zu", sz); if (newmem) keep(p, sz); }
            else printf("null %s", errname(e));
        } else if (!strcmp(op, "getstr") && nw == 3) {
            size_t sz = 0;
            void *p = T->get(T, name, &sz, false);
            if (p && !memchr(p, 0, sz)) printf("nonul");      /* not a C string: the call would over-read */
            else {
                errno = 0;
                aw_begin();
                char *s = T->getstr(T, name, true);
                int e = errno;
                printf("allocs=%ld ", aw_end());
                if (s) { printf("str "); puthex(stdout, s, strlen(s)); keep(s, strlen(s) + 1); }
                else printf("null %s", errname(e));
            }
        } else if (!strcmp(op, "getint") && nw == 3) {
            size_t sz = 0;
            void *p = T->get(T, name, &sz, false);
            if (p && !memchr(p, 0, sz)) printf("nonul");
            else {
                errno = 0;
                aw_begin();
                int64_t v = T->getint(T, name);
                int e = errno;
                printf("allocs=%ld int %" PRId64 "%s", aw_end(), v, e == ENOMEM ? " ENOMEM" : "");
            }
        } else if (!strcmp(op, "rm") && nw == 3) {
            aw_begin();
            bool r = T->remove(T, name);
            int e = errno;
            cur_valid = false;
            printf("allocs=%ld ", aw_end());
            if (r) printf("true"); else printf("false %s", errname(e));
        } else if (!strcmp(op, "size") && nw == 1) {
            printf("size %zu", T->size(T));
        } else if (!strcmp(op, "clear") && nw == 1) {
            T->clear(T);
            cur_valid = false;
            printf("ok");
        } else if (!strcmp(op, "reset") && nw == 1) {
            memset(&CUR, 0, sizeof(CUR)); cur_valid = true;
            printf("ok");
        } else if (!strcmp(op, "next") && nw == 2) {
            if (!cur_valid) printf("skip");
            else {
                bool newmem = w[1][0] == '1';
                aw_begin();
                bool r = T->getnext(T, &CUR, newmem);
                int e = errno;
                printf("allocs=%ld ", aw_end());
                show_next(r, e, newmem);
            }
        } else if (!strcmp(op, "walk") && nw == 2) {
            /* the loop of the property: zeroed cursor, getnext until false (never armed) */
            bool newmem = w[1][0] == '1';
            aw_arm(0, 0);
            memset(&CUR, 0, sizeof(CUR)); cur_valid = true;
            printf("walk");
            size_t guard = T->num + 2;
            while (guard-- > 0) {
                errno = 0;
                bool r = T->getnext(T, &CUR, newmem);
                printf(" ");
                show_next(r, errno, newmem);
                if (!r) break;
            }
        } else if (!strcmp(op, "inv") && nw == 1) {
            /* every call with a documented-invalid argument (NULL name, NULL data, NULL obj) on the
             * CURRENT table: result:errno per call; nothing may change (the dump follows) */
            static const char key[] = "invkey";
            size_t sz = 99; int e[24]; int r[24]; int i = 0;
            aw_arm(0, 0);
            errno = 0; r[i] = T->put(T, NULL, "v", 2); e[i++] = errno;
            errno = 0; r[i] = T->put(T, key, NULL, 2); e[i++] = errno;
            errno = 0; r[i] = T->put(T, NULL, NULL, 0); e[i++] = errno;
            errno = 0; r[i] = T->putstr(T, NULL, "v"); e[i++] = errno;
            errno = 0; r[i] = T->putstr(T, key, NULL); e[i++] = errno;
            errno = 0; r[i] = T->putstrf(T, NULL, "%s", "v"); e[i++] = errno;
            errno = 0; r[i] = T->putint(T, NULL, 7); e[i++] = errno;
            errno = 0; r[i] = T->get(T, NULL, &sz, false) != NULL; e[i++] = errno;
            errno = 0; r[i] = T->get(T, NULL, &sz, true) != NULL; e[i++] = errno;
            errno = 0; r[i] = T->get(T, NULL, NULL, true) != NULL; e[i++] = errno;
            errno = 0; r[i] = T->getstr(T, NULL, false) != NULL; e[i++] = errno;
            errno = 0; r[i] = T->getstr(T, NULL, true) != NULL; e[i++] = errno;
            errno = 0; r[i] = T->getint(T, NULL) != 0; e[i++] = errno;
            errno = 0; r[i] = T->remove(T, NULL); e[i++] = errno;
            errno = 0; r[i] = T->getnext(T, NULL, false); e[i++] = errno;
            errno = 0; r[i] = T->getnext(T, NULL, true); e[i++] = errno;
            errno = 0; r[i] = T->debug(T, NULL); e[i++] = errno;          /* documented: EIO */
            printf("inv");
            for (int j = 0; j < i; j++) printf(" %d:%s", r[j], e[j] == EIO ? "EIO" : errname(e[j]));
            printf(" sz=%zu", sz);
        } else if (!strcmp(op, "lock") && nw == 1) {
            /* the lock / unlock / size methods through the method pointers; with QHASHTBL_THREADSAFE the
             * mutex is recursive: the methods called inside keep working */
            T->lock(T);
            T->lock(T);                       /* nested: balanced below */
            size_t n1 = T->size(T);
            T->unlock(T);
            T->unlock(T);
            printf("locked size %zu", n1);
        } else if (!strcmp(op, "end") && nw == 1) {
            /* C11: once the container is released every block it allocated is freed;
             * C12: the copies handed out must have survived everything including the release */
            T->free(T);
            long bad = check_kept();
            printf("end live=%ld bad=%ld", aw_live, bad);
            T = qhashtbl(0, 0);
            memset(&CUR, 0, sizeof(CUR)); cur_valid = true;
        } else {
            printf("bad-op");
        }
        aw_arm(0, 0);       /* an armed failure never outlives the operation it was meant for */
        dump();
        printf("\n");
        free(a.p); free(d.p); free(name);
    }
    T->free(T);
    check_kept(); free(kept);
    free(line);
    return 0;
}

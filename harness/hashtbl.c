/* Correspondence harness for src/containers/qhashtbl.c (property C05).
 * One operation per input line, one result line per operation (see Driver/HashTbl.lean):
 *   <api result> | <range> <num> <slot>:[name(hash)=data,...] ...        (non-empty slots only)
 * The chain layout is read through the public structs after every operation. The hash printed
 * is the one the C code stored; the operation line carries the hash the generator computed
 * (pure-Python murmur3) and the model places the key by that value, so a disagreement shows. */
#include "common.h"
#include "qlibc.h"
#include <inttypes.h>

static qhashtbl_t *T = NULL;
static qhashtbl_obj_t CUR;      /* the caller's cursor struct of getnext */
static bool cur_valid = true;   /* no node was freed since the cursor was last filled */

static void dump(void) {
    printf(" | %zu %zu", T->range, T->num);
    for (size_t i = 0; i < T->range; i++) {
        if (T->slots[i] == NULL) continue;
        printf(" %zu:[", i);
        for (qhashtbl_obj_t *o = T->slots[i]; o != NULL; o = o->next) {
            puthex(stdout, o->name, strlen(o->name));
            printf("(%08x)=", o->hash);
            puthex(stdout, o->data, o->size);
            if (o->next) printf(",");
        }
        printf("]");
    }
}

static void show_next(bool r, int e, bool newmem) {
    if (r) {
        printf("true ");
        puthex(stdout, CUR.name, strlen(CUR.name));
        printf("(%08x)=", CUR.hash);
        puthex(stdout, CUR.data, CUR.size);
        if (newmem) { free(CUR.name); free(CUR.data); }   /* pointers stay non-NULL: "continue" */
    } else {
        printf("false %s", errname(e));
    }
}

int main(void) {
    char *line = NULL; size_t cap = 0; ssize_t len;
    setvbuf(stdout, NULL, _IOFBF, 1 << 16);
    T = qhashtbl(0, 0);
    memset(&CUR, 0, sizeof(CUR));
    while ((len = getline(&line, &cap, stdin)) > 0) {
        char *w[MAXW]; int nw = split_words(line, w);
        if (nw == 0) continue;
        const char *op = w[0];
        bytes_t a = {0, 0}, d = {0, 0};
        char *name = NULL;
        /* ops with a key: <op> <namehex> <hash> [<arg>] */
        bool keyed = !strcmp(op, "put") || !strcmp(op, "putstr") || !strcmp(op, "putint") || !strcmp(op, "get")
                  || !strcmp(op, "getstr") || !strcmp(op, "getint") || !strcmp(op, "rm");
        if (keyed) {
            if (nw < 3 || !unhex(w[1], &a)) { printf("bad-op\n"); continue; }
            name = cstr_exact(&a);
        }
        errno = 0;
        if (!strcmp(op, "new") && nw == 2) {
            T->free(T);
            T = qhashtbl((size_t) strtoull(w[1], NULL, 10), 0);
            memset(&CUR, 0, sizeof(CUR)); cur_valid = true;
            printf("ok");
        } else if (!strcmp(op, "put") && nw == 4 && unhex(w[3], &d)) {
            bool r = T->put(T, name, d.p, d.n);
            printf(r ? "true" : "false %s", errname(errno));
        } else if (!strcmp(op, "putstr") && nw == 4 && unhex(w[3], &d)) {
            char *s = cstr_exact(&d);
            bool r = T->putstr(T, name, s);
            printf(r ? "true" : "false %s", errname(errno));
            free(s);
        } else if (!strcmp(op, "putint") && nw == 4) {
            bool r = T->putint(T, name, (int64_t) strtoll(w[3], NULL, 10));
            printf(r ? "true" : "false %s", errname(errno));
        } else if (!strcmp(op, "get") && nw == 4) {
            bool newmem = w[3][0] == '1';
            size_t sz = 12345;
            void *p = T->get(T, name, &sz, newmem);
            if (p) { printf("data "); puthex(stdout, p, sz); printf(" %zu", sz); if (newmem) free(p); }
            else printf("null %s", errname(errno));
        } else if (!strcmp(op, "getstr") && nw == 3) {
            size_t sz = 0;
            void *p = T->get(T, name, &sz, false);
            if (p && !memchr(p, 0, sz)) printf("nonul");      /* not a C string: the call would over-read */
            else {
                errno = 0;
                char *s = T->getstr(T, name, true);
                if (s) { printf("str "); puthex(stdout, s, strlen(s)); free(s); }
                else printf("null %s", errname(errno));
            }
        } else if (!strcmp(op, "getint") && nw == 3) {
            size_t sz = 0;
            void *p = T->get(T, name, &sz, false);
            if (p && !memchr(p, 0, sz)) printf("nonul");
            else printf("int %" PRId64, T->getint(T, name));
        } else if (!strcmp(op, "rm") && nw == 3) {
            bool r = T->remove(T, name);
            cur_valid = false;
            printf(r ? "true" : "false %s", errname(errno));
        } else if (!strcmp(op, "size") && nw == 1) {
            printf("size %zu", T->size(T));
        } else if (!strcmp(op, "clear") && nw == 1) {
            T->clear(T);
            cur_valid = false;
            printf("ok");
        } else if (!strcmp(op, "reset") && nw == 1) {
            memset(&CUR, 0, sizeof(CUR)); cur_valid = true;
            printf("ok");
        } else if (!strcmp(op, "next") && nw == 2) {
            if (!cur_valid) printf("skip");
            else {
                bool newmem = w[1][0] == '1';
                bool r = T->getnext(T, &CUR, newmem);
                show_next(r, errno, newmem);
            }
        } else if (!strcmp(op, "walk") && nw == 2) {
            /* the loop of the property: zeroed cursor, getnext until false */
            bool newmem = w[1][0] == '1';
            memset(&CUR, 0, sizeof(CUR)); cur_valid = true;
            printf("walk");
            size_t guard = T->num + 2;
            while (guard-- > 0) {
                errno = 0;
                bool r = T->getnext(T, &CUR, newmem);
                printf(" ");
                show_next(r, errno, newmem);
                if (!r) break;
            }
        } else {
            printf("bad-op");
        }
        dump();
        printf("\n");
        free(a.p); free(d.p); free(name);
    }
    T->free(T);
    free(line);
    return 0;
}

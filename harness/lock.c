/* C14 correspondence/search harness: calls every public function of every lockable container
 * (created thread-safe) once per input line, in a freshly built container state, optionally with
 * the k-th allocation inside the call failing, and reports the balance of successful
 * pthread_mutex_trylock/lock vs pthread_mutex_unlock calls made during the call, the event trace,
 * and whether a second thread can enter and leave the container afterwards.
 *
 * Linked with -Wl,--wrap= pthread_mutex_trylock, pthread_mutex_unlock, pthread_mutex_lock, malloc,
 * calloc, realloc, strdup.
 *
 * line:   <kind> name=value ...      kind = vector|list|queue|stack|grow|hashtbl|listtbl|treetbl|log
 *         n=<elements> opt=<option bits> max=<list limit> range=<hash range> fn=<function>
 *         idx=<int> key=<hex|NULL> val=<hex|NULL|-> flag=<0|1> cur=<NULL|0|1|end> k=<fault position>
 * result: ret=<class> errno=<name> lockdelta=<d> allocs=<m> fired=<0|1> trace=<L/U string|-> probe=<ok|blocked|na>
 */
#include "common.h"
#include <sys/resource.h>
#include <signal.h>
#include <pthread.h>
#include <setjmp.h>
#include <signal.h>
#include <stdarg.h>
#include <sys/time.h>
#include "qlibc.h"
#include "qlibcext.h"

/* ------------------------------------------------------------------ wraps */
static volatile int in_call;              /* events/allocations are attributed to the call under test */
static pthread_t main_thread;
static char trace[8192];
static int ntrace, lockdelta;
static long alloc_count, fault_at;
static int fired;
static __thread int t_probe, t_probe_fail;
static volatile int probe_blocked;

int __real_pthread_mutex_trylock(pthread_mutex_t *m);
int __real_pthread_mutex_lock(pthread_mutex_t *m);
int __real_pthread_mutex_unlock(pthread_mutex_t *m);
void *__real_malloc(size_t n);
void *__real_calloc(size_t a, size_t b);
void *__real_realloc(void *p, size_t n);
char *__real_strdup(const char *s);

static void ev(char c, int d) {
    if (in_call && pthread_equal(pthread_self(), main_thread)) {
        if (ntrace < (int) sizeof(trace) - 1) trace[ntrace++] = c;
        lockdelta += d;
    }
}

int __wrap_pthread_mutex_trylock(pthread_mutex_t *m) {
    int r = __real_pthread_mutex_trylock(m);
    if (r == 0) ev('L', +1);
    else if (t_probe && ++t_probe_fail > 50) { probe_blocked = 1; pthread_exit(NULL); }
    return r;
}
int __wrap_pthread_mutex_lock(pthread_mutex_t *m) {
    int r = __real_pthread_mutex_lock(m);
    if (r == 0) ev('L', +1);
    return r;
}
int __wrap_pthread_mutex_unlock(pthread_mutex_t *m) {
    int r = __real_pthread_mutex_unlock(m);
    if (r == 0) ev('U', -1);
    return r;
}

static int fail_now(void) {
    if (!in_call || !pthread_equal(pthread_self(), main_thread)) return 0;
    alloc_count++;
    if (fault_at && alloc_count == fault_at) { fired = 1; errno = ENOMEM; return 1; }
    return 0;
}
void *__wrap_malloc(size_t n) { return fail_now() ? NULL : __real_malloc(n); }
void *__wrap_calloc(size_t a, size_t b) { return fail_now() ? NULL : __real_calloc(a, b); }
void *__wrap_realloc(void *p, size_t n) { return fail_now() ? NULL : __real_realloc(p, n); }
char *__wrap_strdup(const char *s) { return fail_now() ? NULL : __real_strdup(s); }

/* ------------------------------------------------------------------ crash / hang containment */
static sigjmp_buf jb;
static volatile int jb_armed;
static void on_signal(int sig) {
    if (jb_armed) siglongjmp(jb, sig);
    _exit(70);
}

/* ------------------------------------------------------------------ arguments */
typedef struct {
    const char *kind, *fn, *cur;
    int n, opt, max, range, idx, flag;
    long k;
    bytes_t key, val;
    bool key_null, val_null;
} args_t;

static char *keystr;     /* NUL-terminated copy of key (or NULL) */
static FILE *devnull;
static char tmppath[256], tmppath2[256];

static void elem(int i, char *buf) { snprintf(buf, 16, "v%06d", i); buf[7] = 'x'; buf[8] = 0; } /* 8 chars + NUL */
static void kname(int i, char *buf) { snprintf(buf, 16, "k%02d", i); }

/* result reporting */
static char retbuf[128];
static void setret(const char *fmt, ...) {
    va_list ap; va_start(ap, fmt); vsnprintf(retbuf, sizeof(retbuf), fmt, ap); va_end(ap);
}
static int call_errno;
#define END()  do { call_errno = errno; in_call = 0; } while (0)
#define RB(x)  do { bool _b = (x); END(); setret(_b ? "true" : "false"); } while (0)
#define RP(x, dofree) do { void *_p = (void *) (x); END(); setret(_p ? "ptr" : "null"); if (_p && (dofree)) free(_p); } while (0)
#define RI(x)  do { long long _v = (long long) (x); END(); setret("int:%lld", _v); } while (0)
#define RV(x)  do { x; END(); setret("void"); } while (0)
#define BEGIN() do { ntrace = 0; lockdelta = 0; alloc_count = 0; fired = 0; fault_at = A->k; errno = 0; in_call = 1; } while (0)
#define FN(s) (!strcmp(A->fn, s))

/* the probe: a second thread enters and leaves the container */
typedef void (*probe_fn)(void *);
static probe_fn the_probe; static void *the_probe_arg;
static void *probe_main(void *p) {
    (void) p;
    t_probe = 1; t_probe_fail = 0;
    the_probe(the_probe_arg);
    return NULL;
}
static const char *run_probe(probe_fn f, void *arg) {
    if (f == NULL) return "na";
    pthread_t th;
    probe_blocked = 0; the_probe = f; the_probe_arg = arg;
    pthread_create(&th, NULL, probe_main, NULL);
    pthread_join(th, NULL);
    return probe_blocked ? "blocked" : "ok";
}

static void p_vector(void *c) { qvector_t *v = c; v->lock(v); v->unlock(v); }
static void p_list(void *c) { qlist_t *v = c; v->lock(v); v->unlock(v); }
static void p_hashtbl(void *c) { qhashtbl_t *v = c; v->lock(v); v->unlock(v); }
static void p_listtbl(void *c) { qlisttbl_t *v = c; v->lock(v); v->unlock(v); }
static void p_treetbl(void *c) { qtreetbl_t *v = c; v->lock(v); v->unlock(v); }
static void p_log(void *c) { qlog_t *v = c; v->flush(v); }

static int rev_cmp(const void *a, size_t an, const void *b, size_t bn) { return -qtreetbl_byte_cmp(a, an, b, bn); }

/* ------------------------------------------------------------------ one operation */
static const char *probe_result;
static bool freed;            /* the call under test destroyed the container */

static void do_vector(args_t *A) {
    if (FN("new")) {
        BEGIN(); qvector_t *v = qvector(A->max, 4, A->opt | QVECTOR_THREADSAFE); END();
        setret(v ? "ptr" : "null"); if (v) v->free(v); probe_result = "na"; return;
    }
    qvector_t *v = qvector(A->max, 4, A->opt | QVECTOR_THREADSAFE);
    for (int i = 0; i < A->n; i++) { int32_t x = 100 + i; v->addlast(v, &x); }
    const void *data = A->val_null ? NULL : A->val.p;
    size_t sz = 0;
    qvector_obj_t cur; memset(&cur, 0, sizeof(cur));
    if (FN("getnext") && A->cur && !strcmp(A->cur, "1")) v->getnext(v, &cur, false);
    if (FN("getnext") && A->cur && !strcmp(A->cur, "end")) while (v->getnext(v, &cur, false));
    BEGIN();
    if (FN("addfirst")) RB(v->addfirst(v, data));
    else if (FN("addlast")) RB(v->addlast(v, data));
    else if (FN("addat")) RB(v->addat(v, A->idx, data));
    else if (FN("getfirst")) RP(v->getfirst(v, A->flag), A->flag);
    else if (FN("getlast")) RP(v->getlast(v, A->flag), A->flag);
    else if (FN("getat")) RP(v->getat(v, A->idx, A->flag), A->flag);
    else if (FN("setfirst")) RB(v->setfirst(v, data));
    else if (FN("setlast")) RB(v->setlast(v, data));
    else if (FN("setat")) RB(v->setat(v, A->idx, data));
    else if (FN("popfirst")) RP(v->popfirst(v), 1);
    else if (FN("poplast")) RP(v->poplast(v), 1);
    else if (FN("popat")) RP(v->popat(v, A->idx), 1);
    else if (FN("removefirst")) RB(v->removefirst(v));
    else if (FN("removelast")) RB(v->removelast(v));
    else if (FN("removeat")) RB(v->removeat(v, A->idx));
    else if (FN("size")) RI(v->size(v));
    else if (FN("resize")) RB(v->resize(v, (size_t) A->idx));
    else if (FN("toarray")) RP(v->toarray(v, A->flag ? &sz : NULL), 1);
    else if (FN("clear")) RV(v->clear(v));
    else if (FN("debug")) RB(v->debug(v, A->flag ? devnull : NULL));
    else if (FN("reverse")) RV(v->reverse(v));
    else if (FN("getnext")) { bool nm = A->flag; RB(v->getnext(v, (A->cur && !strcmp(A->cur, "NULL")) ? NULL : &cur, nm)); if (nm && cur.data && !strcmp(retbuf, "true")) free(cur.data); }
    else if (FN("lockunlock")) RV((v->lock(v), v->unlock(v)));
    else if (FN("free")) { RV(v->free(v)); freed = true; }
    else { END(); setret("bad-fn"); }
    if (freed) { probe_result = "na"; return; }
    probe_result = run_probe(p_vector, v);
    for (int i = 0; i < lockdelta; i++) v->unlock(v);
    v->free(v);
}

static qlist_t *mk_list(args_t *A) {
    qlist_t *l = qlist(QLIST_THREADSAFE);
    char b[16];
    for (int i = 0; i < A->n; i++) { elem(i, b); l->addlast(l, b, 9); }
    if (A->max) l->setsize(l, A->max);
    return l;
}

static void do_list(args_t *A) {
    if (FN("new")) {
        BEGIN(); qlist_t *l = qlist(QLIST_THREADSAFE); END();
        setret(l ? "ptr" : "null"); if (l) l->free(l); probe_result = "na"; return;
    }
    qlist_t *l = mk_list(A);
    const void *data = A->val_null ? NULL : A->val.p;
    size_t dsz = A->val_null ? 4 : A->val.n;
    size_t sz = 0; size_t *psz = A->flag ? &sz : NULL;
    qlist_obj_t cur; memset(&cur, 0, sizeof(cur));
    if (FN("getnext") && A->cur && !strcmp(A->cur, "1")) l->getnext(l, &cur, false);
    if (FN("getnext") && A->cur && !strcmp(A->cur, "end")) while (l->getnext(l, &cur, false));
    BEGIN();
    if (FN("setsize")) RI(l->setsize(l, (size_t) A->idx));
    else if (FN("addfirst")) RB(l->addfirst(l, data, dsz));
    else if (FN("addlast")) RB(l->addlast(l, data, dsz));
    else if (FN("addat")) RB(l->addat(l, A->idx, data, dsz));
    else if (FN("getfirst")) RP(l->getfirst(l, psz, A->flag), A->flag);
    else if (FN("getlast")) RP(l->getlast(l, psz, A->flag), A->flag);
    else if (FN("getat")) RP(l->getat(l, A->idx, psz, A->flag), A->flag);
    else if (FN("popfirst")) RP(l->popfirst(l, psz), 1);
    else if (FN("poplast")) RP(l->poplast(l, psz), 1);
    else if (FN("popat")) RP(l->popat(l, A->idx, psz), 1);
    else if (FN("removefirst")) RB(l->removefirst(l));
    else if (FN("removelast")) RB(l->removelast(l));
    else if (FN("removeat")) RB(l->removeat(l, A->idx));
    else if (FN("getnext")) { bool nm = A->flag; RB(l->getnext(l, (A->cur && !strcmp(A->cur, "NULL")) ? NULL : &cur, nm)); if (nm && !strcmp(retbuf, "true")) free(cur.data); }
    else if (FN("reverse")) RV(l->reverse(l));
    else if (FN("clear")) RV(l->clear(l));
    else if (FN("size")) RI(l->size(l));
    else if (FN("datasize")) RI(l->datasize(l));
    else if (FN("toarray")) RP(l->toarray(l, psz), 1);
    else if (FN("tostring")) RP(l->tostring(l), 1);
    else if (FN("debug")) RB(l->debug(l, A->flag ? devnull : NULL));
    else if (FN("lockunlock")) RV((l->lock(l), l->unlock(l)));
    else if (FN("free")) { RV(l->free(l)); freed = true; }
    else { END(); setret("bad-fn"); }
    if (freed) { probe_result = "na"; return; }
    probe_result = run_probe(p_list, l);
    for (int i = 0; i < lockdelta; i++) l->unlock(l);
    l->free(l);
}

/* queue and stack have the same interface */
#define DO_QS(T, ctor, TS)                                                                       \
static void do_##ctor(args_t *A) {                                                               \
    if (FN("new")) {                                                                             \
        BEGIN(); T *q = ctor(TS); END();                                                   \
        setret(q ? "ptr" : "null"); if (q) q->free(q); probe_result = "na"; return;              \
    }                                                                                            \
    T *q = ctor(TS);                                                                             \
    char b[16];                                                                                  \
    for (int i = 0; i < A->n; i++) { elem(i, b); q->push(q, b, 9); }                             \
    if (A->max) q->setsize(q, A->max);                                                           \
    const void *data = A->val_null ? NULL : A->val.p;                                            \
    size_t dsz = A->val_null ? 4 : A->val.n;                                                     \
    size_t sz = 0; size_t *psz = A->flag ? &sz : NULL;                                           \
    BEGIN();                                                                                     \
    if (FN("setsize")) RI(q->setsize(q, (size_t) A->idx));                                       \
    else if (FN("push")) RB(q->push(q, data, dsz));                                              \
    else if (FN("pushstr")) RB(q->pushstr(q, keystr));                                           \
    else if (FN("pushint")) RB(q->pushint(q, A->idx));                                           \
    else if (FN("pop")) RP(q->pop(q, psz), 1);                                                   \
    else if (FN("popstr")) RP(q->popstr(q), 1);                                                  \
    else if (FN("popint")) RI(q->popint(q));                                                     \
    else if (FN("popat")) RP(q->popat(q, A->idx, psz), 1);                                       \
    else if (FN("get")) RP(q->get(q, psz, A->flag), A->flag);                                    \
    else if (FN("getstr")) RP(q->getstr(q), 1);                                                  \
    else if (FN("getint")) RI(q->getint(q));                                                     \
    else if (FN("getat")) RP(q->getat(q, A->idx, psz, A->flag), A->flag);                        \
    else if (FN("size")) RI(q->size(q));                                                         \
    else if (FN("clear")) RV(q->clear(q));                                                       \
    else if (FN("debug")) RB(q->debug(q, A->flag ? devnull : NULL));                             \
    else if (FN("free")) { RV(q->free(q)); freed = true; }                                       \
    else { END(); setret("bad-fn"); }                                                      \
    if (freed) { probe_result = "na"; return; }                                                  \
    probe_result = run_probe(p_list, q->list);                                                   \
    for (int i = 0; i < lockdelta; i++) q->list->unlock(q->list);                                \
    q->free(q);                                                                                  \
}
DO_QS(qqueue_t, qqueue, QQUEUE_THREADSAFE)
DO_QS(qstack_t, qstack, QSTACK_THREADSAFE)

static void do_grow(args_t *A) {
    if (FN("new")) {
        BEGIN(); qgrow_t *g = qgrow(QGROW_THREADSAFE); END();
        setret(g ? "ptr" : "null"); if (g) g->free(g); probe_result = "na"; return;
    }
    qgrow_t *g = qgrow(QGROW_THREADSAFE);
    char b[16];
    for (int i = 0; i < A->n; i++) { elem(i, b); g->add(g, b, 9); }
    const void *data = A->val_null ? NULL : A->val.p;
    size_t dsz = A->val_null ? 4 : A->val.n;
    size_t sz = 0; size_t *psz = A->flag ? &sz : NULL;
    BEGIN();
    if (FN("add")) RB(g->add(g, data, dsz));
    else if (FN("addstr")) RB(g->addstr(g, keystr));
    else if (FN("addstrf")) RB(g->addstrf(g, "%s-%d", keystr ? keystr : "(null)", A->idx));
    else if (FN("size")) RI(g->size(g));
    else if (FN("datasize")) RI(g->datasize(g));
    else if (FN("toarray")) RP(g->toarray(g, psz), 1);
    else if (FN("tostring")) RP(g->tostring(g), 1);
    else if (FN("clear")) RV(g->clear(g));
    else if (FN("debug")) RB(g->debug(g, A->flag ? devnull : NULL));
    else if (FN("free")) { RV(g->free(g)); freed = true; }
    else { END(); setret("bad-fn"); }
    if (freed) { probe_result = "na"; return; }
    probe_result = run_probe(p_list, g->list);
    for (int i = 0; i < lockdelta; i++) g->list->unlock(g->list);
    g->free(g);
}

static void do_hashtbl(args_t *A) {
    if (FN("new")) {
        BEGIN(); qhashtbl_t *t = qhashtbl(A->range, QHASHTBL_THREADSAFE); END();
        setret(t ? "ptr" : "null"); if (t) t->free(t); probe_result = "na"; return;
    }
    qhashtbl_t *t = qhashtbl(A->range, QHASHTBL_THREADSAFE);
    char kb[16], vb[16];
    for (int i = 0; i < A->n; i++) { kname(i, kb); elem(i, vb); t->put(t, kb, vb, 9); }
    const void *data = A->val_null ? NULL : A->val.p;
    size_t dsz = A->val_null ? 4 : A->val.n;
    size_t sz = 0; size_t *psz = A->flag ? &sz : NULL;
    qhashtbl_obj_t cur; memset(&cur, 0, sizeof(cur));
    if (FN("getnext") && A->cur && !strcmp(A->cur, "1")) t->getnext(t, &cur, false);
    if (FN("getnext") && A->cur && !strcmp(A->cur, "end")) while (t->getnext(t, &cur, false));
    BEGIN();
    if (FN("put")) RB(t->put(t, keystr, data, dsz));
    else if (FN("putstr")) RB(t->putstr(t, keystr, A->val_null ? NULL : "str"));
    else if (FN("putstrf")) RB(t->putstrf(t, keystr, "%s-%d", "str", A->idx));
    else if (FN("putint")) RB(t->putint(t, keystr, A->idx));
    else if (FN("get")) RP(t->get(t, keystr, psz, A->flag), A->flag);
    else if (FN("getstr")) RP(t->getstr(t, keystr, A->flag), A->flag);
    else if (FN("getint")) RI(t->getint(t, keystr));
    else if (FN("remove")) RB(t->remove(t, keystr));
    else if (FN("getnext")) { bool nm = A->flag; RB(t->getnext(t, (A->cur && !strcmp(A->cur, "NULL")) ? NULL : &cur, nm)); if (nm && !strcmp(retbuf, "true")) { free(cur.name); free(cur.data); } }
    else if (FN("size")) RI(t->size(t));
    else if (FN("clear")) RV(t->clear(t));
    else if (FN("debug")) RB(t->debug(t, A->flag ? devnull : NULL));
    else if (FN("lockunlock")) RV((t->lock(t), t->unlock(t)));
    else if (FN("free")) { RV(t->free(t)); freed = true; }
    else { END(); setret("bad-fn"); }
    if (freed) { probe_result = "na"; return; }
    probe_result = run_probe(p_hashtbl, t);
    for (int i = 0; i < lockdelta; i++) t->unlock(t);
    t->free(t);
}

static void do_listtbl(args_t *A) {
    if (FN("new")) {
        BEGIN(); qlisttbl_t *t = qlisttbl(A->opt | QLISTTBL_THREADSAFE); END();
        setret(t ? "ptr" : "null"); if (t) t->free(t); probe_result = "na"; return;
    }
    qlisttbl_t *t = qlisttbl(A->opt | QLISTTBL_THREADSAFE);
    char kb[16], vb[16];
    /* n elements; every third key is stored twice (multimap) unless the table is unique */
    for (int i = 0; i < A->n; i++) { kname(i, kb); elem(i, vb); t->put(t, kb, vb, 9); if (i % 3 == 0) t->put(t, kb, vb, 9); }
    const void *data = A->val_null ? NULL : A->val.p;
    size_t dsz = A->val_null ? 4 : A->val.n;
    size_t sz = 0; size_t *psz = A->flag ? &sz : NULL;
    qlisttbl_obj_t cur; memset(&cur, 0, sizeof(cur));
    bool cur_null = A->cur && !strcmp(A->cur, "NULL");
    if ((FN("getnext") || FN("removeobj")) && A->cur && !strcmp(A->cur, "1")) t->getnext(t, &cur, NULL, false);
    if (FN("getnext") && A->cur && !strcmp(A->cur, "end")) while (t->getnext(t, &cur, NULL, false));
    if (FN("load")) {
        /* a table file with two entries, written by the library itself outside the measured call */
        qlisttbl_t *s = qlisttbl(0); s->putstr(s, "la", "1"); s->putstr(s, "lb", "2"); s->save(s, tmppath2, '=', true); s->free(s);
    }
    /* save with idx >= 3: the file may only grow to (length of the header line) + idx - 4 bytes (RLIMIT_FSIZE with
     * SIGXFSZ ignored: write() then comes back short, after that it fails with EFBIG) - the header goes out, a
     * data line does not, or only in part: the failure exit INSIDE the locked loop (seed C14-m9) */
    struct rlimit fs_old; bool fs_limited = false;
    if (FN("save") && A->idx >= 3) {
        size_t hdr = 0;
        if (t->save(t, tmppath, '=', A->flag)) {
            FILE *fp = fopen(tmppath, "r"); int c;
            if (fp) { while ((c = fgetc(fp)) != EOF) { hdr++; if (c == '\n') break; } fclose(fp); }
        }
        getrlimit(RLIMIT_FSIZE, &fs_old);
        struct rlimit lim = fs_old; lim.rlim_cur = hdr + (size_t) A->idx - 4 > 0 && hdr ? hdr + A->idx - 4 : 1;
        signal(SIGXFSZ, SIG_IGN);
        fs_limited = setrlimit(RLIMIT_FSIZE, &lim) == 0;
    }
    BEGIN();
    if (FN("put")) RB(t->put(t, keystr, data, dsz));
    else if (FN("putstr")) RB(t->putstr(t, keystr, A->val_null ? NULL : "str"));
    else if (FN("putstrf")) RB(t->putstrf(t, keystr, "%s-%d", "str", A->idx));
    else if (FN("putint")) RB(t->putint(t, keystr, A->idx));
    else if (FN("get")) RP(t->get(t, keystr, psz, A->flag), A->flag);
    else if (FN("getstr")) RP(t->getstr(t, keystr, A->flag), A->flag);
    else if (FN("getint")) RI(t->getint(t, keystr));
    else if (FN("getmulti")) { qlisttbl_data_t *m = t->getmulti(t, keystr, A->flag, psz); END(); setret(m ? "ptr" : "null"); if (m) t->freemulti(m); }
    else if (FN("freemulti")) RV(t->freemulti(NULL));
    else if (FN("remove")) RI(t->remove(t, keystr));
    else if (FN("removeobj")) RB(t->removeobj(t, cur_null ? NULL : &cur));
    else if (FN("getnext")) { bool nm = A->flag; RB(t->getnext(t, cur_null ? NULL : &cur, keystr, nm)); if (nm && !strcmp(retbuf, "true")) { free(cur.name); free(cur.data); } }
    else if (FN("namematch")) RB(t->first && keystr ? t->namematch(t->first, keystr, qhashmurmur3_32(keystr, strlen(keystr))) : false);
    else if (FN("size")) RI(t->size(t));
    else if (FN("sort")) RV(t->sort(t));
    else if (FN("clear")) RV(t->clear(t));
    else if (FN("save")) { RB(t->save(t, A->idx == 0 ? NULL : (A->idx == 1 || A->idx >= 3 ? tmppath : "/nonexistent-dir/x"), '=', A->flag));
                           if (fs_limited) setrlimit(RLIMIT_FSIZE, &fs_old); }
    else if (FN("load")) RI(t->load(t, A->idx == 1 ? tmppath2 : "/nonexistent-dir/x", '=', A->flag));
    else if (FN("debug")) RB(t->debug(t, A->flag ? devnull : NULL));
    else if (FN("lockunlock")) RV((t->lock(t), t->unlock(t)));
    else if (FN("free")) { RV(t->free(t)); freed = true; }
    else { END(); setret("bad-fn"); }
    if (freed) { probe_result = "na"; return; }
    probe_result = run_probe(p_listtbl, t);
    for (int i = 0; i < lockdelta; i++) t->unlock(t);
    t->free(t);
}

static void do_treetbl(args_t *A) {
    if (FN("new")) {
        BEGIN(); qtreetbl_t *t = qtreetbl(QTREETBL_THREADSAFE); END();
        setret(t ? "ptr" : "null"); if (t) t->free(t); probe_result = "na"; return;
    }
    if (FN("byte_cmp")) {
        BEGIN(); RI(qtreetbl_byte_cmp("ab", 2, keystr ? keystr : "", keystr ? strlen(keystr) : 0)); probe_result = "na"; return;
    }
    qtreetbl_t *t = qtreetbl(QTREETBL_THREADSAFE);
    char kb[16], vb[16];
    /* insertion order 0, n-1, 1, n-2, ... so that rotations happen */
    for (int i = 0; i < A->n; i++) { int j = (i % 2 == 0) ? i / 2 : A->n - 1 - i / 2; kname(j, kb); elem(j, vb); t->put(t, kb, vb, 9); }
    const void *data = A->val_null ? NULL : A->val.p;
    size_t dsz = A->val_null ? 0 : A->val.n;
    size_t sz = 0; size_t *psz = A->flag ? &sz : NULL;
    size_t ksz = keystr ? strlen(keystr) + 1 : 0;
    qtreetbl_obj_t cur; memset(&cur, 0, sizeof(cur));
    if (FN("getnext") && A->cur && !strcmp(A->cur, "1")) t->getnext(t, &cur, false);
    if (FN("getnext") && A->cur && !strcmp(A->cur, "end")) while (t->getnext(t, &cur, false));
    BEGIN();
    if (FN("set_compare")) RV(t->set_compare(t, A->idx == 0 ? NULL : (A->idx == 1 ? rev_cmp : qtreetbl_byte_cmp)));
    else if (FN("put")) RB(t->put(t, keystr, data, dsz));
    else if (FN("putstr")) RB(t->putstr(t, keystr, A->val_null ? NULL : "str"));
    else if (FN("putstrf")) RB(t->putstrf(t, keystr, "%s-%d", "str", A->idx));
    else if (FN("putobj")) RB(t->putobj(t, keystr, A->idx < 0 ? 0 : ksz, data, dsz));
    else if (FN("get")) RP(t->get(t, keystr, psz, A->flag), A->flag);
    else if (FN("getstr")) RP(t->getstr(t, keystr, A->flag), A->flag);
    else if (FN("getobj")) RP(t->getobj(t, keystr, A->idx < 0 ? 0 : ksz, psz, A->flag), A->flag);
    else if (FN("remove")) RB(t->remove(t, keystr));
    else if (FN("removeobj")) RB(t->removeobj(t, keystr, ksz));
    else if (FN("getnext")) { bool nm = A->flag; RB(t->getnext(t, (A->cur && !strcmp(A->cur, "NULL")) ? NULL : &cur, nm)); if (nm && !strcmp(retbuf, "true")) { free(cur.name); free(cur.data); } }
    else if (FN("find_min")) RP(t->find_min(t, psz), 1);
    else if (FN("find_max")) RP(t->find_max(t, psz), 1);
    else if (FN("find_nearest")) { qtreetbl_obj_t o = t->find_nearest(t, keystr, A->idx < 0 ? 0 : ksz, A->flag); END(); setret(o.name ? "ptr" : "null"); if (A->flag) { free(o.name); free(o.data); } }
    else if (FN("size")) RI(t->size(t));
    else if (FN("clear")) RV(t->clear(t));
    else if (FN("debug")) RB(t->debug(t, A->flag ? devnull : NULL));
    else if (FN("check")) RI(qtreetbl_check(A->flag ? t : NULL));
    else if (FN("lockunlock")) RV((t->lock(t), t->unlock(t)));
    else if (FN("free")) { RV(t->free(t)); freed = true; }
    else { END(); setret("bad-fn"); }
    if (freed) { probe_result = "na"; return; }
    probe_result = run_probe(p_treetbl, t);
    for (int i = 0; i < lockdelta; i++) t->unlock(t);
    t->free(t);
}

static void do_log(args_t *A) {
    if (FN("new")) {
        BEGIN(); qlog_t *g = qlog(A->idx < 0 ? "/nonexistent-dir/x.log" : tmppath, 0644, A->idx > 0 ? A->idx : 0, A->opt | QLOG_OPT_THREADSAFE); END();
        setret(g ? "ptr" : "null"); if (g) g->free(g); probe_result = "na"; return;
    }
    /* opt bit 1 = QLOG_OPT_FLUSH; rotateinterval = max (1 makes a rotation check due on every write) */
    qlog_t *g = qlog(tmppath, 0644, A->max, A->opt | QLOG_OPT_THREADSAFE);
    if (!g) { setret("setup-failed"); probe_result = "na"; return; }
    if (A->n) g->duplicate(g, devnull, A->n > 1);
    BEGIN();
    if (FN("write")) RB(g->write(A->cur && !strcmp(A->cur, "NULL") ? NULL : g, keystr ? keystr : "line"));
    else if (FN("writef")) RB(g->writef(A->cur && !strcmp(A->cur, "NULL") ? NULL : g, "%s %d", keystr ? keystr : "line", A->idx));
    else if (FN("duplicate")) RB(g->duplicate(A->cur && !strcmp(A->cur, "NULL") ? NULL : g, A->flag ? devnull : NULL, A->idx != 0));
    else if (FN("flush")) RB(g->flush(A->cur && !strcmp(A->cur, "NULL") ? NULL : g));
    else if (FN("free")) { if (A->cur && !strcmp(A->cur, "NULL")) { RV(g->free(NULL)); } else { RV(g->free(g)); freed = true; } }
    else { END(); setret("bad-fn"); }
    if (freed) { probe_result = "na"; return; }
    probe_result = run_probe(p_log, g);
    for (int i = 0; i < lockdelta; i++) __real_pthread_mutex_unlock((pthread_mutex_t *) g->qmutex);
    g->free(g);
}

int main(void) {
    char *line = NULL; size_t cap = 0; ssize_t len;
    setvbuf(stdout, NULL, _IOFBF, 1 << 16);
    main_thread = pthread_self();
    devnull = fopen("/dev/null", "w");
    const char *tmpdir = getenv("VERIF_TMP"); if (!tmpdir) tmpdir = "/tmp";
    snprintf(tmppath, sizeof(tmppath), "%s/verif_lock_%d.tmp", tmpdir, (int) getpid());
    snprintf(tmppath2, sizeof(tmppath2), "%s/verif_lock_%d.tbl", tmpdir, (int) getpid());
    struct sigaction sa; memset(&sa, 0, sizeof(sa)); sa.sa_handler = on_signal; sa.sa_flags = SA_NODEFER;
    sigaction(SIGSEGV, &sa, NULL); sigaction(SIGBUS, &sa, NULL); sigaction(SIGALRM, &sa, NULL); sigaction(SIGFPE, &sa, NULL);
    sigaction(SIGABRT, &sa, NULL);
    while ((len = getline(&line, &cap, stdin)) > 0) {
        char *w[MAXW]; int nw = split_words(line, w);
        if (nw == 0) continue;
        args_t A; memset(&A, 0, sizeof(A));
        A.kind = w[0]; A.fn = ""; A.range = 7; A.key_null = true; A.val_null = true;
        bool bad = false;
        for (int i = 1; i < nw; i++) {
            char *eq = strchr(w[i], '='); if (!eq) { bad = true; break; }
            *eq = 0; const char *v = eq + 1;
            if (!strcmp(w[i], "n")) A.n = atoi(v);
            else if (!strcmp(w[i], "opt")) A.opt = atoi(v);
            else if (!strcmp(w[i], "max")) A.max = atoi(v);
            else if (!strcmp(w[i], "range")) A.range = atoi(v);
            else if (!strcmp(w[i], "fn")) A.fn = v;
            else if (!strcmp(w[i], "idx")) A.idx = atoi(v);
            else if (!strcmp(w[i], "flag")) A.flag = atoi(v);
            else if (!strcmp(w[i], "cur")) A.cur = v;
            else if (!strcmp(w[i], "k")) A.k = atol(v);
            else if (!strcmp(w[i], "key")) { if (strcmp(v, "NULL")) { A.key_null = false; if (!unhex(v, &A.key)) bad = true; } }
            else if (!strcmp(w[i], "val")) { if (strcmp(v, "NULL")) { A.val_null = false; if (!unhex(v, &A.val)) bad = true; } }
            else bad = true;
        }
        if (bad) { printf("bad-op\n"); continue; }
        keystr = A.key_null ? NULL : cstr_exact(&A.key);
        retbuf[0] = 0; call_errno = 0; probe_result = "na"; freed = false; ntrace = 0; lockdelta = 0; alloc_count = 0; fired = 0;
        struct itimerval it = {{0, 0}, {2, 0}}, off = {{0, 0}, {0, 0}};
        int sig;
        jb_armed = 1;
        if ((sig = sigsetjmp(jb, 1)) == 0) {
            setitimer(ITIMER_REAL, &it, NULL);
            if (!strcmp(A.kind, "vector")) do_vector(&A);
            else if (!strcmp(A.kind, "list")) do_list(&A);
            else if (!strcmp(A.kind, "queue")) do_qqueue(&A);
            else if (!strcmp(A.kind, "stack")) do_qstack(&A);
            else if (!strcmp(A.kind, "grow")) do_grow(&A);
            else if (!strcmp(A.kind, "hashtbl")) do_hashtbl(&A);
            else if (!strcmp(A.kind, "listtbl")) do_listtbl(&A);
            else if (!strcmp(A.kind, "treetbl")) do_treetbl(&A);
            else if (!strcmp(A.kind, "log")) do_log(&A);
            else setret("bad-kind");
            setitimer(ITIMER_REAL, &off, NULL);
        } else {
            /* the call did not return: crash or watchdog (the container is abandoned) */
            setitimer(ITIMER_REAL, &off, NULL);
            int was_in_call = in_call;
            call_errno = errno;
            in_call = 0;
            if (sig == SIGALRM) setret("hang%s", was_in_call ? "" : ":outside-call");
            else setret("crash:%d%s", sig, was_in_call ? "" : ":outside-call");
            probe_result = "na";
        }
        jb_armed = 0;
        int e = call_errno;
        trace[ntrace] = 0;
        printf("ret=%s errno=%s lockdelta=%d allocs=%ld fired=%d trace=%s probe=%s\n", retbuf, errname(e), lockdelta,
               alloc_count, fired, ntrace ? trace : "-", probe_result);
        free(keystr); keystr = NULL;
        free(A.key.p); free(A.val.p);
    }
    free(line);
    unlink(tmppath); unlink(tmppath2);
    return 0;
}
